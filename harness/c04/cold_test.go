package c04

import (
	"encoding/json"
	"strconv"
	"strings"
	"testing"

	"go.lstv.dev/util/size"

	"verifharness/vkit"
)

// Texts as another process would have written them; the fresh process starts by reading one of them.
var coldScenarios = []string{"text 5KiB", "text 1 000 kB", "json object", "json string", "json number", "container", "pretty", "new", "bytes",
	"first reads under DefaultRule 0", "first reads under DefaultRule 1", "first reads under DefaultRule 2", "first reads under DefaultRule 4", "first reads under DefaultRule 7", "first reads under DefaultRule 12", "first reads under DefaultRule 15"}

func coldFirst(scenario string) {
	var s size.Size
	if strings.HasPrefix(scenario, "first reads under DefaultRule ") {
		// DefaultRule is a setting like any other: the process starts reading under another one, which is then put back
		n, _ := strconv.Atoi(strings.TrimPrefix(scenario, "first reads under DefaultRule "))
		old := size.DefaultRule
		size.DefaultRule = size.Rule(n)
		for _, tx := range []string{`"7 GB"`, `{"value":3,"unit":"MiB"}`, `12345`, `"12345"`} {
			_ = s.UnmarshalJSON([]byte(tx))
			var d doc
			_ = json.Unmarshal([]byte(`{"s":`+tx+`,"l":[`+tx+`]}`), &d)
		}
		_ = s.UnmarshalText([]byte("5KiB"))
		_ = s.UnmarshalText([]byte("5120"))
		size.DefaultRule = old
		return
	}
	switch scenario {
	case "text 5KiB":
		_ = s.UnmarshalText([]byte("5KiB"))
	case "text 1 000 kB":
		_, _ = size.DefaultParser("1 000 kB", 0)
	case "json object":
		_ = s.UnmarshalJSON([]byte(`{"value":3,"unit":"MiB"}`))
	case "json string":
		_ = s.UnmarshalJSON([]byte(`"7 GB"`))
	case "json number":
		_ = json.Unmarshal([]byte(`12345`), &s)
	case "container":
		var d doc
		_ = json.Unmarshal([]byte(`{"s":{"value":1,"unit":"TiB"},"l":["1 kB",2],"m":{"a":"3PiB"}}`), &d)
	case "pretty":
		_, _ = size.DefaultParser([]byte("20 000 KiB"), 0)
	case "new":
		_, _ = size.New(uint16(3), "EiB")
	case "bytes":
		_, _ = size.Bytes[float32](1 << 30)
	default:
		panic("unknown cold scenario " + scenario)
	}
}

func TestColdStart(t *testing.T) {
	scenario := vkit.ColdScenario()
	if scenario == "" {
		t.Skip("not a cold-start child")
	}
	r := vkit.Start("C04")
	w := r.NewW()
	w.Guard(map[string]string{"first_call": scenario}, func() { coldFirst(scenario) })
	first := map[string]uint64{"5KiB": 5120, "1 000 kB": 1000000, "3MiB": 3 << 20, "7 GB": 7000000000, "1TiB": 1 << 40, "2 EB": 2000000000000000000, "15EiB": 15 << 60, "0 YB": 0, "1 PB": 1000000000000000, "20 000 KiB": 20000 << 10, "12345": 12345, "3PiB": 3 << 50, "3EiB": 3 << 60}
	for text, want := range first {
		got, err := size.DefaultParser(text, 0)
		if err != nil || uint64(got) != want {
			w.Fail(map[string]string{"first_call": scenario, "text": text}, "rendering-round-trip", "DefaultParser("+text+") in a fresh process: "+got.String()+", "+errText(err))
		}
	}
	for _, v := range []uint64{12345, 20000 << 10, 7000000000, 3 << 60, 0, 1, 1023, 1024, 5120, 1 << 20, 1<<40 + 1, 3 << 50, 15 << 60, 1<<64 - 1} {
		for sw := 0; sw < 8; sw++ {
			restore := configure(sw)
			judge(Case{S: v, Switches: sw, Containers: sw%3 == 0}, w)
			restore()
		}
	}
	vkit.ColdReport(t, w)
}

func errText(err error) string {
	if err == nil {
		return "no error"
	}
	return err.Error()
}
