// C04: a size survives every marshal form and configuration.
package c04

import (
	"encoding/json"
	"errors"
	"fmt"
	"math/bits"
	"reflect"
	"strings"
	"testing"

	"go.lstv.dev/util/size"
	"pgregory.net/rapid"

	"verifharness/ref"
	"verifharness/vkit"
)

// Case: one size under one setting of the three marshalling switches (bit 0 DisableMarshalTextUnit,
// bit 1 DisableMarshalJSONStringForm, bit 2 DisableMarshalJSONObjectForm). Containers selects the encoding/json container paths.
type Case struct {
	S          uint64 `json:"size"`
	Switches   int    `json:"switches"`
	Containers bool   `json:"containers"`
	// Hooks: before the case is judged, custom package-level Formatter and Parser functions are installed, used and removed.
	Hooks bool `json:"after_custom_hooks,omitempty"`
}

// pokeWithCustomHooks: the package-level Formatter and Parser are settings; what was produced under one setting must not be
// handed out under the next. The HTML rendering is requested as well: it is a third rendering of the same size.
func pokeWithCustomHooks(s size.Size) {
	_ = s.PrettyHTML()
	oldF, oldP := size.Formatter, size.Parser
	defer func() { size.Formatter, size.Parser = oldF, oldP }()
	size.Formatter = func(buf []byte, s size.Size, f size.Format) ([]byte, error) {
		return append(buf, fmt.Sprintf("custom<%d>", uint64(s))...), nil
	}
	size.Parser = func(input []byte, r size.Rule) (size.Size, error) { return 666, nil }
	_, _, _ = s.String(), s.PrettyString(), s.PrettyHTML()
	_ = fmt.Sprintf("%s %v", s, s)
	_, _ = s.MarshalText()
	_, _ = s.MarshalJSON()
	_, _ = json.Marshal(map[string]size.Size{"a": s})
	var u size.Size
	_ = u.UnmarshalText([]byte("3 KiB"))
	_ = u.UnmarshalJSON([]byte(`{"value":3,"unit":"KiB"}`))
	_ = json.Unmarshal([]byte(`["1kB"]`), &[]size.Size{})
	// second stage: a Formatter that fails (after writing something), used once, before the defaults come back
	// (PrettyString and PrettyHTML are documented to panic then)
	size.Formatter = func(buf []byte, s size.Size, f size.Format) ([]byte, error) {
		return append(buf, "part"...), errors.New("formatter refused")
	}
	_ = s.String()
	_ = fmt.Sprintf("%s %v", s, s)
	_, _ = s.MarshalText()
	_, _ = s.MarshalJSON()
	vkit.Panics(func() { _ = s.PrettyString() })
	vkit.Panics(func() { _ = s.PrettyHTML() })
}

func configure(sw int) func() {
	a, b, c := size.DisableMarshalTextUnit, size.DisableMarshalJSONStringForm, size.DisableMarshalJSONObjectForm
	size.DisableMarshalTextUnit, size.DisableMarshalJSONStringForm, size.DisableMarshalJSONObjectForm = sw&1 != 0, sw&2 != 0, sw&4 != 0
	return func() {
		size.DisableMarshalTextUnit, size.DisableMarshalJSONStringForm, size.DisableMarshalJSONObjectForm = a, b, c
	}
}

type namedS string

type inner struct {
	S size.Size `json:"s"`
}

type doc struct {
	S size.Size            `json:"s"`
	P *size.Size           `json:"p"`
	L []size.Size          `json:"l"`
	M map[string]size.Size `json:"m"`
	N []inner              `json:"n"`
	O *size.Size           `json:"o,omitempty"`
}

func judge(c Case, w *vkit.W) {
	defer func() {
		if p := recover(); p != nil {
			w.Fail(c, "panic", vkit.PanicDetail(p))
		}
	}()
	s := size.Size(c.S)
	const other = size.Size(0xDEADBEEF)
	if c.Hooks {
		pokeWithCustomHooks(s)
	}
	if w.Flip() && (c.S%8 == 3 || c.Containers) {
		// earlier calls that fail must not influence later ones: a few rejected inputs before the round trips
		var junk size.Size
		for _, bad := range rejected {
			_ = junk.UnmarshalJSON([]byte(bad))
			_ = junk.UnmarshalText([]byte(bad))
		}
	}

	text, err := s.MarshalText()
	if err != nil {
		w.Fail(c, "marshal-error", fmt.Sprintf("Size(%d).MarshalText() error %v (switches %03b)", c.S, err, c.Switches))
	} else {
		if bits.OnesCount64(c.S)%2 == 0 || c.Hooks {
			// the value's own text with the unit in another letter case is read first (accepted or not, the result is dropped):
			// a near miss of the unit just before must not influence how the real one is read
			for _, alt := range []string{strings.ToLower(string(text)), strings.ToUpper(string(text))} {
				if alt != string(text) {
					var junk size.Size
					_ = junk.UnmarshalText([]byte(alt))
					_ = junk.UnmarshalJSON([]byte(`"` + alt + `"`))
				}
			}
		}
		back := other
		if err := back.UnmarshalText(w.Scratch(string(text))); err != nil || back != s { // read from a reused caller buffer
			w.Fail(c, "text-round-trip", fmt.Sprintf("Size(%d): MarshalText = %q, UnmarshalText -> %d, %v (switches %03b)", c.S, text, uint64(back), err, c.Switches))
		}
	}
	if err == nil {
		w.RetainBytes(c, "MarshalText", text, string(text)) // kept as returned: a later marshal must not change it
	}
	js, err := s.MarshalJSON()
	if err != nil {
		w.Fail(c, "marshal-error", fmt.Sprintf("Size(%d).MarshalJSON() error %v (switches %03b)", c.S, err, c.Switches))
	} else {
		if !json.Valid(js) {
			w.Fail(c, "marshal-json-invalid", fmt.Sprintf("Size(%d).MarshalJSON() = %q is not valid JSON (switches %03b)", c.S, js, c.Switches))
		}
		back := other
		if err := back.UnmarshalJSON(w.Scratch(string(js))); err != nil || back != s {
			w.Fail(c, "json-round-trip", fmt.Sprintf("Size(%d): MarshalJSON = %q, UnmarshalJSON -> %d, %v (switches %03b)", c.S, js, uint64(back), err, c.Switches))
		}
		w.RetainBytes(c, "MarshalJSON", js, string(js))
		if c.S%8 == 5 || c.Containers || c.S < 32 {
			// the marshalled forms as a program holds them before decoding: json.RawMessage (a named []byte) and named strings
			if got, err := size.DefaultParser(json.RawMessage(w.Scratch(string(js))), size.DefaultRule); err != nil || got != s {
				w.Fail(c, "json-round-trip", fmt.Sprintf("Size(%d): MarshalJSON = %q, DefaultParser[json.RawMessage] under the default rule -> %d, %v (switches %03b)", c.S, js, uint64(got), err, c.Switches))
			}
			if got, err := size.DefaultParser(namedS(js), size.DefaultRule); err != nil || got != s {
				w.Fail(c, "json-round-trip", fmt.Sprintf("Size(%d): MarshalJSON = %q, DefaultParser[named string] under the default rule -> %d, %v (switches %03b)", c.S, js, uint64(got), err, c.Switches))
			}
		}
		if c.S%4 == 1 || c.S < 64 || c.Containers { // the returned bytes belong to the caller
			if js2, err := s.MarshalJSON(); err == nil {
				w.Owned(c, "MarshalJSON", js2, string(js), s.MarshalJSON)
			}
			if t2, err := s.MarshalText(); err == nil {
				want := string(t2)
				w.Owned(c, "MarshalText", t2, want, s.MarshalText)
			}
		}
		switch {
		case len(js) > 0 && js[0] == '{':
			w.Class("json_form_object")
		case len(js) > 0 && js[0] == '"':
			w.Class("json_form_string")
		default:
			w.Class("json_form_number")
		}
	}
	for _, rd := range []struct {
		name   string
		render func() string
	}{{"String", s.String}, {"PrettyString", s.PrettyString}} {
		if c.Hooks {
			_ = s.PrettyHTML() // the rendering asked for just before is a different one of the same size
		}
		r := struct{ name, text string }{rd.name, rd.render()}
		got, err := size.DefaultParser(r.text, 0)
		if err != nil || got != s {
			w.Fail(c, "rendering-round-trip", fmt.Sprintf("Size(%d).%s() = %q, DefaultParser[string] -> %d, %v", c.S, r.name, r.text, uint64(got), err))
		}
		got, err = size.DefaultParser(w.Scratch(r.text), 0)
		if err != nil || got != s {
			w.Fail(c, "rendering-round-trip", fmt.Sprintf("Size(%d).%s() = %q, DefaultParser[[]byte] -> %d, %v", c.S, r.name, r.text, uint64(got), err))
		}
		back := other
		if err := back.UnmarshalText(w.Scratch(r.text)); err != nil || back != s {
			w.Fail(c, "rendering-round-trip", fmt.Sprintf("Size(%d).%s() = %q, UnmarshalText -> %d, %v", c.S, r.name, r.text, uint64(back), err))
		}
	}
	if !c.Containers {
		return
	}
	p := s
	d := doc{S: s, P: &p, L: []size.Size{s, 0, s + 1, s}, M: map[string]size.Size{"a": s, "zero": 0, "b": s / 3}, N: []inner{{s}, {s ^ 1}}}
	b, err := json.Marshal(d)
	if err != nil {
		w.Fail(c, "marshal-error", fmt.Sprintf("json.Marshal of a document with Size(%d): %v (switches %03b)", c.S, err, c.Switches))
		return
	}
	var got doc
	if err := json.Unmarshal(b, &got); err != nil || !reflect.DeepEqual(d, got) {
		w.Fail(c, "container-round-trip", fmt.Sprintf("Size(%d): json.Marshal = %s; json.Unmarshal -> %+v, %v (switches %03b)", c.S, b, got, err, c.Switches))
	}
	// indented output inserts whitespace inside the object form
	if bi, err := json.MarshalIndent(d, "", "\t"); err == nil {
		var got2 doc
		if err := json.Unmarshal(bi, &got2); err != nil || !reflect.DeepEqual(d, got2) {
			w.Fail(c, "container-round-trip", fmt.Sprintf("Size(%d): json.MarshalIndent then json.Unmarshal -> %+v, %v (switches %03b)", c.S, got2, err, c.Switches))
		}
	}
}

var rejected = []string{"1 2 3", `{"value":1,"unit":"kB"} {"value":2,"unit":"kB"} 3`, `"1 kB" "2 kB" x`, `{"value":1`, "[1,2", "x", `{"value":1,"unit":"kB"}}}`, "-1", "1 xB", `"`, ""}

func nontrivial(s uint64) bool { return s != 10 && s != 20*1024 }

func TestCheck(t *testing.T) {
	r := vkit.Start("C04")
	defer r.Finish(t)
	if r.ReplayCold() {
		return
	}
	if r.Replay != "" {
		var c Case
		if err := r.LoadReplay(&c); err != nil {
			t.Fatalf("replay: %v", err)
		}
		defer configure(c.Switches)()
		r.Serial(func(w *vkit.W) { judge(c, w); w.Eval(true) })
		return
	}
	r.Rule("Cases are (size, switch setting, container flag). Oracle: inverse - MarshalText->UnmarshalText, MarshalJSON->UnmarshalJSON, String/PrettyString->DefaultParser (string, []byte)/UnmarshalText, " +
		"json.Marshal/MarshalIndent->json.Unmarshal of a document (value field, pointer field, slice, map values, nested structs) must restore the same size; marshalling must not fail. The JSON form chosen is only recorded as a class. " +
		"Non-trivial: size other than the two values the unit tests use. Distinct: (size, switches) by construction for strata, by hash for random values.")
	r.Regress(func(raw json.RawMessage, w *vkit.W) error {
		var c Case
		if err := json.Unmarshal(raw, &c); err != nil {
			return err
		}
		defer configure(c.Switches)()
		judge(c, w)
		w.Eval(true)
		return nil
	})
	strata := ref.SizeStrata(uint64(r.Pick(1<<17, 1<<20)))
	nRand := int64(r.Pick(300000, 10000000))
	nCont := int64(r.Pick(20000, 400000))
	for sw := 0; sw < 8; sw++ {
		sw := sw
		r.Phase(fmt.Sprintf("switches %03b: %d strata values + %d random values + %d container documents", sw, len(strata), nRand, nCont), func() {
			restore := configure(sw)
			defer restore()
			r.Parallel(int64(len(strata)), 2048, func(w *vkit.W, lo, hi int64) {
				for i := lo; i < hi; i++ {
					c := Case{S: strata[i], Switches: sw}
					judge(c, w)
					w.Eval(nontrivial(c.S))
				}
			})
			r.Parallel(nRand, 4096, func(w *vkit.W, lo, hi int64) {
				for i := lo; i < hi; i++ {
					g := r.Rng("rand", i)
					v := g.U64() >> uint(g.Intn(64))
					if i%2 == 0 {
						v <<= uint(g.Intn(64))
					}
					judge(Case{S: v, Switches: sw}, w)
					w.EvalRandom(vkit.HashU(v, uint64(sw)), nontrivial(v))
				}
			})
			r.Parallel(nCont, 512, func(w *vkit.W, lo, hi int64) {
				for i := lo; i < hi; i++ {
					var v uint64
					if i < int64(len(strata)) && i%2 == 0 {
						v = strata[(i*7919)%int64(len(strata))]
					} else {
						g := r.Rng("cont", i)
						v = g.U64() >> uint(g.Intn(64)) << uint(g.Intn(4)*10)
					}
					c := Case{S: v, Switches: sw, Containers: true}
					judge(c, w)
					w.EvalRandom(vkit.HashU(v, uint64(sw), 1), nontrivial(v))
					if w.WantSample() && v > 1<<50 {
						w.Sample(c)
					}
				}
			})
		})
	}
	r.Exhaustive(fmt.Sprintf("%d stratified sizes x all 8 switch settings through text, JSON and rendering paths", len(strata)))
	r.Phase("H: every path again right after the HTML rendering was requested and custom package-level Formatter/Parser functions were installed, used and removed", func() {
		for sw := 0; sw < 8; sw++ {
			restore := configure(sw)
			r.Serial(func(w *vkit.W) {
				for i := 0; i < len(strata); i += 41 {
					c := Case{S: strata[i], Switches: sw, Containers: i%3 == 0, Hooks: true}
					judge(c, w)
					w.EvalRandom(vkit.HashU(c.S, uint64(sw), 77), nontrivial(c.S))
				}
			})
			restore()
		}
	})
	r.Sampled()
	r.Phase(fmt.Sprintf("cold start: %d scenarios (the first call of a fresh process is an unmarshal of text produced elsewhere)", len(coldScenarios)), func() {
		r.Serial(func(w *vkit.W) {
			for _, sc := range coldScenarios {
				r.RunCold(w, sc, false)
				w.EvalRandom(vkit.Hash64("cold", sc), true)
			}
		})
	})

	r.Phase("rapid", func() {
		r.Rapid(t, "rapid-roundtrip", 0, r.Pick(10000, 200000), func(rt *rapid.T, w *vkit.W) vkit.RapidCase {
			v := rapid.Uint64().Draw(rt, "v") >> uint(rapid.IntRange(0, 63).Draw(rt, "shr")) << uint(rapid.IntRange(0, 63).Draw(rt, "shl"))
			c := Case{S: v, Switches: rapid.IntRange(0, 7).Draw(rt, "switches"), Containers: rapid.Bool().Draw(rt, "containers")}
			defer configure(c.Switches)()
			judge(c, w)
			return vkit.RapidCase{Case: c, Hash: vkit.HashU(v, uint64(c.Switches), 2), NT: nontrivial(v)}
		})
	})
}
