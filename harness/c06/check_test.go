// C06: version precedence follows SemVer 2.0.0 section 11 (outside the one pinned departure).
package c06

import (
	"encoding/json"
	"fmt"
	"math/big"
	"sort"
	"strconv"
	"strings"
	"testing"

	"go.lstv.dev/util/sem"
	"pgregory.net/rapid"

	"verifharness/ref"
	"verifharness/vkit"
)

// V is one version given by its fields.
type V struct {
	Major uint64 `json:"major"`
	Minor uint64 `json:"minor"`
	Patch uint64 `json:"patch"`
	Pre   string `json:"pre"`
	Build string `json:"build"`
}

// Case is an ordered pair; Helpers additionally drives the string helpers and Latest*.
type Case struct {
	A       V    `json:"a"`
	B       V    `json:"b"`
	Helpers bool `json:"helpers"`
}

func (v V) ver() sem.Ver {
	return sem.Ver{Major: v.Major, Minor: v.Minor, Patch: v.Patch, PreRelease: v.Pre, Build: v.Build}
}
func (v V) text() string { return ref.SemText(v.Major, v.Minor, v.Patch, v.Pre, v.Build) }

// expected returns the section-11 order of the pair and whether the pair is in the excluded (pinned) family.
func expected(a, b V) (cmp int, excluded bool) {
	if c := ref.CompareCore([3]uint64{a.Major, a.Minor, a.Patch}, [3]uint64{b.Major, b.Minor, b.Patch}); c != 0 {
		return c, false
	}
	if ref.PinnedDeparture(a.Pre, b.Pre) {
		return 0, true
	}
	return ref.ComparePre(a.Pre, b.Pre), false
}

func sameVer(x sem.Ver, v V) bool {
	return x.Major == v.Major && x.Minor == v.Minor && x.Patch == v.Patch && x.PreRelease == v.Pre && x.Build == v.Build
}

func judge(c Case, w *vkit.W) (excluded bool) {
	defer func() {
		if p := recover(); p != nil {
			w.Fail(c, "panic", vkit.PanicDetail(p))
		}
	}()
	want, excl := expected(c.A, c.B)
	if excl {
		// outside the claim (a01 vs a1 family); still executed so that a panic is seen
		_ = c.A.ver().Compare(c.B.ver())
		return true
	}
	a, b := c.A.ver(), c.B.ver()
	if got := a.Compare(b); got != want {
		w.Fail(c, "ver-compare", fmt.Sprintf("(%s).Compare(%s) = %d, section 11 says %d", c.A.text(), c.B.text(), got, want))
	}
	sameCore := c.A.Major == c.B.Major && c.A.Minor == c.B.Minor && c.A.Patch == c.B.Patch
	if sameCore {
		if got := sem.DefaultComparePreRelease(c.A.Pre, c.B.Pre); got != want {
			w.Fail(c, "compare-pre-release", fmt.Sprintf("DefaultComparePreRelease(%q, %q) = %d, section 11 says %d", c.A.Pre, c.B.Pre, got, want))
		}
		if got := sem.DefaultComparePreRelease([]byte(c.A.Pre), c.B.Pre); got != want {
			w.Fail(c, "compare-pre-release", fmt.Sprintf("DefaultComparePreRelease([]byte(%q), %q) = %d, section 11 says %d", c.A.Pre, c.B.Pre, got, want))
		}
	}
	lat := a.Latest(b)
	checkLatest := func(path string, got sem.Ver) {
		switch {
		case want < 0 && !sameVer(got, c.B), want > 0 && !sameVer(got, c.A), want == 0 && !sameVer(got, c.A) && !sameVer(got, c.B):
			w.Fail(c, "latest", fmt.Sprintf("%s of (%s, %s) = %s; order is %d", path, c.A.text(), c.B.text(), got.String(), want))
		}
	}
	checkLatest("Ver.Latest", lat)
	if !c.Helpers {
		return false
	}
	ta, tb := c.A.text(), c.B.text()
	cmpHelper := func(path string, got int, err error) {
		if err != nil {
			w.Fail(c, "helper-error", fmt.Sprintf("%s(%q, %q) error %v on valid versions", path, ta, tb, err))
		} else if got != want {
			w.Fail(c, "helper-compare", fmt.Sprintf("%s(%q, %q) = %d, section 11 says %d", path, ta, tb, got, want))
		}
	}
	latHelper := func(path string, got sem.Ver, err error) {
		if err != nil {
			w.Fail(c, "helper-error", fmt.Sprintf("%s(%q, %q) error %v on valid versions", path, ta, tb, err))
			return
		}
		checkLatest(path, got)
	}
	g, err := sem.Compare(ta, "v"+tb)
	cmpHelper("Compare[string,string] (a plain, b tag)", g, err)
	g, err = sem.Compare([]byte("v"+ta), []byte(tb))
	cmpHelper("Compare[[]byte,[]byte] (a tag, b plain)", g, err)
	g, err = sem.CompareVersion[string, string](ta, tb)
	cmpHelper("CompareVersion", g, err)
	g, err = sem.CompareTag("v"+ta, []byte("v"+tb))
	cmpHelper("CompareTag[string,[]byte]", g, err)
	l, err := sem.Latest("v"+ta, tb)
	latHelper("Latest", l, err)
	l, err = sem.LatestVersion([]byte(ta), tb)
	latHelper("LatestVersion", l, err)
	l, err = sem.LatestTag("v"+ta, "v"+tb)
	latHelper("LatestTag", l, err)
	return false
}

const max64 = ^uint64(0)

var cores = [][3]uint64{{0, 0, 0}, {0, 0, 1}, {0, 1, 0}, {1, 0, 0}, {1, 2, 3}, {max64, 0, 0}, {0, max64, 0}, {0, 0, max64}, {max64 - 1, max64, max64}, {max64, max64, max64}, {1 << 63, 0, 0}, {1<<63 - 1, 0, 0}, {2, 10, 9}, {10, 2, 9}}
var builds = []string{"", "b", "001", "x.y-z.0"}

func nontrivial(c Case) bool {
	return c.A.Major == c.B.Major && c.A.Minor == c.B.Minor && c.A.Patch == c.B.Patch && c.A.Pre != "" && c.B.Pre != "" && c.A.Pre != c.B.Pre
}

func TestCheck(t *testing.T) {
	r := vkit.Start("C06")
	defer r.Finish(t)
	if r.ReplayCold() {
		return
	}
	if r.Replay != "" {
		var c Case
		if err := r.LoadReplay(&c); err != nil {
			t.Fatalf("replay: %v", err)
		}
		r.Serial(func(w *vkit.W) { judge(c, w); w.Eval(true) })
		return
	}
	r.Rule("Cases are ordered pairs of versions (fields given directly; helper texts built by an independent formatter). Oracle: independent section-11 comparator (arbitrary-length numeric identifiers). " +
		"Pairs in the statement's excluded family (first differing identifiers both alphanumeric, differing only in a trailing digit run) are executed but not judged, and counted as excluded_pinned_departure. " +
		"Non-trivial: equal cores, both pre-releases non-empty and different, not excluded. Distinct by construction (pair enumeration) or by hash (rapid).")
	r.Regress(func(raw json.RawMessage, w *vkit.W) error {
		var c Case
		if err := json.Unmarshal(raw, &c); err != nil {
			return err
		}
		judge(c, w)
		w.Eval(true)
		return nil
	})

	// Phase 0: the specification's example chain, all ordered pairs, all entry points.
	r.Phase("spec chain", func() {
		r.Serial(func(w *vkit.W) {
			chain := []string{"alpha", "alpha.1", "alpha.beta", "beta", "beta.2", "beta.11", "rc.1", ""}
			for _, a := range chain {
				for _, b := range chain {
					c := Case{A: V{Major: 1, Pre: a}, B: V{Major: 1, Pre: b, Build: "20130313144700"}, Helpers: true}
					judge(c, w)
					w.Eval(nontrivial(c))
				}
			}
			for _, p := range [][2][3]uint64{{{1, 0, 0}, {2, 0, 0}}, {{2, 0, 0}, {2, 1, 0}}, {{2, 1, 0}, {2, 1, 1}}} {
				for _, sw := range []bool{false, true} {
					a, b := p[0], p[1]
					if sw {
						a, b = b, a
					}
					judge(Case{A: V{Major: a[0], Minor: a[1], Patch: a[2]}, B: V{Major: b[0], Minor: b[1], Patch: b[2]}, Helpers: true}, w)
					w.Eval(false)
				}
			}
		})
	})

	L := r.Pick(4, 5)
	helperL := r.Pick(3, 4)
	uni := ref.PreUniverse("0129aB-.", L)
	n := int64(len(uni))
	r.Extra("universe_size", n)
	r.Phase(fmt.Sprintf("A: all ordered pairs of the %d valid pre-releases over {0,1,2,9,a,B,-,.} up to length %d (plus the empty one)", n-1, L), func() {
		r.Parallel(n*n, n, func(w *vkit.W, lo, hi int64) {
			var excl int64
			for k := lo; k < hi; k++ {
				i, j := k/n, k%n
				h := vkit.HashU(uint64(i), uint64(j), uint64(r.Seed))
				ca := cores[h%uint64(len(cores))]
				cb := ca
				if h>>8%4 == 0 {
					cb = cores[(h>>16)%uint64(len(cores))]
				}
				c := Case{
					A: V{Major: ca[0], Minor: ca[1], Patch: ca[2], Pre: uni[i], Build: builds[(h>>24)%4]},
					B: V{Major: cb[0], Minor: cb[1], Patch: cb[2], Pre: uni[j], Build: builds[(h>>32)%4]},
				}
				c.Helpers = h>>40%16 == 0 || (len(uni[i]) <= helperL && len(uni[j]) <= helperL)
				if judge(c, w) {
					excl++
					w.Eval(false)
					continue
				}
				nt := nontrivial(c)
				w.Eval(nt)
				if c.Helpers {
					w.Class("pairs_through_string_helpers")
				}
				if nt && w.WantSample() && strings.Contains(uni[i], ".") && len(uni[j]) == L {
					w.Sample(c)
				}
			}
			w.ClassN("excluded_pinned_departure", excl)
		})
	})
	r.Exhaustive(fmt.Sprintf("all ordered pairs over the %d-element pre-release universe (length <= %d) through Ver.Compare, DefaultComparePreRelease and Ver.Latest; helpers on all pairs of length <= %d and a 1-in-16 sample", n, L, helperL))

	// Phase H: ComparePreRelease is a package setting: after it was replaced by another comparator and restored, every entry
	// point must follow section 11 again (results remembered from the other setting must not survive).
	r.Phase("H: history - pairs compared under a replaced ComparePreRelease, then again under the restored default", func() {
		old := sem.ComparePreRelease
		defer func() { sem.ComparePreRelease = old }()
		small := ref.PreUniverse("019aB-.", 3)
		m := int64(len(small))
		reversed := func(a, b string) int { return -sem.DefaultComparePreRelease(a, b) }
		// the setting is toggled around every single pair, so a result remembered under the other setting would be hit at once
		r.Serial(func(w *vkit.W) {
			for k := int64(0); k < m*m; k++ {
				c := Case{A: V{Major: 1, Pre: small[k/m]}, B: V{Major: 1, Pre: small[k%m], Build: "b"}, Helpers: k%5 == 0}
				a, b := c.A.ver(), c.B.ver()
				sem.ComparePreRelease = reversed
				x, y := a.Compare(b), b.Compare(a)
				sem.ComparePreRelease = old
				if x != -y {
					w.Fail(c, "replaced-comparator-not-used-consistently", fmt.Sprintf("under a reversed ComparePreRelease: Compare = %d, reversed arguments = %d", x, y))
				}
				if judge(c, w) {
					w.Eval(false)
					continue
				}
				w.Eval(nontrivial(c))
			}
		})
	})

	// Phase B: cores x cores with a small pre-release set: core order dominates, release above pre-release.
	r.Phase("B: all ordered pairs of cores x small pre-release set", func() {
		pres := []string{"", "0", "a", "1.2", "rc.1", "-"}
		nc := int64(len(cores))
		r.Parallel(nc*nc, 1, func(w *vkit.W, lo, hi int64) {
			for k := lo; k < hi; k++ {
				ca, cb := cores[k/nc], cores[k%nc]
				for _, pa := range pres {
					for _, pb := range pres {
						for _, bd := range builds[:2] {
							c := Case{A: V{Major: ca[0], Minor: ca[1], Patch: ca[2], Pre: pa, Build: bd}, B: V{Major: cb[0], Minor: cb[1], Patch: cb[2], Pre: pb}, Helpers: true}
							judge(c, w)
							w.Eval(nontrivial(c))
						}
					}
				}
			}
		})
	})

	// Phase B2: numeric components at every power of two and its neighbours, in every position, against each other.
	r.Phase("B2: cores with one component at 2^k-1, 2^k, 2^k+1 (k = 0..63) in each position, all ordered pairs per position, through every entry point", func() {
		var vals []uint64
		for k := uint(0); k < 64; k++ {
			vals = append(vals, 1<<k-1, 1<<k, 1<<k+1)
		}
		vals = append(vals, max64, max64-1)
		nv := int64(len(vals))
		r.Parallel(nv*nv, nv, func(w *vkit.W, lo, hi int64) {
			for k := lo; k < hi; k++ {
				x, y := vals[k/nv], vals[k%nv]
				for pos := 0; pos < 3; pos++ {
					a, b := [3]uint64{1, 1, 1}, [3]uint64{1, 1, 1}
					a[pos], b[pos] = x, y
					if pos > 0 { // the more significant component of b is one lower, so b must lose whatever its lower components are
						c := Case{A: V{Major: a[0], Minor: a[1], Patch: a[2], Pre: "rc.1"}, B: V{Major: b[0], Minor: b[1], Patch: b[2]}, Helpers: k%3 == 0}
						c.B.Major, c.B.Minor = 1, 0
						if pos == 1 {
							c.B.Major, c.B.Minor = 0, y
						}
						judge(c, w)
						w.Eval(false)
					}
					c := Case{A: V{Major: a[0], Minor: a[1], Patch: a[2], Pre: "rc.1"}, B: V{Major: b[0], Minor: b[1], Patch: b[2], Pre: "rc.1", Build: "b"}, Helpers: k%3 == 0}
					judge(c, w)
					w.Eval(false)
				}
			}
		})
	})

	// Phase B3: MaxInputLength disabled / raised: long versions that differ only far behind byte 1024, through the string helpers.
	r.Phase("B3: long versions (1000-4200 bytes) differing only in their last identifier, limit disabled and raised, through the string helpers", func() {
		old := sem.MaxInputLength
		defer func() { sem.MaxInputLength = old }()
		for _, lim := range []int{0, 5000} {
			sem.MaxInputLength = lim
			r.Serial(func(w *vkit.W) {
				for _, n := range []int{900, 1015, 1016, 1017, 1018, 1019, 1020, 1030, 2040, 2048, 2049, 4090, 4096, 4100} {
					stem := strings.Repeat("a", n)
					for _, tails := range [][2]string{{"1", "2"}, {"9", "10"}, {"a", "b"}, {"x", ""}, {"", ""}} {
						pa, pb := stem+"."+tails[0], stem+"."+tails[1]
						if tails[0] == "" {
							pa = stem
						}
						if tails[1] == "" {
							pb = stem
						}
						c := Case{A: V{Major: 1, Pre: pa}, B: V{Major: 1, Pre: pb, Build: "b"}, Helpers: true}
						judge(c, w)
						w.Eval(nontrivial(c))
						c2 := Case{A: c.B, B: c.A, Helpers: true}
						judge(c2, w)
						w.Eval(nontrivial(c2))
					}
				}
			})
		}
	})

	// Phase B3b: Ver values built by hand (not parsed) with very long identifier lists, and every MaxInputLength setting:
	// the value methods do not depend on the parser's input limit.
	r.Phase("B3b: hand-built versions sharing 2..2100 leading identifiers (five kinds) and differing in the next one, with and without further identifiers behind it, MaxInputLength in {1024, 0, 3, 4, 16}", func() {
		old := sem.MaxInputLength
		defer func() { sem.MaxInputLength = old }()
		for _, lim := range []int{1024, 0, 3, 4, 16} {
			sem.MaxInputLength = lim
			r.Serial(func(w *vkit.W) {
				for _, n := range []int{2, 3, 4, 5, 7, 8, 9, 15, 16, 17, 30, 31, 32, 33, 34, 63, 64, 65, 100, 127, 128, 129, 255, 256, 257, 1023, 1024, 1025, 2100} {
					for _, unit := range []string{"a.", "0.", "1.x.", "rc-1.", "7."} {
						stem := strings.Repeat(unit, n)
						// the lists differ in one identifier and (second half of the table) go on after it
						for _, tails := range [][2]string{{"1", "2"}, {"9", "10"}, {"a", "b"}, {"1", "a"}, {"x", "x.0"},
							{"9.x", "10.x"}, {"2.0", "10.0"}, {"1.1", "a.0"}, {"b.2", "b.10.0"}, {"9a.1", "10a.1"}, {"2.z.z", "10"}, {"Z.1", "a.0"},
							// a numeric identifier against an alphanumeric one that sorts below it as text (11.4.3: numeric is always lower)
							{"2", "1a"}, {"9", "-"}, {"10", "1-"}, {"5", "0x"}, {"2.x", "1a.x"}, {"9.0", "-.0"}} {
							c := Case{A: V{Major: 1, Pre: stem + tails[0]}, B: V{Major: 1, Pre: stem + tails[1], Build: "b"}}
							judge(c, w)
							w.Eval(nontrivial(c))
							c2 := Case{A: c.B, B: c.A}
							judge(c2, w)
							w.Eval(nontrivial(c2))
						}
					}
				}
			})
		}
	})

	// Phase B3c: two identifiers in the same position that share a stem of 0..40 characters (letters, digits, hyphens, mixed) and
	// differ in a short tail: what the stem is made of decides whether the identifier is numeric, whatever the tail looks like.
	r.Phase("B3c: identifier pairs with a common stem of 0..40 characters (letters / digits / hyphens / mixed) x 13 x 13 tails, in first and later positions", func() {
		stems := func(k int) []string {
			mixed := "nightly-2022-01-01-build-0000000-abcdef-0123456789"
			return []string{strings.Repeat("a", k), strings.Repeat("1", k), strings.Repeat("-", k), mixed[:k], ("20220101000000000000000000000000000000000000")[:k], ("0a1b2c3d4e5f6g7h8i9j0k1l2m3n4o5p6q7r8s9t0u1v2w3x")[:k]}
		}
		tails := []string{"", "0", "1", "2", "9", "10", "01", "a", "1x", "x1", "-", "a0", "00"}
		r.Parallel(41, 1, func(w *vkit.W, lo, hi int64) {
			for k := lo; k < hi; k++ {
				for _, stem := range stems(int(k)) {
					for _, ta := range tails {
						for _, tb := range tails {
							ia, ib := stem+ta, stem+tb
							if !ref.ValidPreRelease(ia) || !ref.ValidPreRelease(ib) {
								continue
							}
							for _, lead := range []string{"", "rc.1.", "x.y.z.0."} {
								c := Case{A: V{Major: 1, Pre: lead + ia, Build: "b"}, B: V{Major: 1, Pre: lead + ib}, Helpers: true}
								judge(c, w)
								w.EvalRandom(vkit.Hash64("B3c", c.A.Pre, c.B.Pre), nontrivial(c))
							}
						}
					}
				}
			}
		})
	})

	// Phase B3e: numeric identifiers that are neighbours at the places where a fixed-width or floating-point representation
	// stops being exact (2^k and 10^k, k up to 70 / 22): every identifier against its 6 nearest neighbours in the sorted list.
	r.Phase("B3e: numeric pre-release identifiers at 2^k-1, 2^k, 2^k+1 (k = 0..70) and 10^k-1, 10^k, 10^k+1 (k = 0..22): each against its nearest neighbours, in first and later positions", func() {
		seen := map[string]bool{}
		var nums []*big.Int
		add := func(x *big.Int) {
			if x.Sign() >= 0 && !seen[x.String()] {
				seen[x.String()] = true
				nums = append(nums, new(big.Int).Set(x))
			}
		}
		for k := 0; k <= 70; k++ {
			x := new(big.Int).Lsh(big.NewInt(1), uint(k))
			for d := int64(-2); d <= 2; d++ {
				add(new(big.Int).Add(x, big.NewInt(d)))
			}
		}
		for k := 0; k <= 22; k++ {
			x := new(big.Int).Exp(big.NewInt(10), big.NewInt(int64(k)), nil)
			for d := int64(-2); d <= 2; d++ {
				add(new(big.Int).Add(x, big.NewInt(d)))
			}
		}
		sort.Slice(nums, func(i, j int) bool { return nums[i].Cmp(nums[j]) < 0 })
		r.Parallel(int64(len(nums)), 8, func(w *vkit.W, lo, hi int64) {
			for i := lo; i < hi; i++ {
				for j := i - 3; j <= i+3; j++ {
					if j < 0 || j >= int64(len(nums)) {
						continue
					}
					for _, lead := range []string{"", "rc.", "0.x."} {
						for _, trail := range []string{"", ".a"} {
							c := Case{A: V{Major: 1, Pre: lead + nums[i].String() + trail, Build: "b"}, B: V{Major: 1, Pre: lead + nums[j].String() + trail}, Helpers: true}
							judge(c, w)
							w.EvalRandom(vkit.Hash64("B3e", c.A.Pre, c.B.Pre), nontrivial(c))
						}
					}
				}
			}
		})
	})

	// Phase B3d: the labels people actually use, in lower, upper and title case (ASCII order puts every upper-case letter below
	// every lower-case one), alone and followed by a number: all ordered pairs through every entry point.
	r.Phase("B3d: all ordered pairs of 20 customary pre-release labels x {lower, UPPER, Title} case, alone and with a numeric identifier behind", func() {
		var labels []string
		for _, l := range []string{"alpha", "beta", "rc", "dev", "pre", "next", "canary", "nightly", "snapshot", "final", "ga", "release", "stable", "latest", "preview", "milestone", "test", "exp", "a", "z"} {
			labels = append(labels, l, strings.ToUpper(l), strings.ToUpper(l[:1])+l[1:])
		}
		n := int64(len(labels))
		r.Parallel(n*n, n, func(w *vkit.W, lo, hi int64) {
			for k := lo; k < hi; k++ {
				a, b := labels[k/n], labels[k%n]
				for _, sfx := range [][2]string{{"", ""}, {".1", ".1"}, {".2", ".10"}, {"", ".0"}} {
					c := Case{A: V{Major: 1, Pre: a + sfx[0], Build: "b"}, B: V{Major: 1, Pre: b + sfx[1]}, Helpers: true}
					judge(c, w)
					w.EvalRandom(vkit.Hash64("B3d", c.A.Pre, c.B.Pre), nontrivial(c))
				}
			}
		})
	})

	// Phase B4: very many distinct versions through the string helpers in one process, in ascending order.
	nMany := int64(r.Pick(20000000, 60000000))
	r.Phase(fmt.Sprintf("B4: %d distinct ascending versions compared with their successor through Compare / CompareVersion / LatestTag", nMany), func() {
		text := func(i int64, buf []byte) []byte {
			buf = strconv.AppendUint(buf[:0], uint64(i/(307*211)), 10)
			buf = append(buf, '.')
			buf = strconv.AppendUint(buf, uint64(i/211%307), 10)
			buf = append(buf, '.')
			buf = strconv.AppendUint(buf, uint64(i%211), 10)
			return buf
		}
		r.Parallel(nMany, 8192, func(w *vkit.W, lo, hi int64) {
			var ba, bb []byte
			for i := lo; i < hi; i++ {
				ba, bb = text(i, ba), text(i+1, bb)
				sa, sb := string(ba), string(bb)
				// latest-of-two must be the successor itself, whichever helper and argument order is used: if either text were
				// taken for another version, the returned value would not format back to the successor's text
				var l sem.Ver
				var err error
				switch i % 3 {
				case 0:
					l, err = sem.Latest(sa, sb)
				case 1:
					l, err = sem.LatestVersion(sb, sa)
				default:
					l, err = sem.LatestTag("v"+sa, "v"+sb)
				}
				got, cerr := sem.Compare(sa, "v"+sb)
				if err != nil || cerr != nil || l.String() != sb || got != -1 {
					w.Fail(Case{A: V{Major: uint64(i / (307 * 211)), Minor: uint64(i / 211 % 307), Patch: uint64(i % 211)}, B: V{Major: uint64((i + 1) / (307 * 211)), Minor: uint64((i + 1) / 211 % 307), Patch: uint64((i + 1) % 211)}, Helpers: true},
						"helper-compare", fmt.Sprintf("%q against its successor %q: latest = %q, %v; Compare = %d, %v (after very many other versions were parsed in this process)", sa, sb, l.String(), err, got, cerr))
				}
				w.Eval(false)
			}
		})
	})

	// Phase C: rapid - long identifier lists with shared prefixes and 1-25 digit numeric identifiers.
	r.ColdPhase(coldFirst)

	r.Phase("C: rapid long identifier lists", func() {
		r.Rapid(t, "rapid-pairs", 0, r.Pick(50000, 2000000), func(rt *rapid.T, w *vkit.W) vkit.RapidCase {
			ident := rapid.Custom(func(rt *rapid.T) string {
				switch rapid.IntRange(0, 3).Draw(rt, "kind") {
				case 0:
					d := rapid.StringMatching(`[1-9][0-9]{0,24}`).Draw(rt, "num")
					return d
				case 1:
					return "0"
				case 2:
					return rapid.StringMatching(`[0-9]{0,3}[a-zA-Z-][0-9a-zA-Z-]{0,6}`).Draw(rt, "alnum")
				default:
					return rapid.SampledFrom([]string{"alpha", "beta", "rc", "-", "a", "B", "18446744073709551615", "18446744073709551616", "99999999999999999999", "9", "10"}).Draw(rt, "common")
				}
			})
			shared := rapid.SliceOfN(ident, 0, 6).Draw(rt, "shared")
			ta := rapid.SliceOfN(ident, 0, 4).Draw(rt, "tailA")
			tb := rapid.SliceOfN(ident, 0, 4).Draw(rt, "tailB")
			pa := strings.Join(append(append([]string{}, shared...), ta...), ".")
			pb := strings.Join(append(append([]string{}, shared...), tb...), ".")
			core := rapid.SampledFrom(cores).Draw(rt, "core")
			coreB := core
			if rapid.IntRange(0, 5).Draw(rt, "diffCore") == 0 {
				coreB = rapid.SampledFrom(cores).Draw(rt, "coreB")
			}
			c := Case{
				A:       V{Major: core[0], Minor: core[1], Patch: core[2], Pre: pa, Build: rapid.SampledFrom(builds).Draw(rt, "ba")},
				B:       V{Major: coreB[0], Minor: coreB[1], Patch: coreB[2], Pre: pb, Build: rapid.SampledFrom(builds).Draw(rt, "bb")},
				Helpers: len(pa)+len(pb) < 900,
			}
			excl := judge(c, w)
			if excl {
				w.Class("excluded_pinned_departure")
			}
			return vkit.RapidCase{Case: c, Hash: vkit.Hash64(c.A.text(), c.B.text()), NT: !excl && nontrivial(c)}
		})
	})
}
