package c06

import (
	"testing"

	"go.lstv.dev/util/sem"

	"verifharness/vkit"
)

var coldFirst = map[string]func(){
	"ver compare pre":      func() { _ = sem.Ver{PreRelease: "a.1"}.Compare(sem.Ver{PreRelease: "a.2"}) },
	"ver compare core":     func() { _ = sem.Ver{Major: 1}.Compare(sem.Ver{Major: 2}) },
	"compare strings":      func() { _, _ = sem.Compare("v1.2.3-rc.1", "1.2.3") },
	"compare version":      func() { _, _ = sem.CompareVersion[string, string]("1.2.3-1", "1.2.3-a") },
	"compare tag":          func() { _, _ = sem.CompareTag("v1.0.0+b", "v1.0.0") },
	"compare invalid":      func() { _, _ = sem.Compare("x", "1.0.0") },
	"latest":               func() { _, _ = sem.Latest("1.0.0-alpha", "1.0.0-alpha.1") },
	"ver latest":           func() { _ = sem.Ver{Major: 1, PreRelease: "rc"}.Latest(sem.Ver{Major: 1}) },
	"default compare pre":  func() { _ = sem.DefaultComparePreRelease("10", "9") },
	"default compare long": func() { _ = sem.DefaultComparePreRelease("18446744073709551616", "18446744073709551615") },
	"valid":                func() { _ = sem.Ver{PreRelease: "01"}.Valid() },
}

func TestColdStart(t *testing.T) {
	vkit.ColdMain(t, "C06", coldFirst, func(w *vkit.W) {
		// the operands of the first calls come first
		for _, p := range [][2]V{{{Pre: "a.1"}, {Pre: "a.2"}}, {{Major: 1}, {Major: 2}}, {{Major: 1, Minor: 2, Patch: 3, Pre: "rc.1"}, {Major: 1, Minor: 2, Patch: 3}}, {{Major: 1, Minor: 2, Patch: 3, Pre: "1"}, {Major: 1, Minor: 2, Patch: 3, Pre: "a"}},
			{{Major: 1, Build: "b"}, {Major: 1}}, {{Major: 1, Pre: "alpha"}, {Major: 1, Pre: "alpha.1"}}, {{Major: 1, Pre: "rc"}, {Major: 1}}, {{Pre: "10"}, {Pre: "9"}}, {{Pre: "18446744073709551616"}, {Pre: "18446744073709551615"}}} {
			judge(Case{A: p[0], B: p[1], Helpers: true}, w)
			judge(Case{A: p[1], B: p[0], Helpers: true}, w)
		}
		pres := []string{"", "0", "1", "10", "9", "a", "a.1", "a.10", "a.9", "alpha", "alpha.1", "alpha.beta", "beta", "beta.2", "beta.11", "rc.1", "-", "1.a", "a.a", "18446744073709551616", "18446744073709551615", "a-1", "A", "Z.z"}
		for _, pa := range pres {
			for _, pb := range pres {
				judge(Case{A: V{Major: 1, Pre: pa, Build: "b1"}, B: V{Major: 1, Pre: pb}, Helpers: true}, w)
			}
		}
		judge(Case{A: V{Major: 1<<64 - 1}, B: V{Major: 0, Minor: 1<<64 - 1}, Helpers: true}, w)
		judge(Case{A: V{Minor: 2}, B: V{Minor: 10}, Helpers: true}, w)
	})
}
