package c05

import (
	"testing"

	"verifharness/vkit"
)

// FuzzUUIDText: differential fuzzing of the UUID parser against the recogniser (thorough tier), default and disabled limit.
func FuzzUUIDText(f *testing.F) {
	for _, s := range []string{"00000000-0000-0000-0000-000000000000", "urn:uuid:123e4567-e89b-12d3-a456-426614174000", "123E4567-E89B-12D3-A456-426614174000", "URN:uuid:123e4567-e89b-12d3-a456-426614174000", "123e4567e89b-12d3-a456-4266141740000", "urn:uuid:123e4567-e89b-12d3-a456-426614174000 "} {
		for r := 0; r < 4; r++ {
			f.Add([]byte(s), r)
		}
	}
	f.Fuzz(func(t *testing.T, in []byte, rule int) {
		if len(in) > 256 {
			return
		}
		for _, lim := range []int{0, -1} {
			restore := setLimit(lim)
			w := vkit.FuzzW("C05")
			c := Case{Kind: "text", Text: vkit.B(in), Rule: rule, Limit: lim}
			judge(c, w)
			restore()
			vkit.FuzzReport(t, "C05", w, c)
		}
	})
}
