package c05

import (
	"strconv"
	"strings"
	"testing"

	"go.lstv.dev/util/uu"

	"verifharness/vkit"
)

var coldScenarios = []string{"parse rule=0 lower", "parse rule=1 lower", "parse rule=2 lower", "parse rule=3 lower", "parse rule=2 upper", "parse rule=2 urn bytes", "parse rule=0 invalid", "unmarshaltext upper", "format first", "parse rule=2 garbage", "first parses under MaxInputLength 1", "first parses under MaxInputLength 36", "first parses under MaxInputLength 44", "first parses under MaxInputLength 0"}

const coldText = "123e4567-e89b-12d3-a456-426614174000"

func coldFirst(scenario string) {
	if strings.HasPrefix(scenario, "first parses under MaxInputLength ") {
		// the limit is a setting: the process starts parsing under another one, which is then put back
		lim, _ := strconv.Atoi(strings.TrimPrefix(scenario, "first parses under MaxInputLength "))
		old := uu.MaxInputLength
		uu.MaxInputLength = lim
		_, _ = uu.DefaultParser(coldText, 0)
		_, _ = uu.DefaultParser([]byte("urn:uuid:"+coldText), 0)
		var id uu.ID
		_ = id.UnmarshalText([]byte(strings.ToUpper(coldText)))
		uu.MaxInputLength = old
		return
	}
	switch scenario {
	case "parse rule=0 lower":
		_, _ = uu.DefaultParser(coldText, 0)
	case "parse rule=1 lower":
		_, _ = uu.DefaultParser(coldText, uu.RuleDisableURN)
	case "parse rule=2 lower":
		_, _ = uu.DefaultParser(coldText, uu.RuleDisableUpperCaseDigits)
	case "parse rule=3 lower":
		_, _ = uu.DefaultParser(coldText, uu.RuleDisableURN|uu.RuleDisableUpperCaseDigits)
	case "parse rule=2 upper":
		_, _ = uu.DefaultParser(strings.ToUpper(coldText), uu.RuleDisableUpperCaseDigits)
	case "parse rule=2 urn bytes":
		_, _ = uu.DefaultParser([]byte("urn:uuid:"+coldText), uu.RuleDisableUpperCaseDigits)
	case "parse rule=0 invalid":
		_, _ = uu.DefaultParser("zzzzzzzz-zzzz-zzzz-zzzz-zzzzzzzzzzzz", 0)
	case "unmarshaltext upper":
		var id uu.ID
		_ = id.UnmarshalText([]byte(strings.ToUpper(coldText)))
	case "format first":
		_ = uu.ID{Higher: 1, Lower: 2}.String()
	case "parse rule=2 garbage":
		_, _ = uu.DefaultParser("\x00", uu.RuleDisableUpperCaseDigits)
	default:
		panic("unknown cold scenario " + scenario)
	}
}

func TestColdStart(t *testing.T) {
	scenario := vkit.ColdScenario()
	if scenario == "" {
		t.Skip("not a cold-start child")
	}
	r := vkit.Start("C05")
	w := r.NewW()
	w.Guard(map[string]string{"first_call": scenario}, func() { coldFirst(scenario) })
	texts := []string{coldText, strings.ToUpper(coldText), "urn:uuid:" + coldText, "zzzzzzzz-zzzz-zzzz-zzzz-zzzzzzzzzzzz", "123e4567-e89b-12d3-a456-42661417400g", "00000000-0000-0000-0000-000000000000", "ffffffff-ffff-ffff-ffff-ffffffffffff", "FFFFFFFF-FFFF-FFFF-FFFF-FFFFFFFFFFFF", ""}
	for _, tx := range texts {
		for _, rule := range rules {
			judge(Case{Kind: "text", Text: vkit.B(tx), Rule: rule}, w)
		}
	}
	judge(Case{Kind: "id", Hi: 0x0123456789abcdef, Lo: 0xfedcba9876543210}, w)
	judge(Case{Kind: "id"}, w)
	vkit.ColdReport(t, w)
}
