// C05: UUID text form is exact, strict and round-trips; version/variant accessors report the RFC 4122 bits.
package c05

import (
	"encoding/json"
	"errors"
	"fmt"
	"math"
	"strconv"
	"strings"
	"testing"
	"unicode/utf8"

	"go.lstv.dev/util/uu"
	"pgregory.net/rapid"

	"verifharness/ref"

	"verifharness/vkit"
)

// Case kinds: "id" (Hi, Lo: formatting through every output path, parsing back in lower/upper/URN forms, accessors)
// and "text" (Text under Rule through DefaultParser[string], DefaultParser[[]byte] and (rule 0) UnmarshalText).
type Case struct {
	Kind string `json:"kind"`
	Hi   uint64 `json:"hi,omitempty"`
	Lo   uint64 `json:"lo,omitempty"`
	Text vkit.B `json:"text,omitempty"`
	Rule int    `json:"rule,omitempty"`
	// Limit is the MaxInputLength setting of text cases: 0 here means "package default (45)", -1 means disabled, n > 0 means n.
	Limit int `json:"max_input_length,omitempty"`
	// Hooks: before the case is judged, custom package-level Formatter and Parser functions are installed, used and removed.
	Hooks bool `json:"after_custom_hooks,omitempty"`
	// ViaParser: the rule is applied the only way UnmarshalText and encoding/json can be given one - through a package-level
	// Parser that adds it - and the text goes through those two entry points (serial phases only).
	ViaParser bool `json:"rule_through_package_parser,omitempty"`
}

// pokeWithCustomHooks: the package-level Formatter and Parser are settings; what was produced under one setting must not be
// handed out under the next.
func pokeWithCustomHooks(id uu.ID, text string) {
	oldF, oldP := uu.Formatter, uu.Parser
	defer func() { uu.Formatter, uu.Parser = oldF, oldP }()
	uu.Formatter = func(buf []byte, id uu.ID, f uu.Format) ([]byte, error) {
		return append(buf, fmt.Sprintf("custom<%x>", id.Lower)...), nil
	}
	uu.Parser = func(input []byte, r uu.Rule) (uu.ID, error) { return uu.ID{Higher: 6, Lower: 66}, nil }
	_, _ = id.String(), id.URN()
	_ = fmt.Sprintf("%s %v %u", id, id, id)
	_, _ = id.MarshalText()
	_, _ = json.Marshal([]uu.ID{id})
	var u uu.ID
	_ = u.UnmarshalText([]byte(text))
	_ = json.Unmarshal([]byte(`"`+text+`"`), &u)
	// second stage: a Formatter that fails (after writing something), used once, before the defaults come back
	uu.Formatter = func(buf []byte, id uu.ID, f uu.Format) ([]byte, error) {
		return append(buf, "part"...), errors.New("formatter refused")
	}
	_, _ = id.String(), id.URN()
	_ = fmt.Sprintf("%s %u", id, id)
	_, _ = id.MarshalText()
}

func setLimit(l int) func() {
	old := uu.MaxInputLength
	switch {
	case l < 0:
		uu.MaxInputLength = 0
	case l > 0:
		uu.MaxInputLength = l
	}
	return func() { uu.MaxInputLength = old }
}

const hexLower = "0123456789abcdef"

// format is the independent formatter: 32 nibbles big-endian, hyphens after nibbles 8, 12, 16 and 20.
func format(hi, lo uint64) string {
	b := make([]byte, 0, 36)
	for i := 0; i < 32; i++ {
		var nib uint64
		if i < 16 {
			nib = hi >> uint(60-4*i) & 0xf
		} else {
			nib = lo >> uint(60-4*(i-16)) & 0xf
		}
		if i == 8 || i == 12 || i == 16 || i == 20 {
			b = append(b, '-')
		}
		b = append(b, hexLower[nib])
	}
	return string(b)
}

type verdict struct {
	ok          bool
	hi, lo      uint64
	either      bool // prefix written in another letter case: the statement does not fix it
	urnDisabled bool // a URN-length input under RuleDisableURN
	validURN    bool // ... that would otherwise be a valid URN text
}

func hexVal(c byte, upperOK bool) (uint64, bool) {
	switch {
	case c >= '0' && c <= '9':
		return uint64(c - '0'), true
	case c >= 'a' && c <= 'f':
		return uint64(c-'a') + 10, true
	case upperOK && c >= 'A' && c <= 'F':
		return uint64(c-'A') + 10, true
	}
	return 0, false
}

func recogniseBody(s string, upperOK bool) (hi, lo uint64, ok bool) {
	if len(s) != 36 {
		return 0, 0, false
	}
	n := 0
	for i := 0; i < 36; i++ {
		if i == 8 || i == 13 || i == 18 || i == 23 {
			if s[i] != '-' {
				return 0, 0, false
			}
			continue
		}
		v, good := hexVal(s[i], upperOK)
		if !good {
			return 0, 0, false
		}
		if n < 16 {
			hi = hi<<4 | v
		} else {
			lo = lo<<4 | v
		}
		n++
	}
	return hi, lo, true
}

func recognise(s string, rule int) verdict {
	upperOK := rule&int(uu.RuleDisableUpperCaseDigits) == 0
	urnOff := rule&int(uu.RuleDisableURN) != 0
	var v verdict
	switch len(s) {
	case 36:
		v.hi, v.lo, v.ok = recogniseBody(s, upperOK)
	case 45:
		prefix, body := s[:9], s[9:]
		hi, lo, bodyOK := recogniseBody(body, upperOK)
		exact := prefix == "urn:uuid:"
		folded := strings.EqualFold(prefix, "urn:uuid:") && isASCII(prefix)
		if urnOff {
			v.urnDisabled = true
			v.validURN = exact && bodyOK
			return v
		}
		if bodyOK && exact {
			v.ok, v.hi, v.lo = true, hi, lo
		} else if bodyOK && folded {
			v.either, v.hi, v.lo = true, hi, lo
		}
	}
	return v
}

func isASCII(s string) bool {
	for i := 0; i < len(s); i++ {
		if s[i] >= 0x80 {
			return false
		}
	}
	return true
}

type (
	namedS string
	namedB []byte
)

func typed(err error) bool {
	var a *uu.ParseError[string]
	var b *uu.ParseError[[]byte]
	var c *uu.ParseError[namedS]
	var d *uu.ParseError[namedB]
	return errors.As(err, &a) || errors.As(err, &b) || errors.As(err, &c) || errors.As(err, &d)
}

func judgeText(c Case, w *vkit.W) {
	text := string(c.Text)
	v := recognise(text, c.Rule)
	upperOK := c.Rule&int(uu.RuleDisableUpperCaseDigits) == 0
	tooLong := uu.MaxInputLength != 0 && len(text) > uu.MaxInputLength
	if tooLong {
		v = verdict{} // over the configured limit: rejected for its length, whatever it contains
	}
	check := func(path string, got uu.ID, err error) {
		if err == nil {
			switch {
			case !v.ok && !v.either:
				w.Fail(c, "invalid-text-accepted", fmt.Sprintf("%s(%q, rule=%d) = %v; the text is not a UUID in the accepted forms", path, text, c.Rule, got))
			case got.Higher != v.hi || got.Lower != v.lo:
				w.Fail(c, "wrong-bits", fmt.Sprintf("%s(%q) = {%#x, %#x}, the digits say {%#x, %#x}", path, text, got.Higher, got.Lower, v.hi, v.lo))
			default:
				// the ID that came out of the parser a moment ago is written back: the text form is exact whatever the input looked like
				want := format(got.Higher, got.Lower)
				sb, _ := uu.DefaultFormatter(nil, got, 0)
				ub, _ := uu.DefaultFormatter(nil, got, uu.FormatURN)
				if s, u := string(sb), string(ub); s != want || u != "urn:uuid:"+want {
					w.Fail(c, "text-after-parse-not-canonical", fmt.Sprintf("%s(%q) accepted; the ID then renders as %q and %q, want %q", path, text, s, u, want))
				}
			}
			return
		}
		if v.ok {
			w.Fail(c, "valid-text-rejected", fmt.Sprintf("%s(%q, rule=%d): %v", path, text, c.Rule, err))
			return
		}
		if got != (uu.ID{}) {
			w.Fail(c, "nonzero-result-with-error", fmt.Sprintf("%s(%q): error %v with result %v", path, text, err, got))
		}
		if !typed(err) {
			w.Fail(c, "error-not-typed", fmt.Sprintf("%s(%q): %T %v is not a *uu.ParseError", path, text, err, err))
		}
		if v.validURN && !errors.Is(err, uu.ErrURNFormatDisabled) {
			w.Fail(c, "urn-disabled-error-missing", fmt.Sprintf("%s(%q, RuleDisableURN): a valid URN form must be rejected with ErrURNFormatDisabled, got %v", path, text, err))
		}
		if errors.Is(err, uu.ErrURNFormatDisabled) && !v.urnDisabled {
			w.Fail(c, "urn-disabled-error-spurious", fmt.Sprintf("%s(%q, rule=%d): ErrURNFormatDisabled on an input that is not URN-sized or without the rule", path, text, c.Rule))
		}
		if errors.Is(err, uu.ErrInputTooLong) != tooLong {
			w.Fail(c, "input-too-long-mismatch", fmt.Sprintf("%s(%q): len %d limit %d, ErrInputTooLong=%v", path, text, len(text), uu.MaxInputLength, !tooLong))
		}
		var de uu.InvalidDigitError
		if errors.As(err, &de) {
			found := false
			for i := 0; i < len(text); i++ {
				if _, isHex := hexVal(text[i], upperOK); text[i] == byte(de) && !isHex {
					found = true
				}
			}
			if !found {
				w.Fail(c, "invalid-digit-error-wrong-byte", fmt.Sprintf("%s(%q, rule=%d): InvalidDigitError(%#x) is not a non-digit byte of the input", path, text, c.Rule, byte(de)))
			}
		}
	}
	if c.ViaParser {
		oldP := uu.Parser
		defer func() { uu.Parser = oldP }()
		rule := uu.Rule(c.Rule)
		uu.Parser = func(input []byte, r uu.Rule) (uu.ID, error) { return uu.DefaultParser(input, r|rule) }
		keep := uu.ID{Higher: 3, Lower: 4}
		u := keep
		err := u.UnmarshalText(w.Scratch(text))
		if err != nil {
			if u != keep {
				w.Fail(c, "receiver-changed-on-error", fmt.Sprintf("UnmarshalText(%q) under a Parser adding rule %d: %v, receiver %v", text, c.Rule, err, u))
			}
			u = uu.ID{}
		}
		check("UnmarshalText (package-level Parser adds the rule)", u, err)
		if q, qerr := json.Marshal(text); qerr == nil && utf8.ValidString(text) {
			var ju uu.ID
			jerr := json.Unmarshal(q, &ju)
			if jerr != nil {
				ju = uu.ID{}
				var pe *uu.ParseError[[]byte]
				if !errors.As(jerr, &pe) {
					jerr = nil // encoding/json's own complaint: nothing to judge
				}
			}
			if jerr != nil || ju != (uu.ID{}) || v.ok {
				check("json.Unmarshal (package-level Parser adds the rule)", ju, jerr)
			}
		}
		return
	}
	var got uu.ID
	var err error
	if w.Flip() { // the order of the two instantiations alternates
		got, err = uu.DefaultParser(text, uu.Rule(c.Rule))
		check("DefaultParser[string]", got, err)
		got, err = uu.DefaultParser(w.Scratch(text), uu.Rule(c.Rule)) // a reused caller buffer
		check("DefaultParser[[]byte]", got, err)
	} else {
		got, err = uu.DefaultParser(w.Scratch(text), uu.Rule(c.Rule))
		check("DefaultParser[[]byte]", got, err)
		got, err = uu.DefaultParser(text, uu.Rule(c.Rule))
		check("DefaultParser[string]", got, err)
	}
	if v.ok || len(text) == 36 || len(text) == 45 {
		got, err = uu.DefaultParser(namedS(text), uu.Rule(c.Rule))
		check("DefaultParser[named string]", got, err)
		got, err = uu.DefaultParser(namedB(w.Scratch(text)), uu.Rule(c.Rule))
		check("DefaultParser[named []byte]", got, err)
	}
	if c.Rule == 0 {
		keep := uu.ID{Higher: 1, Lower: 2}
		u := keep
		err := u.UnmarshalText(w.Scratch(text))
		if err != nil {
			if u != keep {
				w.Fail(c, "receiver-changed-on-error", fmt.Sprintf("UnmarshalText(%q): %v, receiver %v", text, err, u))
			}
			u = uu.ID{}
		}
		check("UnmarshalText", u, err)
	}
}

func judgeID(c Case, w *vkit.W) {
	id := uu.ID{Higher: c.Hi, Lower: c.Lo}
	plain := format(c.Hi, c.Lo)
	urn := "urn:uuid:" + plain
	out := func(path, got, want string) {
		if got != want {
			w.Fail(c, "output-not-canonical", fmt.Sprintf("%s of {%#016x, %#016x} = %q, want %q", path, c.Hi, c.Lo, got, want))
		}
	}
	b, err := uu.DefaultFormatter(nil, id, 0)
	if err != nil {
		w.Fail(c, "formatter-error", err.Error())
	}
	out("DefaultFormatter(0)", string(b), plain)
	b, _ = uu.DefaultFormatter(nil, id, uu.FormatURN)
	out("DefaultFormatter(FormatURN)", string(b), urn)
	out("String", id.String(), plain)
	out("URN", id.URN(), urn)
	for _, spare := range []int{0, 1, 8, 9, 35, 36, 37, 40, 44, 45, 46, 64} { // caller buffers of every interesting capacity
		bp, err := uu.DefaultFormatter(make([]byte, 0, spare), id, 0)
		if err != nil {
			w.Fail(c, "formatter-error", err.Error())
		}
		out(fmt.Sprintf("DefaultFormatter(empty buffer with capacity %d, plain)", spare), string(bp), plain)
		bu, err := uu.DefaultFormatter(append(make([]byte, 0, spare+2), "x="...), id, uu.FormatURN)
		if err != nil {
			w.Fail(c, "formatter-error", err.Error())
		}
		out(fmt.Sprintf("DefaultFormatter(\"x=\" with spare capacity %d, URN)", spare), string(bu), "x="+urn)
	}
	// caller buffers that already hold what looks like part of the text: the prefix, another UUID, a hyphen
	for _, pre := range []string{"urn:uuid:", "see urn:uuid:", "URN:UUID:", "urn:", plain, urn, plain[:8] + "-", "-"} {
		for _, f := range []uu.Format{0, uu.FormatURN} {
			want := pre + plain
			if f == uu.FormatURN {
				want = pre + urn
			}
			got, err := uu.DefaultFormatter([]byte(pre), id, f)
			if err != nil {
				w.Fail(c, "formatter-error", err.Error())
			}
			out(fmt.Sprintf("DefaultFormatter(buffer holding %q, format %d)", pre, int(f)), string(got), want)
		}
	}
	mt, err := id.MarshalText()
	if err != nil {
		w.Fail(c, "formatter-error", err.Error())
	}
	out("MarshalText", string(mt), plain)
	for i := range mt { // the caller owns the returned bytes
		mt[i] = '#'
	}
	for i := range b {
		b[i] = '#'
	}
	if mt2, err := id.MarshalText(); err != nil || string(mt2) != plain {
		w.Fail(c, "result-storage-shared", fmt.Sprintf("MarshalText of {%#x,%#x} after the caller overwrote an earlier result = %q, %v", c.Hi, c.Lo, mt2, err))
	}
	out("String (after the caller overwrote earlier results)", id.String(), plain)
	out("Sprintf(%s)", fmt.Sprintf("%s", id), plain)
	out("Sprintf(%u)", fmt.Sprintf("%u", id), urn)
	out("Sprintf(%v)", fmt.Sprintf("%v", id), plain)
	jb, err := json.Marshal(id)
	if err != nil {
		w.Fail(c, "formatter-error", "json.Marshal: "+err.Error())
	}
	out("json.Marshal", string(jb), `"`+plain+`"`)

	upper := strings.ToUpper(plain)
	for _, in := range []struct {
		text string
		rule uu.Rule
	}{{plain, 0}, {upper, 0}, {urn, 0}, {"urn:uuid:" + upper, 0}, {plain, uu.RuleDisableURN | uu.RuleDisableUpperCaseDigits}, {urn, uu.RuleDisableUpperCaseDigits}, {upper, uu.RuleDisableURN}} {
		got, err := uu.DefaultParser(in.text, in.rule)
		if err != nil || got != id {
			w.Fail(c, "round-trip-differs", fmt.Sprintf("DefaultParser[string](%q, rule=%d) = %v, %v; want {%#x, %#x}", in.text, in.rule, got, err, c.Hi, c.Lo))
		}
		got, err = uu.DefaultParser([]byte(in.text), in.rule)
		if err != nil || got != id {
			w.Fail(c, "round-trip-differs", fmt.Sprintf("DefaultParser[[]byte](%q, rule=%d) = %v, %v", in.text, in.rule, got, err))
		}
	}
	var u uu.ID
	if err := u.UnmarshalText([]byte(urn)); err != nil || u != id {
		w.Fail(c, "round-trip-differs", fmt.Sprintf("UnmarshalText(%q) -> %v, %v", urn, u, err))
	}
	var ju uu.ID
	if err := json.Unmarshal(jb, &ju); err != nil || ju != id {
		w.Fail(c, "round-trip-differs", fmt.Sprintf("json.Unmarshal(%s) -> %v, %v", jb, ju, err))
	}
	// accessors: RFC 4122 places the version in the high nibble of octet 6 and the variant in the top bits of octet 8
	if got, want := id.Version(), int(c.Hi>>12&0xf); got != want {
		w.Fail(c, "version-accessor", fmt.Sprintf("{%#016x,%#016x}.Version() = %d, bits 12-15 of the high half say %d", c.Hi, c.Lo, got, want))
	}
	wantVar := 0
	for k := 63; k >= 61 && c.Lo>>uint(k)&1 == 1; k-- {
		wantVar++
	}
	if got := id.Variant(); got != wantVar {
		w.Fail(c, "variant-accessor", fmt.Sprintf("{%#016x,%#016x}.Variant() = %d, the leading one bits of octet 8 say %d", c.Hi, c.Lo, got, wantVar))
	}
}

func judge(c Case, w *vkit.W) {
	defer func() {
		if p := recover(); p != nil {
			w.Fail(c, "panic", vkit.PanicDetail(p))
		}
	}()
	if c.Hooks {
		pokeWithCustomHooks(uu.ID{Higher: c.Hi, Lower: c.Lo}, string(c.Text))
	}
	switch c.Kind {
	case "id":
		judgeID(c, w)
	case "text":
		judgeText(c, w)
	default:
		w.Fail(c, "bad-case", "unknown kind")
	}
}

var rules = []int{0, int(uu.RuleDisableURN), int(uu.RuleDisableUpperCaseDigits), int(uu.RuleDisableURN | uu.RuleDisableUpperCaseDigits)}

func TestCheck(t *testing.T) {
	r := vkit.Start("C05")
	defer r.Finish(t)
	if r.ReplayCold() {
		return
	}
	if r.Replay != "" {
		var c Case
		if err := r.LoadReplay(&c); err != nil {
			t.Fatalf("replay: %v", err)
		}
		defer setLimit(c.Limit)()
		r.Serial(func(w *vkit.W) { judge(c, w); w.Eval(true) })
		return
	}
	r.Rule("ID cases: every output path (DefaultFormatter plain/URN, String, URN, MarshalText, %s %u %v, json.Marshal) against an independent nibble-by-nibble formatter; the text in lower, upper and URN forms parsed back under the rules that allow it; Version/Variant against the RFC 4122 bit positions. " +
		"Text cases: DefaultParser[string], DefaultParser[[]byte], UnmarshalText against an independent recogniser (length 36, or 45 with prefix urn:uuid:; hyphens at 8/13/18/23; hexadecimal digits, upper case only when the rule allows; URN form only when allowed). Prefixes that differ from urn:uuid: only in letter case are left open. " +
		"Non-trivial: IDs other than nil and the unit tests' constant; every mutation text. Distinct by construction (sweeps) or by hash.")
	r.Regress(func(raw json.RawMessage, w *vkit.W) error {
		var c Case
		if err := json.Unmarshal(raw, &c); err != nil {
			return err
		}
		defer setLimit(c.Limit)()
		judge(c, w)
		w.Eval(true)
		return nil
	})
	g0 := r.Rng("backgrounds", 0)
	backgrounds := [][2]uint64{{0, 0}, {^uint64(0), ^uint64(0)}, {g0.U64(), g0.U64()}, {g0.U64(), g0.U64()}, {g0.U64(), g0.U64()}, {0x0123456789abcdef, 0xfedcba9876543210}}

	r.Phase("A: single-bit flips (128 positions) and single-nibble sweeps (32 positions x 16 values x lower/upper) over 6 backgrounds", func() {
		r.Serial(func(w *vkit.W) {
			for _, bg := range backgrounds {
				for bit := 0; bit < 128; bit++ {
					hi, lo := bg[0], bg[1]
					if bit < 64 {
						lo ^= 1 << uint(bit)
					} else {
						hi ^= 1 << uint(bit-64)
					}
					judge(Case{Kind: "id", Hi: hi, Lo: lo}, w)
					w.Eval(true)
				}
				base := format(bg[0], bg[1])
				pos := 0
				for i := 0; i < 36; i++ {
					if base[i] == '-' {
						continue
					}
					for v := 0; v < 16; v++ {
						for _, up := range []bool{false, true} {
							ch := hexLower[v]
							if up {
								ch = strings.ToUpper(hexLower)[v]
							}
							text := base[:i] + string(ch) + base[i+1:]
							for _, rule := range rules {
								judge(Case{Kind: "text", Text: vkit.B(text), Rule: rule}, w)
								w.Eval(true)
								judge(Case{Kind: "text", Text: vkit.B("urn:uuid:" + text), Rule: rule}, w)
								w.Eval(true)
							}
						}
					}
					pos++
				}
				for ver := uint64(0); ver < 16; ver++ {
					for variant := uint64(0); variant < 8; variant++ {
						c := Case{Kind: "id", Hi: bg[0]&^(0xf<<12) | ver<<12, Lo: bg[1]&^(7<<61) | variant<<61}
						judge(c, w)
						w.Eval(true)
						if ver == 4 && variant == 4 && w.WantSample() {
							w.Sample(c)
						}
					}
				}
			}
		})
	})
	r.Exhaustive("all 128 single-bit flips, all 32 x 16 x 2 single-nibble texts (plain and URN, 4 rule sets), all 16 x 8 version/variant fields, over 6 backgrounds")

	nIDs := int64(r.Pick(100000, 4000000))
	r.Phase(fmt.Sprintf("B: %d seeded random IDs", nIDs), func() {
		r.Parallel(nIDs, 2048, func(w *vkit.W, lo, hi int64) {
			for i := lo; i < hi; i++ {
				g := r.Rng("ids", i)
				c := Case{Kind: "id", Hi: g.U64(), Lo: g.U64()}
				if i%5 == 0 {
					c.Hi >>= uint(g.Intn(64))
					c.Lo <<= uint(g.Intn(64))
				}
				judge(c, w)
				w.EvalRandom(vkit.HashU(c.Hi, c.Lo), true)
			}
		})
	})

	nTexts := int64(r.Pick(24, 2000))
	insertSample := []byte{0, ' ', '-', '0', '9', 'a', 'f', 'g', 'A', 'F', 'G', ':', 'u', 'r', 'n', 'i', 'd', 'U', '{', '}', '\n', 0x7f, 0x80, 0xff}
	for _, lim := range []int{0, -1, 100, 44} {
		lim := lim
		r.Phase(fmt.Sprintf("C: every one-byte substitution (256 values), insertion (24 values), deletion, truncation and extension of %d valid texts x 4 rule sets, MaxInputLength setting %d (0 = default 45, -1 = disabled)", nTexts, lim), func() {
			defer setLimit(lim)()
			r.Parallel(nTexts, 1, func(w *vkit.W, lo, hi int64) {
				for i := lo; i < hi; i++ {
					g := r.Rng("texts", i)
					base := format(g.U64(), g.U64())
					switch i % 4 {
					case 1:
						base = strings.ToUpper(base)
					case 2:
						base = "urn:uuid:" + base
					case 3:
						base = "urn:uuid:" + strings.ToUpper(base)
					}
					emit := func(text string) {
						for _, rule := range rules {
							judge(Case{Kind: "text", Text: vkit.B(text), Rule: rule, Limit: lim}, w)
							w.EvalRandom(vkit.Hash64(text, strconv.Itoa(rule), strconv.Itoa(lim)), true)
						}
					}
					for pos := 0; pos <= len(base); pos++ {
						if pos < len(base) {
							for v := 0; v < 256; v++ {
								if byte(v) != base[pos] {
									emit(base[:pos] + string([]byte{byte(v)}) + base[pos+1:])
								}
							}
							emit(base[:pos] + base[pos+1:])
							emit(base[:pos])
						}
						for _, v := range insertSample {
							emit(base[:pos] + string([]byte{v}) + base[pos:])
						}
					}
					emit(base + base)
					emit(base + " ")
					emit(base + "0000")
					emit(base + base[len(base)-36:])
					emit("")
					// the four hyphens redistributed: every way of placing four hyphens into the gaps of the 32 digits that keeps the
					// length (all multisets over the four group boundaries, and single hyphens moved to arbitrary gaps)
					{
						off := len(base) - 36
						digits := strings.ReplaceAll(base[off:], "-", "")
						bounds := []int{8, 12, 16, 20}
						var place func(start, left int, counts [4]int)
						place = func(start, left int, counts [4]int) {
							if start == 3 {
								counts[3] = left
								var b strings.Builder
								b.WriteString(base[:off])
								for i := 0; i < 32; i++ {
									for k, bd := range bounds {
										if i == bd {
											b.WriteString(strings.Repeat("-", counts[k]))
										}
									}
									b.WriteByte(digits[i])
								}
								emit(b.String())
								return
							}
							for n := 0; n <= left; n++ {
								counts[start] = n
								place(start+1, left-n, counts)
							}
						}
						place(0, 4, [4]int{})
						for gap := 1; gap < 32; gap++ { // one hyphen taken from its place and put into another gap
							for _, from := range bounds {
								var b strings.Builder
								b.WriteString(base[:off])
								for i := 0; i < 32; i++ {
									if i == gap {
										b.WriteByte('-')
									}
									for _, bd := range bounds {
										if i == bd && bd != from {
											b.WriteByte('-')
										}
									}
									b.WriteByte(digits[i])
								}
								emit(b.String())
							}
						}
					}
					// hyphen moved by one, two hyphens swapped with neighbours
					for _, hp := range []int{8, 13, 18, 23} {
						off := len(base) - 36
						bs := []byte(base)
						bs[off+hp], bs[off+hp+1] = bs[off+hp+1], bs[off+hp]
						emit(string(bs))
					}
					if w.WantSample() {
						w.Sample(Case{Kind: "text", Text: vkit.B(base[:len(base)-1] + "g"), Rule: 0, Limit: lim})
					}
				}
			})
		})
	}
	r.Sampled()

	r.Phase("W2: formatting and parsing again right after custom package-level Formatter/Parser functions were installed, used and removed", func() {
		r.Serial(func(w *vkit.W) {
			for i := int64(0); i < 300; i++ {
				g := r.Rng("hooks", i)
				hi, lo := g.U64(), g.U64()
				judge(Case{Kind: "id", Hi: hi, Lo: lo, Hooks: true}, w)
				w.EvalRandom(vkit.HashU(hi, lo, 77), true)
				text := format(hi, lo)
				if i%2 == 1 {
					text = "urn:uuid:" + strings.ToUpper(text)
				}
				for _, rule := range rules {
					judge(Case{Kind: "text", Text: vkit.B(text), Rule: rule, Hooks: true}, w)
					w.EvalRandom(vkit.Hash64("W2", text, strconv.Itoa(rule)), true)
				}
			}
		})
	})

	r.Phase("P: rules applied through a replaced package-level Parser (the way UnmarshalText and encoding/json are given a rule): valid forms, disabled forms and one-byte edits x 4 rule sets", func() {
		r.Serial(func(w *vkit.W) {
			for i := int64(0); i < 150; i++ {
				g := r.Rng("viaparser", i)
				plain := format(g.U64(), g.U64())
				texts := []string{plain, strings.ToUpper(plain), "urn:uuid:" + plain, "urn:uuid:" + strings.ToUpper(plain), "URN:UUID:" + plain}
				pos := int(g.U64() % 36)
				for _, sub := range []byte{'g', '-', ' ', 'A', 'f'} {
					texts = append(texts, plain[:pos]+string(sub)+plain[pos+1:], "urn:uuid:"+plain[:pos]+string(sub)+plain[pos+1:])
				}
				texts = append(texts, plain[:35], plain+"0", "urn:uuid:"+plain[:35])
				for _, text := range texts {
					for _, rule := range rules {
						judge(Case{Kind: "text", Text: vkit.B(text), Rule: rule, ViaParser: true}, w)
						w.EvalRandom(vkit.Hash64("P", text, strconv.Itoa(rule)), true)
					}
				}
			}
		})
	})

	r.Phase("W3: a text parsed, then N distinct other texts (N = 1..200000 on a ladder around powers of two), then the same text again", func() {
		r.Serial(func(w *vkit.W) {
			filler := uint64(0)
			for li, n := range []int{1, 2, 3, 31, 32, 33, 63, 64, 65, 127, 128, 129, 255, 256, 257, 511, 512, 513, 1023, 1024, 1025, 2047, 2048, 2049, 4096, 8192, 65536, 200000} {
				x := format(0x0123456789abcdef^uint64(li), 0xfedcba9876543210^uint64(n))
				y := "urn:uuid:" + strings.ToUpper(x)
				for _, rule := range rules {
					judge(Case{Kind: "text", Text: vkit.B(x), Rule: rule}, w)
					judge(Case{Kind: "text", Text: vkit.B(y), Rule: rule}, w)
				}
				for k := 0; k < n; k++ {
					filler++
					t := format(filler*0x9e3779b97f4a7c15, filler)
					if filler%2 == 0 {
						_, _ = uu.DefaultParser(t, 0)
					} else {
						_, _ = uu.DefaultParser([]byte("urn:uuid:"+t), uu.RuleDisableUpperCaseDigits)
					}
				}
				for _, rule := range rules {
					judge(Case{Kind: "text", Text: vkit.B(x), Rule: rule}, w)
					judge(Case{Kind: "text", Text: vkit.B(y), Rule: rule}, w)
				}
				w.EvalRandom(vkit.Hash64("W3", x), true)
			}
		})
	})

	r.Phase("F: texts judged while a custom package-level Formatter (braces, upper case) is installed", func() {
		old := uu.Formatter
		defer func() { uu.Formatter = old }()
		uu.Formatter = func(buf []byte, id uu.ID, f uu.Format) ([]byte, error) {
			return append(buf, fmt.Sprintf("{%016X%016X}", id.Higher, id.Lower)...), nil
		}
		r.Serial(func(w *vkit.W) {
			x := format(0x0123456789abcdef, 0xfedcba9876543210)
			for _, text := range []string{x, strings.ToUpper(x), "urn:uuid:" + x, "URN:UUID:" + x, "{" + x + "}", x[:35], x + "0", strings.ReplaceAll(x, "-", ""), "", "urn:uuid:"} {
				for _, rule := range rules {
					judge(Case{Kind: "text", Text: vkit.B(text), Rule: rule}, w)
					w.EvalRandom(vkit.Hash64("F", text, strconv.Itoa(rule)), true)
				}
			}
		})
	})

	// Phase L: lengths that alias a valid length modulo 2^8 or 2^16: a valid text followed (or preceded) by k x 256 more bytes.
	r.Phase("L: valid texts followed or preceded by 1..2^20 further bytes (255, 256, 257, ..., 65536, ...), limit disabled and raised", func() {
		x := format(0x0123456789abcdef, 0xfedcba9876543210)
		for _, lim := range []int{-1, 1 << 21} {
			restore := setLimit(lim)
			r.Parallel(int64(len([]int{1, 255, 256, 257, 511, 512, 513, 65535, 65536, 65537, 1 << 20})), 1, func(w *vkit.W, lo, hi int64) {
				for i := lo; i < hi; i++ {
					n := []int{1, 255, 256, 257, 511, 512, 513, 65535, 65536, 65537, 1 << 20}[i]
					for _, base := range []string{x, "urn:uuid:" + x, strings.ToUpper(x)} {
						for _, pad := range []string{"0", "-", " ", "\x00", "f"} {
							for _, text := range []string{base + strings.Repeat(pad, n), strings.Repeat(pad, n) + base} {
								for _, rule := range rules {
									judge(Case{Kind: "text", Text: vkit.B(text), Rule: rule, Limit: lim}, w)
									w.EvalRandom(vkit.Hash64("L", base, pad, strconv.Itoa(n), strconv.Itoa(rule), strconv.Itoa(lim)), true)
								}
							}
						}
					}
				}
			})
			restore()
		}
	})

	// Phase R: runes that fold, truncate (low byte, low 16 bits) or widen to a hex digit, a hyphen or a prefix letter: inserted,
	// put in place of one byte, and put in place of as many bytes as they are long (so that the length stays right).
	r.Phase("R: confusable runes inserted, substituted for one byte and substituted length-preservingly at every position of valid texts x 4 rule sets, default and disabled limit", func() {
		runes := ref.ConfusableRunes("0123456789abcdefABCDEF-urn:id")
		x := format(0x0123456789abcdef, 0xfedcba9876543210)
		bases := []string{x, "urn:uuid:" + x, strings.ToUpper(x)}
		for _, lim := range []int{0, -1} {
			restore := setLimit(lim)
			r.Parallel(int64(len(runes)), 4, func(w *vkit.W, lo, hi int64) {
				for i := lo; i < hi; i++ {
					rs := string(runes[i])
					for _, base := range bases {
						for pos := 0; pos <= len(base); pos++ {
							texts := []string{base[:pos] + rs + base[pos:]}
							if pos < len(base) {
								texts = append(texts, base[:pos]+rs+base[pos+1:])
							}
							if pos+len(rs) <= len(base) {
								texts = append(texts, base[:pos]+rs+base[pos+len(rs):])
							}
							for _, text := range texts {
								for _, rule := range rules {
									judge(Case{Kind: "text", Text: vkit.B(text), Rule: rule, Limit: lim}, w)
									w.EvalRandom(vkit.Hash64("R", text, strconv.Itoa(rule), strconv.Itoa(lim)), true)
								}
							}
						}
					}
				}
			})
			restore()
		}
	})

	// Phase C2: several hyphens replaced at once by the same byte (all four, every pair, every triple), for every byte value.
	r.Phase("C2: every subset of two to four hyphens replaced by the same byte (256 values) in plain, upper-case and URN texts x 4 rule sets", func() {
		x := format(0x0123456789abcdef, 0xfedcba9876543210)
		r.Parallel(256, 4, func(w *vkit.W, lo, hi int64) {
			for v := lo; v < hi; v++ {
				for _, base := range []string{x, strings.ToUpper(x), "urn:uuid:" + x} {
					off := len(base) - 36
					pos := []int{off + 8, off + 13, off + 18, off + 23}
					for mask := 3; mask < 16; mask++ {
						if mask&(mask-1) == 0 {
							continue // single replacements are phase C's
						}
						b := []byte(base)
						for k, p := range pos {
							if mask>>uint(k)&1 == 1 {
								b[p] = byte(v)
							}
						}
						if string(b) == base {
							continue
						}
						for _, rule := range rules {
							judge(Case{Kind: "text", Text: vkit.B(b), Rule: rule}, w)
							w.EvalRandom(vkit.Hash64("C2", string(b), strconv.Itoa(rule)), true)
						}
					}
				}
			}
		})
	})

	r.Phase(fmt.Sprintf("W: %d conventional special texts (null, nil, the nil UUID, braces, every prefix of urn:uuid:, ...) x 4 rule sets x limits", len(ref.ConventionalTexts)), func() {
		for _, lim := range []int{0, -1, 3, math.MaxInt, math.MaxInt - 1, 1 << 31, 1 << 32} {
			restore := setLimit(lim)
			r.Serial(func(w *vkit.W) {
				for _, text := range append(append([]string{}, ref.ConventionalTexts...), ref.Wrapped("123e4567-e89b-12d3-a456-426614174000", "urn:uuid:123E4567-E89B-12D3-A456-426614174000")...) {
					for _, rule := range rules {
						judge(Case{Kind: "text", Text: vkit.B(text), Rule: rule, Limit: lim}, w)
						w.EvalRandom(vkit.Hash64("W", text, strconv.Itoa(rule), strconv.Itoa(lim)), true)
					}
				}
			})
			restore()
		}
	})

	r.Phase(fmt.Sprintf("E: %d cold-start scenarios (which parser call comes first in a fresh process)", len(coldScenarios)), func() {
		r.Serial(func(w *vkit.W) {
			for _, sc := range coldScenarios {
				r.RunCold(w, sc, false)
				w.EvalRandom(vkit.Hash64("cold", sc), true)
			}
		})
	})

	r.Phase("D: rapid IDs and edited texts", func() {
		r.Rapid(t, "rapid-uuid", 0, r.Pick(30000, 1000000), func(rt *rapid.T, w *vkit.W) vkit.RapidCase {
			hi, lo := rapid.Uint64().Draw(rt, "hi"), rapid.Uint64().Draw(rt, "lo")
			if rapid.Bool().Draw(rt, "asID") {
				c := Case{Kind: "id", Hi: hi, Lo: lo}
				judge(c, w)
				return vkit.RapidCase{Case: c, Hash: vkit.HashU(hi, lo), NT: true}
			}
			text := format(hi, lo)
			if rapid.Bool().Draw(rt, "upper") {
				text = strings.ToUpper(text)
			}
			switch rapid.IntRange(0, 3).Draw(rt, "prefix") {
			case 0:
				text = "urn:uuid:" + text
			case 1:
				text = rapid.SampledFrom([]string{"URN:UUID:", "Urn:uuid:", "urn:UUID:", "urn-uuid:", "urn:uuid ", "uuid:urn:", "URN:uuid:"}).Draw(rt, "oddPrefix") + text
			}
			b := []byte(text)
			for e := rapid.IntRange(0, 2).Draw(rt, "edits"); e > 0 && len(b) > 0; e-- {
				pos := rapid.IntRange(0, len(b)-1).Draw(rt, "pos")
				switch rapid.IntRange(0, 2).Draw(rt, "editKind") {
				case 0:
					b[pos] = rapid.Byte().Draw(rt, "byte")
				case 1:
					b = append(b[:pos], b[pos+1:]...)
				default:
					b = append(b[:pos], append([]byte{rapid.Byte().Draw(rt, "ins")}, b[pos:]...)...)
				}
			}
			if rapid.IntRange(0, 4).Draw(rt, "extend") == 0 {
				b = append(b, rapid.SliceOfN(rapid.SampledFrom([]byte("0aF- \x00")), 1, 12).Draw(rt, "tail")...)
			}
			c := Case{Kind: "text", Text: vkit.B(b), Rule: rapid.SampledFrom([]int{0, 1, 2, 3, 4, 7, -1}).Draw(rt, "rule"), Limit: rapid.SampledFrom([]int{0, 0, -1, 100, 46, 36}).Draw(rt, "limit")}
			defer setLimit(c.Limit)()
			judge(c, w)
			return vkit.RapidCase{Case: c, Hash: vkit.Hash64(string(b), strconv.Itoa(c.Rule), strconv.Itoa(c.Limit)), NT: true}
		})
	})
}
