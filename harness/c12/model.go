// Package c12 holds the document model and verdict oracle of the size JSON forms (also used by its fuzz target).
package c12

import (
	"bytes"
	"encoding/json"
	"errors"
	"math/big"
	"strings"

	"go.lstv.dev/util/size"

	"verifharness/ref"
)

// Member is one object member in document order.
type Member struct {
	Key  string
	Kind string // number | string | bool | null | object | array
	Num  string // literal of a number
	Str  string // decoded string
}

// Doc is the model of one well-formed JSON value.
type Doc struct {
	Kind    string // number | string | bool | null | object | array
	Num     string
	Str     string
	Members []Member
}

// Derive builds the model of input; ok is false when input is not exactly one well-formed JSON value.
// Trusted base: encoding/json (json.Valid and the token stream of json.Decoder).
func Derive(input []byte) (Doc, bool) {
	if !json.Valid(input) {
		return Doc{}, false
	}
	d := json.NewDecoder(bytes.NewReader(input))
	d.UseNumber()
	var doc Doc
	t, err := d.Token()
	if err != nil {
		return Doc{}, false
	}
	classify := func(t json.Token) (kind, num, str string) {
		switch v := t.(type) {
		case json.Number:
			return "number", string(v), ""
		case string:
			return "string", "", v
		case bool:
			return "bool", "", ""
		case nil:
			return "null", "", ""
		case json.Delim:
			if v == '{' {
				return "object", "", ""
			}
			return "array", "", ""
		}
		return "?", "", ""
	}
	skip := func() bool { // after an opening delimiter has been read
		for depth := 1; depth > 0; {
			t, err := d.Token()
			if err != nil {
				return false
			}
			if dl, ok := t.(json.Delim); ok {
				if dl == '{' || dl == '[' {
					depth++
				} else {
					depth--
				}
			}
		}
		return true
	}
	doc.Kind, doc.Num, doc.Str = classify(t)
	switch doc.Kind {
	case "array":
		if !skip() {
			return Doc{}, false
		}
	case "object":
		for d.More() {
			kt, err := d.Token()
			if err != nil {
				return Doc{}, false
			}
			key, _ := kt.(string)
			vt, err := d.Token()
			if err != nil {
				return Doc{}, false
			}
			m := Member{Key: key}
			m.Kind, m.Num, m.Str = classify(vt)
			if m.Kind == "object" || m.Kind == "array" {
				if !skip() {
					return Doc{}, false
				}
			}
			doc.Members = append(doc.Members, m)
		}
	}
	return doc, true
}

// Verdict of the oracle.
type Verdict struct {
	Accept      bool // must succeed with Value
	Either      bool // the statement does not decide (then: success must give Value when ValueKnown, failure is fine too)
	ValueKnown  bool
	Value       uint64
	Unspecified bool     // nothing is asserted except totality (ambiguous non-ASCII keys)
	Faults      []string // when rejecting an object: names of the applicable documented errors (any one may be reported)
	Reason      string
}

// numberVerdict classifies a JSON number literal as a byte count.
func numberVerdict(lit string) (ok, either bool, value uint64) {
	plain := lit != ""
	for i := 0; i < len(lit); i++ {
		if lit[i] < '0' || lit[i] > '9' {
			plain = false
			break
		}
	}
	if plain {
		v, fits := ref.FitsU64(lit)
		return fits, false, v
	}
	// sign / fraction / exponent: integral values in range are left open, everything else is refused
	mant, exp := lit, int64(0)
	if i := strings.IndexAny(lit, "eE"); i >= 0 {
		mant = lit[:i]
		e := lit[i+1:]
		neg := strings.HasPrefix(e, "-")
		e = strings.TrimLeft(e, "+-")
		e = strings.TrimLeft(e, "0")
		if len(e) > 4 {
			exp = 100000
		} else {
			for _, c := range e {
				exp = exp*10 + int64(c-'0')
			}
		}
		if neg {
			exp = -exp
		}
	}
	r, good := new(big.Rat).SetString(mant)
	if !good {
		return false, false, 0
	}
	if r.Sign() == 0 {
		return true, true, 0
	}
	if exp > 5000 || exp < -5000 || len(mant) > 5000 {
		// astronomically scaled literal: left open (success must then be refused by the caller's value check: no value is known)
		return false, true, 0
	}
	ten := big.NewInt(10)
	if exp >= 0 {
		r.Mul(r, new(big.Rat).SetInt(new(big.Int).Exp(ten, big.NewInt(exp), nil)))
	} else {
		r.Quo(r, new(big.Rat).SetInt(new(big.Int).Exp(ten, big.NewInt(-exp), nil)))
	}
	if !r.IsInt() || r.Sign() < 0 || !r.Num().IsUint64() {
		return false, false, 0
	}
	return true, true, r.Num().Uint64()
}

func asciiLower(s string) string {
	b := []byte(s)
	for i, c := range b {
		if c >= 'A' && c <= 'Z' {
			b[i] = c + 32
		}
	}
	return string(b)
}

// Judge computes the verdict for input under rule r and the given MaxObjectKeys (MaxInputLength is assumed disabled).
func Judge(input []byte, r size.Rule, maxKeys int) Verdict {
	if r&(size.RuleEnableJSONStringForm|size.RuleEnableJSONObjectForm) == 0 {
		return textVerdict(string(input), r&size.RuleDisableUnit != 0, "text mode")
	}
	if nestingDepth(input) >= 10000 {
		// encoding/json refuses documents nested deeper than 10,000 levels whether or not they are well formed: beyond its limit
		// the trusted base does not decide well-formedness, so only totality is asserted there.
		return Verdict{Unspecified: true, Reason: "nested deeper than encoding/json's own limit"}
	}
	doc, ok := Derive(input)
	if !ok {
		return Verdict{Reason: "not exactly one well-formed JSON value"}
	}
	switch doc.Kind {
	case "number":
		ok, either, v := numberVerdict(doc.Num)
		return Verdict{Accept: ok && !either, Either: either, ValueKnown: ok, Value: v, Reason: "JSON number " + doc.Num}
	case "string":
		if r&size.RuleEnableJSONStringForm == 0 {
			return Verdict{Faults: []string{"ErrStringFormDisabled"}, Reason: "string form not enabled"}
		}
		v := textVerdict(doc.Str, false, "JSON string")
		if r&size.RuleDisableUnit != 0 && v.Accept {
			if tv := ref.ParseSizeText(doc.Str); tv.Unit != "" {
				// RuleDisableUnit combined with the string form: the statement does not say whether the unit rule applies inside strings
				v.Accept, v.Either = false, true
			}
		}
		return v
	case "object":
		if r&size.RuleEnableJSONObjectForm == 0 {
			return Verdict{Faults: []string{"ErrObjectFormDisabled"}, Reason: "object form not enabled"}
		}
		return objectVerdict(doc, r, maxKeys)
	default:
		return Verdict{Faults: []string{"ErrExpectedObject", "ErrInvalidType"}, Reason: "JSON " + doc.Kind + " is not a size"}
	}
}

// nestingDepth is the deepest bracket nesting of input, ignoring brackets inside JSON strings (an upper bound for malformed input).
func nestingDepth(input []byte) int {
	depth, max, inStr := 0, 0, false
	for i := 0; i < len(input); i++ {
		c := input[i]
		switch {
		case inStr:
			if c == '\\' {
				i++
			} else if c == '"' {
				inStr = false
			}
		case c == '"':
			inStr = true
		case c == '[' || c == '{':
			depth++
			if depth > max {
				max = depth
			}
		case c == ']' || c == '}':
			depth--
		}
	}
	return max
}

func textVerdict(s string, unitOff bool, why string) Verdict {
	tv := ref.ParseSizeText(s)
	switch {
	case !tv.OK():
		return Verdict{Reason: why + ": text grammar/arithmetic refuses"}
	case unitOff && tv.Unit != "":
		return Verdict{Faults: []string{"ErrUnitDisabled"}, Reason: why + ": unit present under RuleDisableUnit"}
	case tv.Dangling:
		return Verdict{Either: true, ValueKnown: true, Value: tv.Value, Reason: why + ": dangling separator"}
	}
	return Verdict{Accept: true, ValueKnown: true, Value: tv.Value, Reason: why}
}

func objectVerdict(doc Doc, r size.Rule, maxKeys int) Verdict {
	var faults []string
	add := func(f string) { faults = append(faults, f) }
	if maxKeys != 0 && len(doc.Members) > maxKeys {
		add("ErrObjectTooBig")
	}
	var value, unit *Member
	either := false
	for i := range doc.Members {
		m := &doc.Members[i]
		lk := asciiLower(m.Key)
		if lk != "value" && lk != "unit" {
			if ul := strings.ToLower(m.Key); ul == "value" || ul == "unit" {
				return Verdict{Unspecified: true, Reason: "key " + m.Key + " equals value/unit only under Unicode case folding"}
			}
			if r&size.RuleDisallowUnknownKeys != 0 {
				add("ErrUnexpectedKey")
			}
			continue
		}
		if lk == "value" {
			if value != nil {
				add("ErrDuplicatedValueKey")
				continue
			}
			value = m
		} else {
			if unit != nil {
				add("ErrDuplicatedUnitKey")
				continue
			}
			unit = m
		}
	}
	if value == nil {
		add("ErrMissingValueKey")
	}
	if unit == nil {
		add("ErrMissingUnitKey")
	}
	var n *big.Int
	if value != nil {
		if value.Kind != "number" {
			add("ErrInvalidType")
		} else {
			ok, eith, v := numberVerdict(value.Num)
			switch {
			case ok && !eith:
				n = new(big.Int).SetUint64(v)
			case ok && eith:
				either = true
				n = new(big.Int).SetUint64(v)
			case eith:
				return Verdict{Unspecified: true, Reason: "object value with an astronomically scaled literal"}
			default:
				add("any") // not a uint64 integer literal: strconv's error is passed through
			}
		}
	}
	if unit != nil && unit.Kind != "string" {
		add("ErrInvalidType")
	}
	var result uint64
	if n != nil && unit != nil && unit.Kind == "string" {
		v, known, fits := ref.Product(n, unit.Str)
		switch {
		case !known:
			add("InvalidUnitError")
		case !fits:
			add("InvalidValueError")
			if _, zeroOnly := map[string]bool{"ZB": true, "YB": true, "ZiB": true, "YiB": true}[unit.Str]; zeroOnly {
				// the units too large for 64 bits have no multiplier; the library reports them as an invalid unit when the
				// value is not zero. The statement only says they are "accepted only with zero", so either error counts.
				add("InvalidUnitError")
			}
		default:
			result = v
		}
	}
	if len(faults) > 0 {
		if either {
			faults = append(faults, "any")
		}
		return Verdict{Faults: faults, Reason: "object faults"}
	}
	if either {
		return Verdict{Either: true, ValueKnown: true, Value: result, Reason: "object value written with fraction/exponent"}
	}
	return Verdict{Accept: true, ValueKnown: true, Value: result, Reason: "object"}
}

// ErrorMatches reports whether err is one of the documented errors named in faults ("any" matches everything).
func ErrorMatches(err error, faults []string) bool {
	for _, f := range faults {
		switch f {
		case "any":
			return true
		case "ErrStringFormDisabled":
			if errors.Is(err, size.ErrStringFormDisabled) {
				return true
			}
		case "ErrObjectFormDisabled":
			if errors.Is(err, size.ErrObjectFormDisabled) {
				return true
			}
		case "ErrExpectedObject":
			if errors.Is(err, size.ErrExpectedObject) {
				return true
			}
		case "ErrInvalidType":
			if errors.Is(err, size.ErrInvalidType) {
				return true
			}
		case "ErrUnitDisabled":
			if errors.Is(err, size.ErrUnitDisabled) {
				return true
			}
		case "ErrObjectTooBig":
			if errors.Is(err, size.ErrObjectTooBig) {
				return true
			}
		case "ErrUnexpectedKey":
			if errors.Is(err, size.ErrUnexpectedKey) {
				return true
			}
		case "ErrDuplicatedValueKey":
			if errors.Is(err, size.ErrDuplicatedValueKey) {
				return true
			}
		case "ErrDuplicatedUnitKey":
			if errors.Is(err, size.ErrDuplicatedUnitKey) {
				return true
			}
		case "ErrMissingValueKey":
			if errors.Is(err, size.ErrMissingValueKey) {
				return true
			}
		case "ErrMissingUnitKey":
			if errors.Is(err, size.ErrMissingUnitKey) {
				return true
			}
		case "InvalidUnitError":
			var e *size.InvalidUnitError
			if errors.As(err, &e) {
				return true
			}
		case "InvalidValueError":
			var e *size.InvalidValueError[uint64]
			if errors.As(err, &e) {
				return true
			}
		}
	}
	return false
}
