package c12

import (
	"fmt"
	"testing"

	"go.lstv.dev/util/size"

	"verifharness/vkit"
)

var coldFirst = map[string]func(){
	"object":                func() { _, _ = size.DefaultParser(`{"value":3,"unit":"KiB"}`, 6) },
	"object unknown nested": func() { _, _ = size.DefaultParser([]byte(`{"x":[{"y":[1,2,{"z":null}]}],"VALUE":3,"Unit":"KiB"}`), 6) },
	"object disallowed":     func() { _, _ = size.DefaultParser(`{"x":1,"value":3,"unit":"B"}`, 14) },
	"object duplicate":      func() { _, _ = size.DefaultParser(`{"value":1,"value":2,"unit":"B"}`, 4) },
	"object form disabled":  func() { _, _ = size.DefaultParser(`{"value":1,"unit":"B"}`, 2) },
	"string":                func() { _, _ = size.DefaultParser(`"1 000 kB"`, 2) },
	"string disabled":       func() { _, _ = size.DefaultParser(`"1kB"`, 4) },
	"number":                func() { _, _ = size.DefaultParser("1024", 6) },
	"number fraction":       func() { _, _ = size.DefaultParser("1.5", 6) },
	"truncated":             func() { _, _ = size.DefaultParser(`{"value":1`, 6) },
	"trailing":              func() { _, _ = size.DefaultParser(`1 2`, 6) },
	"text mode":             func() { _, _ = size.DefaultParser("1 KiB", 0) },
	"unmarshaljson":         func() { var s size.Size; _ = s.UnmarshalJSON([]byte(`{"unit":"MB","value":2}`)) },
	"unmarshaljson null":    func() { var s size.Size; _ = s.UnmarshalJSON([]byte(`null`)) },
	"marshaljson":           func() { _, _ = size.Size(2048).MarshalJSON() },
}

func init() {
	// the first reads of the process happen under other settings than the later ones (DefaultRule, MaxObjectKeys,
	// MaxInputLength), which are then put back
	docs := []string{`{"value":3,"unit":"KiB"}`, `"1 000 kB"`, "1024", `{"x":1,"value":3,"unit":"B"}`, `{"value":1,"value":2,"unit":"B"}`}
	for _, rule := range []int{0, 1, 2, 4, 8, 10, 12, 15} {
		rule := rule
		coldFirst[fmt.Sprintf("first reads under DefaultRule %d", rule)] = func() {
			old := size.DefaultRule
			size.DefaultRule = size.Rule(rule)
			for _, d := range docs {
				var s size.Size
				_ = s.UnmarshalJSON([]byte(d))
				_, _ = size.DefaultParser(d, size.DefaultRule)
			}
			size.DefaultRule = old
		}
	}
	for _, keys := range []int{1, 2, 0} {
		keys := keys
		coldFirst[fmt.Sprintf("first reads under MaxObjectKeys %d", keys)] = func() {
			old := size.MaxObjectKeys
			size.MaxObjectKeys = keys
			for _, d := range docs {
				_, _ = size.DefaultParser(d, 6)
			}
			size.MaxObjectKeys = old
		}
	}
	for _, lim := range []int{1, 8, 0} {
		lim := lim
		coldFirst[fmt.Sprintf("first reads under MaxInputLength %d", lim)] = func() {
			old := size.MaxInputLength
			size.MaxInputLength = lim
			for _, d := range docs {
				_, _ = size.DefaultParser(d, 6)
			}
			size.MaxInputLength = old
		}
	}
}

func TestColdStart(t *testing.T) {
	vkit.ColdMain(t, "C12", coldFirst, func(w *vkit.W) {
		defer configure(16)()
		docs := []string{`{"x":[{"y":[1,2,{"z":null}]}],"VALUE":3,"Unit":"KiB"}`, `{"x":1,"value":3,"unit":"B"}`, `{"value":1,"unit":"B"}`, `"1 000 kB"`, `"1kB"`, "1024", "1 2", "1 KiB", `{"unit":"MB","value":2}`, `{"value":1`, `{"value":3,"unit":"KiB"}`, `{"unit":"kB","value":2}`, `{"VALUE":1,"Unit":"B"}`, `{"value":1}`, `{"unit":"B"}`, `{"x":{"value":[1,{"unit":"kB"}]},"value":7,"unit":"MB"}`,
			`{"value":1,"value":2,"unit":"B"}`, `{"value":"1","unit":"B"}`, `{"value":1,"unit":5}`, `"1 kB"`, `"x"`, "10", "1.5", "-1", "null", "true", "[]", "[1]", `{"value":1,"unit":"kB"} x`, `{"value":1,"unit":"kB"`, "", " 7 ", `{}`}
		for _, doc := range docs {
			for rule := 0; rule < 16; rule++ {
				judge(Case{Input: vkit.B(doc), Rule: rule, MaxKeys: 16}, w)
			}
		}
	})
}
