// C12: size JSON forms are gated by rules and objects are read faithfully.
package c12

import (
	"encoding/json"
	"errors"
	"fmt"
	"strconv"
	"strings"
	"testing"

	"go.lstv.dev/util/size"
	"pgregory.net/rapid"

	"verifharness/vkit"
)

// Case: raw input under a rule word and a MaxObjectKeys setting (MaxInputLength is disabled in this check).
type Case struct {
	Input   vkit.B `json:"input"`
	Rule    int    `json:"rule"`
	MaxKeys int    `json:"max_object_keys"`
}

type (
	namedS string
	namedB []byte
)

func typedParse(err error) bool {
	var a *size.ParseError[string]
	var b *size.ParseError[[]byte]
	var c *size.ParseError[namedS]
	var d *size.ParseError[namedB]
	return errors.As(err, &a) || errors.As(err, &b) || errors.As(err, &c) || errors.As(err, &d)
}

// judge returns the verdict so that callers can relate cases (permutations).
func judge(c Case, w *vkit.W) (v Verdict, accepted bool, value uint64) {
	defer func() {
		if p := recover(); p != nil {
			w.Fail(c, "panic", vkit.PanicDetail(p))
		}
	}()
	input := string(c.Input)
	rule := size.Rule(c.Rule)
	v = Judge([]byte(input), rule, c.MaxKeys)
	check := func(path string, got size.Size, err error) {
		if v.Unspecified {
			return
		}
		if err == nil {
			switch {
			case !v.Accept && !v.Either:
				w.Fail(c, "invalid-input-accepted", fmt.Sprintf("%s(%q, rule=%#b, MaxObjectKeys=%d) = %d; oracle refuses: %s %v", path, input, c.Rule, c.MaxKeys, uint64(got), v.Reason, v.Faults))
			case !v.ValueKnown:
				w.Fail(c, "invalid-input-accepted", fmt.Sprintf("%s(%q) = %d; no value is defined for it: %s", path, input, uint64(got), v.Reason))
			case uint64(got) != v.Value:
				w.Fail(c, "wrong-value", fmt.Sprintf("%s(%q, rule=%#b) = %d, the decoded form gives %d (%s)", path, input, c.Rule, uint64(got), v.Value, v.Reason))
			}
			return
		}
		if v.Accept {
			w.Fail(c, "valid-input-rejected", fmt.Sprintf("%s(%q, rule=%#b, MaxObjectKeys=%d): oracle accepts with %d (%s), library error %v", path, input, c.Rule, c.MaxKeys, v.Value, v.Reason, err))
			return
		}
		if got != 0 {
			w.Fail(c, "nonzero-result-with-error", fmt.Sprintf("%s(%q): error %v with result %d", path, input, err, uint64(got)))
		}
		if !typedParse(err) {
			w.Fail(c, "error-not-typed", fmt.Sprintf("%s(%q): %T %v is not a *size.ParseError", path, input, err, err))
		}
		if len(v.Faults) > 0 && !v.Either && !ErrorMatches(err, v.Faults) {
			w.Fail(c, "undocumented-error", fmt.Sprintf("%s(%q, rule=%#b, MaxObjectKeys=%d): error %v is none of the documented errors that apply here %v", path, input, c.Rule, c.MaxKeys, err, v.Faults))
		}
	}
	var got size.Size
	var err error
	if w.Flip() { // the order of the two instantiations alternates
		got, err = size.DefaultParser(input, rule)
		check("DefaultParser[string]", got, err)
		accepted, value = err == nil, uint64(got)
		got, err = size.DefaultParser(w.Scratch(input), rule) // a reused caller buffer
		check("DefaultParser[[]byte]", got, err)
	} else {
		got, err = size.DefaultParser(w.Scratch(input), rule)
		check("DefaultParser[[]byte]", got, err)
		got, err = size.DefaultParser(input, rule)
		check("DefaultParser[string]", got, err)
		accepted, value = err == nil, uint64(got)
	}
	if v.Accept || len(input) < 4 {
		got, err = size.DefaultParser(namedS(input), rule)
		check("DefaultParser[named string]", got, err)
		got, err = size.DefaultParser(namedB(w.Scratch(input)), rule)
		check("DefaultParser[named []byte]", got, err)
	}
	if rule == size.DefaultRule {
		s := size.Size(4242)
		err := s.UnmarshalJSON(w.Scratch(input))
		if err != nil {
			if s != 4242 {
				w.Fail(c, "receiver-changed-on-error", fmt.Sprintf("UnmarshalJSON(%q): error %v, receiver %d", input, err, uint64(s)))
			}
			s = 0
		}
		check("UnmarshalJSON", s, err)
	}
	return v, accepted, value
}

func configure(maxKeys int) func() {
	a, b := size.MaxObjectKeys, size.MaxInputLength
	size.MaxObjectKeys, size.MaxInputLength = maxKeys, 0
	return func() { size.MaxObjectKeys, size.MaxInputLength = a, b }
}

// member palette for the exhaustive small scope
var palette = []string{
	`"value":1`, `"value":20`, `"VALUE":3`, `"value":"1"`, `"value":1.5`, `"value":-1`, `"value":18446744073709551616`, `"value":null`,
	`"unit":"kB"`, `"Unit":"KiB"`, `"unit":"B"`, `"unit":5`, `"unit":"xB"`, `"unit":"EiB"`, `"unit":""`,
	`"value":9007199254740993.0`, `"value":1.00000000000000000001`, `"value":1023.99999999999999999`, `"value":18446744073709551615.0`, `"value":1.8446744073709551616e19`, `"value":1e0`, `"value":10E-1`,
	`"x":1`, `"y":{"value":9,"unit":"MB","z":[1,{"a":[]}]}`, `"z":[[1,2],{"unit":"kB"}]`, `"":null`, `"valu":true`,
	// member names that only begin like value / unit, and units that begin like a number
	`"value":0`, `"unit":"ZB"`, `"unit":"YiB"`,
	`"values":3`, `"valueBytes":1024`, `"VALUE_2":"x"`, `"units":"kB"`, `"unit2":5`, `"unit":"0kB"`, `"unit":"7"`, `"unit":" B"`,
}

var keyLimits = []int{16, 0, 1, 2, 3}

func nontrivialInput(input string) bool {
	d, ok := Derive([]byte(input))
	return ok && d.Kind == "object" && len(d.Members) >= 2
}

func permutations(n int, f func(p []int)) {
	p := make([]int, n)
	for i := range p {
		p[i] = i
	}
	var rec func(k int)
	rec = func(k int) {
		if k == n {
			f(p)
			return
		}
		for i := k; i < n; i++ {
			p[k], p[i] = p[i], p[k]
			rec(k + 1)
			p[k], p[i] = p[i], p[k]
		}
	}
	rec(0)
}

var suffixes = []string{"x", " 1", "}", "]", ",", "{}", " }", "\n]", `"`, "\x00", " 1 2", " 2 3 4", "\v", "\f", "\u00a0", "\u0085", "\u2028", "\u3000", "\ufeff"}

// prefixes are put in front of a document by derived(): JSON knows four white-space characters, nothing else may be skipped.
var prefixes = []string{"\v", "\f", "\u00a0", "\u0085", "\u2028", "\u3000", "\ufeff", "\x00", "x", ",", "1 ", "[", "\xc2"}

// derived judges doc plus its truncations and suffixed forms under the JSON-enabling rules.
func derived(doc string, maxKeys int, w *vkit.W, hashed bool) {
	for _, rule := range []int{6, 2, 4, 15} {
		for cut := 0; cut < len(doc); cut++ {
			c := Case{Input: vkit.B(doc[:cut]), Rule: rule, MaxKeys: maxKeys}
			judge(c, w)
			w.EvalRandom(vkit.Hash64(doc[:cut], strconv.Itoa(rule), strconv.Itoa(maxKeys)), true)
		}
		for _, sfx := range suffixes {
			c := Case{Input: vkit.B(doc + sfx), Rule: rule, MaxKeys: maxKeys}
			judge(c, w)
			w.EvalRandom(vkit.Hash64(doc+sfx, strconv.Itoa(rule), strconv.Itoa(maxKeys)), true)
		}
		for _, pfx := range prefixes {
			c := Case{Input: vkit.B(pfx + doc), Rule: rule, MaxKeys: maxKeys}
			judge(c, w)
			w.EvalRandom(vkit.Hash64(pfx+doc, strconv.Itoa(rule), strconv.Itoa(maxKeys)), true)
		}
		// after a rejected input the same document must still be read as before (nothing of the rejected input may linger)
		c := Case{Input: vkit.B(doc), Rule: rule, MaxKeys: maxKeys}
		judge(c, w)
		w.EvalRandom(vkit.Hash64(doc, strconv.Itoa(rule), strconv.Itoa(maxKeys), "again"), true)
	}
}

func TestCheck(t *testing.T) {
	r := vkit.Start("C12")
	defer r.Finish(t)
	if r.ReplayCold() {
		return
	}
	if r.Replay != "" {
		var c Case
		if err := r.LoadReplay(&c); err != nil {
			t.Fatalf("replay: %v", err)
		}
		defer configure(c.MaxKeys)()
		r.Serial(func(w *vkit.W) { judge(c, w); w.Eval(true) })
		return
	}
	r.Rule("Cases are (input bytes, rule word, MaxObjectKeys) through DefaultParser[string], DefaultParser[[]byte] and (default rule) UnmarshalJSON. Oracle: json.Valid + an ordered member walk (encoding/json tokens) give a document model; the model decides accept-with-value / reject-with-one-of-the-applicable-documented-errors / either (integral numbers written with fraction or exponent, RuleDisableUnit inside strings, dangling separators) / unspecified (keys equal to value/unit only under Unicode folding). " +
		"Member-order invariance is checked directly on all permutations. Non-trivial: JSON-valid objects with >= 2 members, and every truncation/suffix/permutation derived from a document. Distinct by construction (exhaustive member lists) or by hash.")
	r.Regress(func(raw json.RawMessage, w *vkit.W) error {
		var c Case
		if err := json.Unmarshal(raw, &c); err != nil {
			return err
		}
		defer configure(c.MaxKeys)()
		judge(c, w)
		w.Eval(true)
		return nil
	})

	// Phase A: every member list of length 0..K over the palette (order matters: this contains all permutations),
	// x 16 rules x MaxObjectKeys {16,0,1,2,3}.
	K := r.Pick(3, 4)
	np := int64(len(palette))
	for _, mk := range keyLimits {
		mk := mk
		r.Phase(fmt.Sprintf("A: all member lists of length 0..%d over a %d-member palette x 16 rules, MaxObjectKeys=%d", K, np, mk), func() {
			defer configure(mk)()
			for n := 0; n <= K; n++ {
				total := int64(1)
				for i := 0; i < n; i++ {
					total *= np
				}
				n := n
				r.Parallel(total, 64, func(w *vkit.W, lo, hi int64) {
					idx := make([]int, n)
					parts := make([]string, n)
					for k := lo; k < hi; k++ {
						x := k
						for j := n - 1; j >= 0; j-- {
							idx[j] = int(x % np)
							x /= np
							parts[j] = palette[idx[j]]
						}
						doc := "{" + strings.Join(parts, ",") + "}"
						sorted := true
						for j := 1; j < n; j++ {
							if idx[j-1] > idx[j] {
								sorted = false
							}
						}
						for rule := 0; rule < 16; rule++ {
							c := Case{Input: vkit.B(doc), Rule: rule, MaxKeys: mk}
							v, acc, val := judge(c, w)
							w.Eval(n >= 2)
							// order invariance, directly: compare with the sorted arrangement of the same multiset
							if !sorted && rule&4 != 0 && !v.Unspecified {
								sidx := append([]int{}, idx...)
								sortInts(sidx)
								sp := make([]string, n)
								for j, pi := range sidx {
									sp[j] = palette[pi]
								}
								sdoc := "{" + strings.Join(sp, ",") + "}"
								got2, err2 := size.DefaultParser(sdoc, size.Rule(rule))
								if (err2 == nil) != acc || (acc && uint64(got2) != val) {
									w.Fail(c, "member-order-dependence", fmt.Sprintf("rule=%#b MaxObjectKeys=%d: %q -> (%d, accepted=%v) but the same members ordered as %q -> (%d, %v)", rule, mk, doc, val, acc, sdoc, uint64(got2), err2))
								}
							}
							if n == 3 && rule == 6 && v.Accept && w.WantSample() {
								w.Sample(c)
							}
						}
						if n <= 2 || (k%97 == 0) {
							derived(doc, mk, w, true)
						}
					}
				})
			}
		})
	}
	r.Exhaustive(fmt.Sprintf("all ordered member lists of length 0..%d over the %d-member palette x 16 rule subsets x MaxObjectKeys {16,0,1,2,3}; truncations and suffixes of all lists of length <= 2", K, np))

	// Phase H: MaxObjectKeys is a setting: the same document is parsed again right after the limit was lowered / raised / disabled.
	r.Phase("H: histories - the same object re-parsed while MaxObjectKeys changes between the calls", func() {
		r.Serial(func(w *vkit.W) {
			good := []string{`"value":1`, `"unit":"kB"`, `"x":1`, `"y":{"value":9,"unit":"MB"}`, `"VALUE":3`, `"Unit":"KiB"`, `"z":[1,2]`}
			var docs []string
			for a := range good {
				for b := range good {
					if a == b {
						continue
					}
					docs = append(docs, "{"+good[a]+","+good[b]+"}")
					for c := range good {
						if c != a && c != b {
							docs = append(docs, "{"+good[a]+","+good[b]+","+good[c]+"}")
						}
					}
				}
			}
			for _, doc := range docs {
				for _, rule := range []int{6, 4, 14} {
					for _, mk := range []int{0, 16, 2, 1, 3, 2, 0, 1} {
						restore := configure(mk)
						judge(Case{Input: vkit.B(doc), Rule: rule, MaxKeys: mk}, w)
						w.EvalRandom(vkit.Hash64(doc, strconv.Itoa(rule), strconv.Itoa(mk), "h"), true)
						restore()
					}
				}
			}
		})
	})

	// Phase H2: long documents whose end falls on and around typical buffer sizes (512, 1024, 4096 bytes), each followed by
	// nothing / white space / trailing data. MaxInputLength is disabled in this check.
	r.Phase("H2: objects, strings and numbers padded to lengths around 512, 1024, 2048 and 4096 bytes, with and without trailing data", func() {
		defer configure(0)()
		var docs []string
		for _, target := range []int{500, 509, 510, 511, 512, 513, 514, 515, 520, 1022, 1023, 1024, 1025, 1026, 2047, 2048, 2049, 4094, 4095, 4096, 4097, 4098} {
			core := `{"value":3,"unit":"KiB"}`
			if target > len(core)+12 {
				pad := target - len(core)
				docs = append(docs,
					strings.Repeat(" ", pad)+core,                               // leading white space
					core[:1]+strings.Repeat(" ", pad)+core[1:],                  // white space inside
					core[:len(core)-1]+`,"p":"`+strings.Repeat("x", pad-7)+`"}`, // a long unknown member
					`{"p":"`+strings.Repeat("x", pad-7)+`",`+core[1:],           // ... in front
					core+strings.Repeat(" ", pad),                               // trailing white space up to the boundary
					`"`+strings.Repeat(" ", target-8)+`3 KiB"`,                  // string form
					strings.Repeat(" ", target-4)+`3072`,                        // number form
				)
			}
		}
		r.Parallel(int64(len(docs)), 1, func(w *vkit.W, lo, hi int64) {
			for i := lo; i < hi; i++ {
				for _, sfx := range []string{"", " ", "x", " 1", "}", "]", ",", "{}", `,"unit":"B"}`, "\n\n", " null"} {
					for _, rule := range []int{6, 14, 2, 4} {
						c := Case{Input: vkit.B(docs[i] + sfx), Rule: rule, MaxKeys: 0}
						judge(c, w)
						w.EvalRandom(vkit.Hash64(docs[i], sfx, strconv.Itoa(rule)), true)
					}
				}
			}
		})
	})

	// Phase H3: very many distinct member names in one process, then the ordinary documents again.
	r.Phase("H3: 3000 objects with distinct unknown member names and key spellings, interleaved with ordinary documents", func() {
		defer configure(0)()
		r.Serial(func(w *vkit.W) {
			plain := []string{`{"value":3,"unit":"KiB"}`, `{"unit":"kB","value":2}`, `{"VALUE":1,"Unit":"B"}`, `{"value":1}`, `{"unit":"B"}`, `{"valuex":1,"unit":"B","value":7}`}
			for i := 0; i < 3000; i++ {
				k1, k2 := "k"+strconv.Itoa(i), strings.ToUpper("key")+strconv.Itoa(i*7919)
				spell := []byte("value")
				for b := 0; b < 5; b++ {
					if i>>uint(b)&1 == 1 {
						spell[b] -= 32
					}
				}
				doc := `{"` + k1 + `":1,"` + string(spell) + `":` + strconv.Itoa(i%50) + `,"` + k2 + `":[{"value":2}],"uNIt":"B","unit` + strconv.Itoa(i) + `":"x"}`
				judge(Case{Input: vkit.B(doc), Rule: 6, MaxKeys: 0}, w)
				w.EvalRandom(vkit.Hash64(doc), true)
				if i%3 == 0 {
					for _, p := range plain {
						for _, rule := range []int{6, 14} {
							judge(Case{Input: vkit.B(p), Rule: rule, MaxKeys: 0}, w)
							w.EvalRandom(vkit.Hash64(p, strconv.Itoa(rule), strconv.Itoa(i)), true)
						}
					}
				}
			}
		})
	})

	// Phase H4: unknown members "of any nesting": arrays, objects and mixed nests of depth 1..5000 in every position.
	r.Phase("H4: unknown members nested 1..5000 levels deep (arrays, objects, mixed), before / between / after value and unit", func() {
		defer configure(0)()
		depths := []int{1, 2, 5, 8, 15, 16, 17, 31, 32, 33, 34, 63, 64, 65, 100, 127, 128, 129, 255, 256, 257, 500, 1000, 1024, 2500, 5000}
		r.Parallel(int64(len(depths)), 1, func(w *vkit.W, lo, hi int64) {
			for i := lo; i < hi; i++ {
				d := depths[i]
				nests := []string{
					strings.Repeat("[", d) + strings.Repeat("]", d),
					strings.Repeat("[", d) + `1,"unit"` + strings.Repeat("]", d),
					strings.Repeat(`{"value":`, d) + "1" + strings.Repeat("}", d),
					strings.Repeat(`[{"unit":`, d) + `"kB"` + strings.Repeat("}]", d),
					strings.Repeat(`{"a":[`, d) + strings.Repeat("]}", d),
				}
				for _, nest := range nests {
					for _, doc := range []string{
						`{"x":` + nest + `,"value":3,"unit":"KiB"}`,
						`{"value":3,"x":` + nest + `,"unit":"KiB"}`,
						`{"value":3,"unit":"KiB","x":` + nest + `}`,
						`{"x":` + nest + `,"value":3,"y":` + nest + `,"unit":"KiB"}`,
						`{"x":` + nest + `}`,
						`{"value":` + nest + `,"unit":"KiB"}`,
						`{"x":` + nest[:len(nest)-1] + `,"value":3,"unit":"KiB"}`,
					} {
						for _, rule := range []int{6, 14, 4, 2} {
							judge(Case{Input: vkit.B(doc), Rule: rule, MaxKeys: 0}, w)
							w.EvalRandom(vkit.Hash64(doc, strconv.Itoa(rule)), true)
						}
					}
				}
			}
		})
	})

	r.ColdPhase(coldFirst)

	// Phase U: Size.UnmarshalJSON reads under the package-level DefaultRule: every rule word is installed there in turn.
	r.Phase("U: Size.UnmarshalJSON and json.Unmarshal with every rule word installed as DefaultRule x MaxObjectKeys {16, 1, 2}", func() {
		old := size.DefaultRule
		defer func() { size.DefaultRule = old }()
		docs := []string{`{"value":3,"unit":"KiB"}`, `{"unit":"kB","value":2}`, `{"value":1,"unit":"B","x":1}`, `{"x":[1,{"y":2}],"VALUE":1,"Unit":"B"}`, `{"value":1}`, `{"unit":"B"}`, `{"value":1,"value":2,"unit":"B"}`,
			`"1 kB"`, `"10"`, `"x"`, "10", "1.5", "-1", "null", "true", "[]", `{"value":1,"unit":"kB"} x`, `{"value":1,"unit":"kB"`, "", " 7 ", `{}`, `{"value":0,"unit":"ZB"}`, `"1 KiB" `}
		for rule := 0; rule < 16; rule++ {
			size.DefaultRule = size.Rule(rule)
			for _, mk := range []int{16, 1, 2} {
				restore := configure(mk)
				r.Serial(func(w *vkit.W) {
					for _, doc := range docs {
						c := Case{Input: vkit.B(doc), Rule: rule, MaxKeys: mk}
						v := Judge([]byte(doc), size.Rule(rule), mk)
						if v.Unspecified || v.Either {
							continue
						}
						for _, path := range []string{"UnmarshalJSON", "json.Unmarshal"} {
							s := size.Size(4242)
							var err error
							vkit.Panics(func() {})
							if path == "UnmarshalJSON" {
								err = s.UnmarshalJSON(w.Scratch(doc))
							} else if json.Valid([]byte(doc)) && doc != "null" {
								err = json.Unmarshal([]byte(doc), &s)
							} else {
								continue
							}
							switch {
							case err == nil && !v.Accept:
								w.Fail(c, "invalid-input-accepted", fmt.Sprintf("%s(%q) with DefaultRule=%#b, MaxObjectKeys=%d = %d; oracle refuses: %s %v", path, doc, rule, mk, uint64(s), v.Reason, v.Faults))
							case err == nil && uint64(s) != v.Value:
								w.Fail(c, "wrong-value", fmt.Sprintf("%s(%q) with DefaultRule=%#b = %d, the decoded form gives %d", path, doc, rule, uint64(s), v.Value))
							case err != nil && v.Accept:
								w.Fail(c, "valid-input-rejected", fmt.Sprintf("%s(%q) with DefaultRule=%#b, MaxObjectKeys=%d: oracle accepts with %d (%s), library error %v", path, doc, rule, mk, v.Value, v.Reason, err))
							case err != nil && s != 4242:
								w.Fail(c, "receiver-changed-on-error", fmt.Sprintf("%s(%q) with DefaultRule=%#b: error %v, receiver %d", path, doc, rule, err, uint64(s)))
							}
						}
						w.EvalRandom(vkit.Hash64("U", doc, strconv.Itoa(rule), strconv.Itoa(mk)), true)
					}
				})
				restore()
			}
		}
	})

	// Phase B: top-level scalars and strings x 16 rules
	r.Phase("B: numbers, strings (with escapes), literals, arrays x 16 rules + truncations/suffixes", func() {
		defer configure(16)()
		tops := []string{"0", "10", "18446744073709551615", "18446744073709551616", "-1", "-0", "1.5", "1.0", "1e3", "1E3", "1e-1", "10e400", "0.000e9", "01", "1_000", " 10 ", "\t10\n",
			`"10"`, `"1 kB"`, `"1 kB"`, `"1\u00a0000 KiB"`, `"1 000 KiB"`, `"1_0"`, `"1_"`, `"16 EiB"`, `"15 EiB"`, `"1 kb"`, `""`, `" "`, `"\n1"`, `"1\n"`, `"1"`, `"1 B  "`, `"0 YiB"`, `"1 ZB"`, `"-1"`, `"1e3"`, `"x"`, `"\ud800"`, "\"1\xff\"",
			// escapes of other string syntaxes (Go, C, JavaScript) are not JSON
			`"\x31\x30"`, `"\061"`, `"1\x20KiB"`, `"\U00000031 kB"`, `"\a1"`, `"1\v"`, `"\0"`, `'1'`, "`1`", `"\u{31}"`, `"1\
"`,
			"true", "false", "null", "[]", "[10]", `["1kB"]`, "{}", `{"value":1,"unit":"kB"}`, ` { "value" : 1 , "unit" : "kB" } `, `{"unit":"kB","value":1}`, "{\"value\":1,\"unit\":\"kB\"}\n", `{"value":1,"unit":"kB"} `,
			`{"value":2,"unit":"MiB"}`, `{"value":2,"UNIT":"GiB","extra":{"value":[1,2,{"unit":null}]}}`, `{"unİt":"kB","value":1}`, `{"VALUE":1,"unit":"kB","value":2}`, "10 xyz", "10kB", `"1kB" x`, `{"value":1,"unit":"kB"`, `{"value":1,"unit":"kB"]`, `{"value":1,"unit":"kB"}}`, `{"value":1,"unit":"kB",}`, `{"value":1 "unit":"kB"}`, `{"value":1,"unit":"kB"}{"value":2,"unit":"kB"}`}
		r.Parallel(int64(len(tops)), 1, func(w *vkit.W, lo, hi int64) {
			for i := lo; i < hi; i++ {
				for rule := 0; rule < 16; rule++ {
					judge(Case{Input: vkit.B(tops[i]), Rule: rule, MaxKeys: 16}, w)
					w.Eval(nontrivialInput(tops[i]))
				}
				derived(tops[i], 16, w, true)
			}
		})
	})

	// Phase C: rapid document generator (escapes, whitespace, nesting to depth 4, key-case variants, duplicates,
	// type confusions, member counts around MaxObjectKeys) -> permutations, truncations, suffixes.
	r.Phase("C: rapid documents -> all/24 permutations, truncations, suffixes x 16 rules, MaxObjectKeys drawn per document", func() {
		r.Rapid(t, "rapid-documents", 0, r.Pick(1500, 100000), func(rt *rapid.T, w *vkit.W) vkit.RapidCase {
			mk := rapid.SampledFrom(keyLimits).Draw(rt, "maxObjectKeys")
			defer configure(mk)()
			members, isObject, doc := genDoc(rt, mk)
			var first Case
			for rule := 0; rule < 16; rule++ {
				c := Case{Input: vkit.B(doc), Rule: rule, MaxKeys: mk}
				if rule == 6 {
					first = c
				}
				_, acc, val := judge(c, w)
				if isObject && rule&4 != 0 && len(members) >= 2 {
					count := 0
					check := func(p []int) {
						if count >= 24 {
							return
						}
						count++
						parts := make([]string, len(p))
						for i, j := range p {
							parts[i] = members[j]
						}
						pdoc := "{" + strings.Join(parts, ",") + "}"
						pc := Case{Input: vkit.B(pdoc), Rule: rule, MaxKeys: mk}
						_, acc2, val2 := judge(pc, w)
						if acc2 != acc || (acc && val2 != val) {
							w.Fail(pc, "member-order-dependence", fmt.Sprintf("rule=%#b MaxObjectKeys=%d: %q -> (%d, accepted=%v) but permutation %q -> (%d, accepted=%v)", rule, mk, doc, val, acc, pdoc, val2, acc2))
						}
					}
					if len(members) <= 4 {
						permutations(len(members), check)
					} else {
						for k := 0; k < 8; k++ {
							p := rapid.Permutation(indices(len(members))).Draw(rt, "perm")
							check(p)
						}
					}
				}
			}
			if len(doc) < 160 {
				derived(doc, mk, w, true)
			}
			if isObject {
				w.Class(fmt.Sprintf("C_object_members_%s", bucket(len(members), mk)))
			} else {
				w.Class("C_non_object")
			}
			return vkit.RapidCase{Case: first, Hash: vkit.Hash64(doc, strconv.Itoa(mk)), NT: nontrivialInput(doc)}
		})
	})
}

func bucket(n, mk int) string {
	switch {
	case mk != 0 && n > mk:
		return "over_limit"
	case mk != 0 && n == mk:
		return "at_limit"
	case n >= 2:
		return "2plus"
	}
	return "0_1"
}

func indices(n int) []int {
	p := make([]int, n)
	for i := range p {
		p[i] = i
	}
	return p
}

func sortInts(a []int) {
	for i := 1; i < len(a); i++ {
		for j := i; j > 0 && a[j-1] > a[j]; j-- {
			a[j-1], a[j] = a[j], a[j-1]
		}
	}
}

// ---- rapid document generator ------------------------------------------------

func jsonString(rt *rapid.T, s string) string {
	// encode s as a JSON string, escaping some characters as \uXXXX at random
	var b strings.Builder
	b.WriteByte('"')
	for _, r := range s {
		switch {
		case r == '"' || r == '\\':
			b.WriteByte('\\')
			b.WriteRune(r)
		case r < 0x20:
			fmt.Fprintf(&b, `\u%04x`, r)
		case r < 0x10000 && rapid.IntRange(0, 5).Draw(rt, "esc") == 0:
			fmt.Fprintf(&b, `\u%04x`, r)
		default:
			b.WriteRune(r)
		}
	}
	b.WriteByte('"')
	return b.String()
}

func ws(rt *rapid.T) string {
	return rapid.SampledFrom([]string{"", "", "", " ", "\n", "\t ", "\r\n"}).Draw(rt, "ws")
}

func genNumber(rt *rapid.T) string {
	switch rapid.IntRange(0, 9).Draw(rt, "numKind") {
	case 0:
		return rapid.SampledFrom([]string{"-1", "-0", "1.5", "1.0", "1e3", "2E2", "1e-1", "0.5e1", "18446744073709551616", "99999999999999999999999", "1e400"}).Draw(rt, "oddNum")
	case 1:
		return rapid.SampledFrom([]string{"18446744073709551615", "18446744073709552", "18014398509481984", "16", "17", "0"}).Draw(rt, "edgeNum")
	default:
		return strconv.FormatUint(rapid.Uint64().Draw(rt, "n")>>uint(rapid.IntRange(0, 63).Draw(rt, "shr")), 10)
	}
}

func genTextContent(rt *rapid.T) string {
	n := genNumber(rt)
	if rapid.Bool().Draw(rt, "sepDigits") && len(n) > 3 {
		sep := rapid.SampledFrom([]string{" ", "_", "\u00a0"}).Draw(rt, "digitSep")
		n = n[:len(n)-3] + sep + n[len(n)-3:]
	}
	u := rapid.SampledFrom([]string{"", "", "B", "kB", "MB", "GB", "TB", "PB", "EB", "ZB", "KiB", "MiB", "GiB", "TiB", "PiB", "EiB", "YiB", "kb", "KB", "x"}).Draw(rt, "unit")
	return rapid.SampledFrom([]string{"", " "}).Draw(rt, "lead") + n + rapid.SampledFrom([]string{"", " ", "_", "\u00a0", "  "}).Draw(rt, "unitSep") + u + rapid.SampledFrom([]string{"", " ", "  "}).Draw(rt, "trail")
}

func genNested(rt *rapid.T, depth int) string {
	if depth <= 0 {
		return rapid.SampledFrom([]string{"1", `"s"`, "null", "true", "[]", "{}"}).Draw(rt, "leaf")
	}
	switch rapid.IntRange(0, 3).Draw(rt, "nestKind") {
	case 0:
		n := rapid.IntRange(0, 3).Draw(rt, "arrLen")
		parts := make([]string, n)
		for i := range parts {
			parts[i] = genNested(rt, depth-1)
		}
		return "[" + strings.Join(parts, ",") + "]"
	case 1:
		n := rapid.IntRange(0, 3).Draw(rt, "objLen")
		parts := make([]string, n)
		for i := range parts {
			k := rapid.SampledFrom([]string{"value", "unit", "a", "b", ""}).Draw(rt, "nestedKey")
			parts[i] = jsonString(rt, k) + ":" + genNested(rt, depth-1)
		}
		return "{" + strings.Join(parts, ",") + "}"
	default:
		return rapid.SampledFrom([]string{"1", `"kB"`, "null", "false", "1.5", `"}"`, `"]"`, `"{\"value\":1}"`}).Draw(rt, "scalar")
	}
}

func caseVariant(rt *rapid.T, key string) string {
	b := []byte(key)
	mask := rapid.IntRange(0, 1<<uint(len(b))-1).Draw(rt, "caseMask")
	if rapid.Bool().Draw(rt, "lowerKey") {
		mask = 0
	}
	for i := range b {
		if mask>>uint(i)&1 == 1 {
			b[i] -= 32
		}
	}
	return string(b)
}

func genMember(rt *rapid.T) string {
	switch rapid.IntRange(0, 9).Draw(rt, "memberKind") {
	case 0, 1, 2:
		v := genNumber(rt)
		if rapid.IntRange(0, 7).Draw(rt, "valueWrongType") == 0 {
			v = rapid.SampledFrom([]string{`"1"`, "null", "true", "[1]", `{"value":1}`}).Draw(rt, "wrongValue")
		}
		return jsonString(rt, caseVariant(rt, "value")) + ws(rt) + ":" + ws(rt) + v
	case 3, 4, 5:
		u := jsonString(rt, rapid.SampledFrom([]string{"B", "kB", "MB", "GB", "TB", "PB", "EB", "ZB", "YB", "KiB", "MiB", "GiB", "TiB", "PiB", "EiB", "ZiB", "YiB", "", "kb", "B ", "x"}).Draw(rt, "unitText"))
		if rapid.IntRange(0, 7).Draw(rt, "unitWrongType") == 0 {
			u = rapid.SampledFrom([]string{"1", "null", "false", `["kB"]`, `{"unit":"kB"}`}).Draw(rt, "wrongUnit")
		}
		return jsonString(rt, caseVariant(rt, "unit")) + ws(rt) + ":" + ws(rt) + u
	default:
		k := rapid.SampledFrom([]string{"x", "y", "", "valu", "units", "value ", " unit", "v", "comment", "Value2"}).Draw(rt, "unknownKey")
		if rapid.IntRange(0, 30).Draw(rt, "unicodeKey") == 0 {
			k = rapid.SampledFrom([]string{"unİt", "valuÉ", "ｖalue"}).Draw(rt, "foldKey")
		}
		return jsonString(rt, k) + ":" + ws(rt) + genNested(rt, rapid.IntRange(0, 4).Draw(rt, "depth"))
	}
}

// genDoc returns (members as written, whether the document is an object, the document text).
func genDoc(rt *rapid.T, mk int) ([]string, bool, string) {
	switch rapid.IntRange(0, 9).Draw(rt, "topKind") {
	case 0:
		return nil, false, ws(rt) + genNumber(rt) + ws(rt)
	case 1:
		return nil, false, ws(rt) + jsonString(rt, genTextContent(rt)) + ws(rt)
	case 2:
		return nil, false, rapid.SampledFrom([]string{"true", "false", "null", "[]", "[1]", `[{"value":1,"unit":"B"}]`}).Draw(rt, "other")
	}
	n := rapid.IntRange(0, 6).Draw(rt, "members")
	if mk != 0 && rapid.IntRange(0, 2).Draw(rt, "nearLimit") == 0 {
		n = mk + rapid.IntRange(-1, 1).Draw(rt, "limitDelta")
		if n < 0 {
			n = 0
		}
	} else if rapid.IntRange(0, 15).Draw(rt, "many") == 0 {
		n = rapid.IntRange(7, 20).Draw(rt, "manyMembers")
	}
	members := make([]string, n)
	for i := range members {
		members[i] = genMember(rt)
	}
	// make most documents complete: ensure a value and a unit member exist in half of the cases
	if n >= 2 && rapid.Bool().Draw(rt, "complete") {
		members[rapid.IntRange(0, n-1).Draw(rt, "valuePos")] = `"value":` + genNumber(rt)
		up := rapid.IntRange(0, n-1).Draw(rt, "unitPos")
		if !strings.HasPrefix(members[up], `"value":`) {
			members[up] = `"unit":` + jsonString(rt, rapid.SampledFrom([]string{"B", "kB", "KiB", "MiB", "EiB"}).Draw(rt, "goodUnit"))
		}
	}
	var b strings.Builder
	b.WriteString(ws(rt) + "{" + ws(rt))
	for i, m := range members {
		if i > 0 {
			b.WriteString(ws(rt) + "," + ws(rt))
		}
		b.WriteString(m)
	}
	b.WriteString(ws(rt) + "}" + ws(rt))
	return members, true, b.String()
}
