package c12

import (
	"encoding/json"
	"fmt"
	"os"
	"path/filepath"
	"sync"
	"testing"

	"go.lstv.dev/util/size"

	"verifharness/vkit"
)

// Native coverage-guided fuzz target (thorough tier): arbitrary bytes and a rule word go through the same oracle as the
// generated documents (json.Valid + ordered member walk + text/arithmetic rules), under MaxObjectKeys 16 and 2.

var (
	fuzzOnce sync.Once
	fuzzRun  *vkit.Run
)

func FuzzSizeJSON(f *testing.F) {
	for _, s := range []string{"10", `"1 KiB"`, `{"value":1,"unit":"KiB"}`, `{"unit":"MB","value":3,"x":[1,{"y":null}]}`, ` {"VALUE":5,"Unit":"B"} `, `{"value":1,"unit":"kB"`, `{"value":1,"unit":"kB"}}`, "10 x", `"1kB" 2`,
		`{"a":1,"b":2,"value":1,"unit":"B"}`, `{"value":1,"value":2,"unit":"B"}`, "1e3", "-0", `"1_000"`, "[1]", "null", `{"value":18446744073709551615,"unit":"kB"}`, `{"unit":"ZB","value":0}`, "1 000 kB", " 7 EiB "} {
		for _, r := range []int{6, 0, 15, 2, 4, 1} {
			f.Add([]byte(s), r)
		}
	}
	f.Fuzz(func(t *testing.T, in []byte, rule int) {
		if len(in) > 16<<10 {
			return
		}
		fuzzOnce.Do(func() { fuzzRun = vkit.Start("C12") })
		for _, mk := range []int{16, 2} {
			restore := configure(mk)
			w := fuzzRun.NewW()
			c := Case{Input: vkit.B(in), Rule: rule & 15, MaxKeys: mk}
			judge(c, w)
			restore()
			if class, detail, ok := w.FirstFailure(); ok {
				dir := os.Getenv("VERIF_REPLAY_DIR")
				if dir == "" {
					dir = "/verif/replays"
				}
				_ = os.MkdirAll(dir, 0o755)
				cj, _ := json.Marshal(c)
				path := filepath.Join(dir, fmt.Sprintf("C12-fuzz-%016x.json", vkit.Hash64(string(cj))))
				body, _ := json.MarshalIndent(map[string]any{"property": "C12", "class": class, "detail": detail, "case": json.RawMessage(cj), "found_by": "native fuzzing"}, "", " ")
				_ = os.WriteFile(path, body, 0o644)
				t.Fatalf("\nVIOLATION property=C12 replay=%s\n  class=%s\n  %s", path, class, detail)
			}
		}
		_ = size.DefaultRule
	})
}
