package c12

import (
	"testing"

	"verifharness/vkit"
)

// Native coverage-guided fuzz target (thorough tier): arbitrary bytes and a rule word go through the same oracle as the
// generated documents (json.Valid + ordered member walk + text/arithmetic rules), under MaxObjectKeys 16 and 2.

func FuzzSizeJSON(f *testing.F) {
	for _, s := range []string{"10", `"1 KiB"`, `{"value":1,"unit":"KiB"}`, `{"unit":"MB","value":3,"x":[1,{"y":null}]}`, ` {"VALUE":5,"Unit":"B"} `, `{"value":1,"unit":"kB"`, `{"value":1,"unit":"kB"}}`, "10 x", `"1kB" 2`,
		`{"a":1,"b":2,"value":1,"unit":"B"}`, `{"value":1,"value":2,"unit":"B"}`, "1e3", "-0", `"1_000"`, "[1]", "null", `{"value":18446744073709551615,"unit":"kB"}`, `{"unit":"ZB","value":0}`, "1 000 kB", " 7 EiB "} {
		for _, r := range []int{6, 0, 15, 2, 4, 1} {
			f.Add([]byte(s), r)
		}
	}
	f.Fuzz(func(t *testing.T, in []byte, rule int) {
		if len(in) > 16<<10 {
			return
		}
		for _, mk := range []int{16, 2} {
			restore := configure(mk)
			w := vkit.FuzzW("C12")
			c := Case{Input: vkit.B(in), Rule: rule & 15, MaxKeys: mk}
			judge(c, w)
			restore()
			vkit.FuzzReport(t, "C12", w, c)
		}
	})
}
