// C16: formatters append to the caller's buffer without disturbing it.
package c16

import (
	"bytes"
	"encoding/json"
	"fmt"
	"strconv"
	"strings"
	"testing"

	"go.lstv.dev/util/date"
	"go.lstv.dev/util/roman"
	"go.lstv.dev/util/sem"
	"go.lstv.dev/util/size"
	"go.lstv.dev/util/uu"
	"pgregory.net/rapid"

	"verifharness/ref"
	"verifharness/vkit"
)

// Case: one formatter call. The value is held in the fields its package uses.
type Case struct {
	Pkg    string `json:"pkg"` // date | roman | sem | size | uu | urn
	Prefix vkit.B `json:"prefix"`
	Nil    bool   `json:"nil_prefix,omitempty"` // pass a nil slice (Prefix must be empty)
	Spare  int    `json:"spare_capacity"`
	Flags  int    `json:"flags"`
	// values
	Y, M, D             int    `json:",omitempty"`
	N                   uint64 `json:",omitempty"` // roman number or size
	Major, Minor, Patch uint64 `json:",omitempty"`
	Pre, Build          string `json:",omitempty"`
	Hi, Lo              uint64 `json:",omitempty"`
	// Parsed: when set, the value is what the package's parser returns for this text handed over as []byte, and the caller's
	// buffer is the very storage that held the text (re-sliced to its first Keep bytes).
	Parsed vkit.B `json:"parsed_from,omitempty"`
	Keep   int    `json:"keep,omitempty"`
	// Settings: the case runs while every package-level setting that belongs to parsing, marshalling and comparing has an
	// unusual value (none of them is an input of DefaultFormatter).
	Settings bool `json:"unusual_settings,omitempty"`
}

// unusualSettings gives every package-level setting other than the Formatter hooks an unusual value and returns the undo.
func unusualSettings() func() {
	a1, a2, a3, a4, a5 := date.MaxInputLength, roman.MaxInputLength, sem.MaxInputLength, size.MaxInputLength, uu.MaxInputLength
	b1, b2, b3, b4, b5 := size.DefaultRule, size.MaxObjectKeys, size.DisableMarshalTextUnit, size.DisableMarshalJSONStringForm, size.DisableMarshalJSONObjectForm
	c1, c2 := roman.DefaultFormat, sem.ComparePreRelease
	date.MaxInputLength, roman.MaxInputLength, sem.MaxInputLength, size.MaxInputLength, uu.MaxInputLength = 1, 1, 1, 1, 1
	size.DefaultRule, size.MaxObjectKeys = size.RuleDisableUnit|size.RuleDisallowUnknownKeys, 1
	size.DisableMarshalTextUnit, size.DisableMarshalJSONStringForm, size.DisableMarshalJSONObjectForm = true, true, true
	roman.DefaultFormat = roman.FormatLowerCase | roman.FormatLong
	sem.ComparePreRelease = func(a, b string) int { return 0 }
	return func() {
		date.MaxInputLength, roman.MaxInputLength, sem.MaxInputLength, size.MaxInputLength, uu.MaxInputLength = a1, a2, a3, a4, a5
		size.DefaultRule, size.MaxObjectKeys, size.DisableMarshalTextUnit, size.DisableMarshalJSONStringForm, size.DisableMarshalJSONObjectForm = b1, b2, b3, b4, b5
		roman.DefaultFormat, sem.ComparePreRelease = c1, c2
	}
}

// judgeParsed: a value parsed from a caller's byte slice is formatted into that same storage (a program that normalises a text
// in place does exactly this). The value must be independent of the bytes it was read from.
func judgeParsed(c Case, w *vkit.W) {
	text := string(c.Parsed)
	storage := make([]byte, len(text), len(text)+c.Spare)
	copy(storage, text)
	var format func(buf []byte) ([]byte, error)
	switch c.Pkg {
	case "date":
		v, err := date.DefaultParser(storage, 0)
		if err != nil {
			return
		}
		format = func(buf []byte) ([]byte, error) { return date.DefaultFormatter(buf, v, date.Format(c.Flags)) }
	case "roman":
		v, err := roman.DefaultParser(storage, 0)
		if err != nil {
			return
		}
		format = func(buf []byte) ([]byte, error) { return roman.DefaultFormatter(buf, v, roman.Format(c.Flags)) }
	case "sem":
		v, err := sem.DefaultParser(storage, 0)
		if err != nil {
			return
		}
		format = func(buf []byte) ([]byte, error) { return sem.DefaultFormatter(buf, v, sem.Format(c.Flags)) }
	case "size":
		v, err := size.DefaultParser(storage, 0)
		if err != nil {
			return
		}
		format = func(buf []byte) ([]byte, error) { return size.DefaultFormatter(buf, v, size.Format(c.Flags)) }
	case "uu":
		v, err := uu.DefaultParser(storage, 0)
		if err != nil {
			return
		}
		format = func(buf []byte) ([]byte, error) { return uu.DefaultFormatter(buf, v, uu.Format(c.Flags)) }
		// the statement's last sentence, for a value that came out of the parser a moment ago (whatever its text looked like)
		plain, perr := uu.DefaultFormatter(nil, v, 0)
		urn, uerr := uu.DefaultFormatter(nil, v, uu.FormatURN)
		if perr == nil && uerr == nil && string(urn) != "urn:uuid:"+string(plain) {
			w.Fail(c, "urn-rendering", fmt.Sprintf("ID parsed from %q: URN rendering %q, plain rendering %q", text, urn, plain))
		}
		if got, want := v.URN(), "urn:uuid:"+v.String(); got != want {
			w.Fail(c, "urn-rendering", fmt.Sprintf("ID parsed from %q: URN() = %q, String() = %q", text, got, v.String()))
		}
	default:
		panic("unknown pkg " + c.Pkg)
	}
	refOut, err := format(nil)
	if err != nil {
		w.Fail(c, "formatter-error", fmt.Sprintf("%s formatter into nil: %v", c.Pkg, err))
		return
	}
	want := text[:c.Keep] + string(refOut)
	out, err := format(storage[:c.Keep])
	if err != nil || string(out) != want {
		w.Fail(c, "not-prefix-plus-formatted", fmt.Sprintf("%s: value parsed from the bytes %q, then formatted (flags %#x) into the same storage re-sliced to [:%d] = %q, %v; want %q", c.Pkg, text, c.Flags, c.Keep, out, err, want))
	}
	if again, err := format(nil); err != nil || !bytes.Equal(again, refOut) {
		w.Fail(c, "value-changed-with-its-input", fmt.Sprintf("%s: value parsed from the bytes %q formats as %q after that storage was written over (before: %q), %v", c.Pkg, text, again, refOut, err))
	}
}

func (c Case) call(buf []byte) ([]byte, error) {
	switch c.Pkg {
	case "date":
		return date.DefaultFormatter(buf, date.New(c.Y, date.Month(c.M), c.D), date.Format(c.Flags))
	case "roman":
		return roman.DefaultFormatter(buf, roman.Number(c.N), roman.Format(c.Flags))
	case "sem":
		return sem.DefaultFormatter(buf, sem.Ver{Major: c.Major, Minor: c.Minor, Patch: c.Patch, PreRelease: c.Pre, Build: c.Build}, sem.Format(c.Flags))
	case "size":
		return size.DefaultFormatter(buf, size.Size(c.N), size.Format(c.Flags))
	case "uu":
		return uu.DefaultFormatter(buf, uu.ID{Higher: c.Hi, Lower: c.Lo}, uu.Format(c.Flags))
	}
	panic("unknown pkg " + c.Pkg)
}

const tailFill = 0xEE

func judge(c Case, w *vkit.W) {
	defer func() {
		if p := recover(); p != nil {
			w.Fail(c, "panic", vkit.PanicDetail(p))
		}
	}()
	if c.Pkg == "urn" {
		id := uu.ID{Higher: c.Hi, Lower: c.Lo}
		if got, want := id.URN(), "urn:uuid:"+id.String(); got != want {
			w.Fail(c, "urn-rendering", fmt.Sprintf("URN() = %q, want %q", got, want))
		}
		return
	}
	if c.Settings {
		defer unusualSettings()()
	}
	if c.Parsed != "" {
		judgeParsed(c, w)
		return
	}
	if w.Flip() {
		// the first formatting of this value in the process goes into a buffer that already holds other text
		_, _ = c.call([]byte("earlier text "))
		// other corners of the library are in use meanwhile: errors of every package are turned into text
		if _, err := roman.DefaultParser("IIX", 0); err != nil {
			_ = err.Error()
		}
		if _, err := sem.Parse("1.2"); err != nil {
			_ = err.Error()
		}
		if _, err := size.DefaultParser("1 xB", 0); err != nil {
			_ = err.Error()
		}
		if _, err := date.DefaultParser("2023-02-29", 0); err != nil {
			_ = err.Error()
		}
		if _, err := uu.DefaultParser("zz", 0); err != nil {
			_ = err.Error()
		}
	}
	refOut, err := c.call(nil)
	if err != nil {
		// the statement compares with "the bytes produced when formatting into an empty buffer": where that fails there is
		// nothing to compare with (whether a value can be formatted at all is the business of C01, C02, C05, C13)
		w.Class("info_formatter_error_on_empty_buffer")
		return
	}
	refCopy := append([]byte{}, refOut...)
	// between the two renderings of this value the previous case's value is rendered once more (a history A, B, A):
	// programs alternate between a few values all the time
	if prev, ok := w.Prev.(Case); ok && prev.Pkg != "urn" && prev.Parsed == "" && prev.Settings == c.Settings && w.Flip() {
		_, _ = prev.call([]byte("between: "))
	}
	w.Prev = c
	if c.Pkg == "sem" {
		want := ref.SemText(c.Major, c.Minor, c.Patch, c.Pre, c.Build)
		if c.Flags&int(sem.FormatTag) != 0 {
			want = "v" + want
		}
		if string(refOut) != want {
			w.Fail(c, "not-the-value's-own-text", fmt.Sprintf("sem formatter(nil, %+v, flags=%#x) = %q, want %q", sem.Ver{Major: c.Major, Minor: c.Minor, Patch: c.Patch, PreRelease: c.Pre, Build: c.Build}, c.Flags, refOut, want))
		}
	}
	prefix := []byte(c.Prefix)
	backing := make([]byte, len(prefix)+c.Spare)
	copy(backing, prefix)
	for i := len(prefix); i < len(backing); i++ {
		backing[i] = tailFill
	}
	var buf []byte
	if !(c.Nil && len(prefix) == 0 && c.Spare == 0) {
		buf = backing[:len(prefix)]
	}
	out, err := c.call(buf)
	if err != nil {
		w.Fail(c, "formatter-error", fmt.Sprintf("%s formatter into prefix %q: %v", c.Pkg, prefix, err))
		return
	}
	want := append(append([]byte{}, prefix...), refCopy...)
	if !bytes.Equal(out, want) {
		w.Fail(c, "not-prefix-plus-formatted", fmt.Sprintf("%s formatter(prefix=%q, spare=%d, flags=%#x) = %q, want prefix followed by %q", c.Pkg, prefix, c.Spare, c.Flags, out, refCopy))
	}
	if !bytes.Equal(backing[:len(prefix)], prefix) {
		w.Fail(c, "caller-bytes-modified", fmt.Sprintf("%s formatter(prefix=%q, spare=%d, flags=%#x) rewrote the caller's bytes in place: %q", c.Pkg, prefix, c.Spare, c.Flags, backing[:len(prefix)]))
	}
	if !bytes.Equal(refOut, refCopy) {
		w.Fail(c, "earlier-result-modified", fmt.Sprintf("%s: the result of the first call changed during the second call: %q -> %q", c.Pkg, refCopy, refOut))
	}
	// the returned bytes belong to the caller: after it overwrote them, formatting again must give the same text
	for i := range refOut {
		refOut[i] = '#'
	}
	for i := range out {
		out[i] = '#'
	}
	if again, err := c.call(nil); err != nil || !bytes.Equal(again, refCopy) {
		w.Fail(c, "result-storage-shared", fmt.Sprintf("%s formatter: after the caller overwrote an earlier result, formatting into nil gives %q, %v; want %q", c.Pkg, again, err, refCopy))
	}
	if again, err := c.call(make([]byte, 0, 8)); err != nil || !bytes.Equal(again, refCopy) {
		w.Fail(c, "result-storage-shared", fmt.Sprintf("%s formatter: after the caller overwrote an earlier result, formatting into an empty buffer gives %q, %v; want %q", c.Pkg, again, err, refCopy))
	}
}

var alphabets = map[string]string{
	"date":  "0123456789-",
	"roman": "MDCLXVImdclxvi",
	"sem":   "0123456789.-+vabrc",
	"size":  "0123456789 &nbsp;KMGTPEiB",
	"uu":    "0123456789abcdefurn:id-",
}

func nontrivial(c Case) bool {
	return len(c.Prefix) > 0 && strings.ContainsAny(string(c.Prefix), alphabets[c.Pkg])
}

func prefixes(pkg string, full bool) []string {
	ps := []string{"", "AB", "x", "\x00", "\xff\xfe", "urn:uuid:", "MIX:", "MDCLXVI mdclxvi ", "v1.2.3-", "10 000 KiB&nbsp;", "2022-01-01,", "0123456789abcdefABCDEF-",
		strings.Repeat("M", 33), strings.Repeat("9", 40), alphabets[pkg], alphabets[pkg] + alphabets[pkg]}
	if full {
		for v := 0; v < 256; v++ {
			ps = append(ps, string([]byte{byte(v)}), "I"+string([]byte{byte(v)})+"0")
		}
	}
	return ps
}

var spares = []int{0, 1, 2, 3, 5, 7, 8, 9, 10, 11, 13, 16, 31, 32, 35, 36, 37, 40, 44, 45, 46, 64, 4200}

func values(pkg string) []Case {
	var cs []Case
	switch pkg {
	case "date":
		for _, d := range [][3]int{{9998, 12, 31}, {10000, 1, 1}, {10001, 1, 1}, {999, 1, 1}, {1000, 1, 1}, {99999, 12, 31}, {100000, 1, 1}, {-9999, 1, 1}, {-10000, 1, 1}, {1, 1, 1}, {0, 1, 1}, {2022, 8, 7}, {9999, 12, 31}, {2000, 2, 29}, {12345, 6, 7}, {999999999, 12, 31}, {-1, 1, 1}, {-400, 3, 1}, {100, 10, 10}} {
			cs = append(cs, Case{Pkg: pkg, Y: d[0], M: d[1], D: d[2]})
		}
	case "roman":
		for _, n := range []uint64{0, 1, 4, 9, 14, 40, 49, 90, 99, 400, 444, 499, 900, 949, 999, 1666, 1994, 3999, 4000, 4999, 15749, 32000, 64949, 129999, 4095999, 4096000, 4096001, 5000004} {
			cs = append(cs, Case{Pkg: pkg, N: n})
		}
	case "sem":
		max := ^uint64(0)
		for _, v := range []Case{{Major: 1, Minor: 2, Patch: 3, Build: "linux.amd64"}, {Major: 1, Minor: 2, Patch: 3, Build: "darwin.arm64"}, {Major: 1, Pre: "alpha1"}, {Major: 1, Pre: "alpha01"}, {Major: 1, Pre: "alpha1", Build: "x"},
			{}, {Major: 1, Minor: 2, Patch: 3}, {Major: 1, Pre: "alpha.1"}, {Major: 1, Build: "001"}, {Major: max, Minor: max, Patch: max, Pre: "rc.1-x", Build: "b.2"},
			{Minor: 10, Pre: strings.Repeat("a", 70)}, {Pre: "é", Build: "\x00"}} {
			v.Pkg = pkg
			cs = append(cs, v)
		}
		for k, p := 1, uint64(10); k <= 19; k, p = k+1, p*10 { // every power of ten and its neighbours, in each position
			for _, x := range []uint64{p - 1, p, p + 1} {
				cs = append(cs, Case{Pkg: pkg, Major: x, Minor: 2, Patch: 3}, Case{Pkg: pkg, Major: 1, Minor: x, Patch: x, Pre: "rc"})
			}
		}
	case "size":
		for _, n := range []uint64{0, 1, 10, 999, 1000, 1023, 1024, 1025, 1234567, 1 << 20, 1<<20 + 1, 1 << 30, 1 << 40, 1 << 50, 1 << 60, 15 << 60, 1<<63 + 1, ^uint64(0), ^uint64(0) - 1023, 999999999999, 123456789012345678, 20480} {
			cs = append(cs, Case{Pkg: pkg, N: n})
		}
	case "uu":
		for _, v := range [][2]uint64{{0, 0}, {^uint64(0), ^uint64(0)}, {0x0123456789abcdef, 0xfedcba9876543210}, {1, 1 << 63}, {0xf << 60, 0xf}, {0x00000000ffff0000, 0x0000ffff00000000}} {
			cs = append(cs, Case{Pkg: pkg, Hi: v[0], Lo: v[1]})
		}
	}
	return cs
}

var flagCounts = map[string]int{"date": 2, "roman": 128, "sem": 2, "size": 4, "uu": 2}

func TestCheck(t *testing.T) {
	r := vkit.Start("C16")
	defer r.Finish(t)
	if r.Replay != "" {
		var c Case
		if err := r.LoadReplay(&c); err != nil {
			t.Fatalf("replay: %v", err)
		}
		r.Serial(func(w *vkit.W) { judge(c, w); w.Eval(true) })
		return
	}
	r.Rule("Cases are (formatter, value, flag subset, prefix bytes, spare capacity). Oracle (metamorphic): output == prefix || formatter(nil, value, flags), the caller's backing array [0:len(prefix)) is unchanged, no error, and the first result is not modified by the second call. " +
		"Non-trivial: non-empty prefix containing at least one byte the formatter itself emits. Distinct by construction (grid) or by hash (rapid).")
	r.Regress(func(raw json.RawMessage, w *vkit.W) error {
		var c Case
		if err := json.Unmarshal(raw, &c); err != nil {
			return err
		}
		judge(c, w)
		w.Eval(true)
		return nil
	})

	for _, pkg := range []string{"date", "roman", "sem", "size", "uu"} {
		pkg := pkg
		vals := values(pkg)
		nf := flagCounts[pkg]
		r.Phase("grid: "+pkg, func() {
			r.Parallel(int64(len(vals)*nf), 1, func(w *vkit.W, lo, hi int64) {
				for i := lo; i < hi; i++ {
					base := vals[int(i)/nf]
					base.Flags = int(i) % nf
					if pkg == "sem" { // flags outer, values inner: consecutive versions are formatted with the same flags
						base = vals[int(i)%len(vals)]
						base.Flags = int(i) / len(vals)
					}
					full := nf <= 4 || base.Flags == 0 || base.Flags == 64 || base.Flags == 63 || base.Flags == 127 || r.Thorough()
					for _, p := range prefixes(pkg, full) {
						for _, sp := range spares {
							c := base
							c.Prefix, c.Spare = vkit.B(p), sp
							judge(c, w)
							w.Eval(nontrivial(c))
							if p == "" && sp == 0 {
								c.Nil = true
								judge(c, w)
								w.Eval(false)
							}
						}
					}
					if w.WantSample() {
						s := base
						s.Prefix, s.Spare = "MIX:", 16
						w.Sample(s)
					}
				}
			})
		})
	}
	r.Exhaustive("grid of boundary values x every flag subset (date 2, roman 128, sem 2, size 4, uu 2) x prefix list (every single byte value for the listed flag subsets) x 23 spare capacities")

	// Phase "fit": spare capacities chosen relative to the length L of the value's own text - the caller's buffer is a few bytes
	// short of the text, exactly large enough, a few bytes larger, or has room for two - where a formatter that writes in place
	// has to decide whether the text fits.
	for _, pkg := range []string{"date", "roman", "sem", "size", "uu"} {
		pkg := pkg
		vals := values(pkg)
		nf := flagCounts[pkg]
		r.Phase("fit: "+pkg+": spare capacity L-3..L+3, 2L-1..2L+1, L+64 (L = length of the value's own text) x boundary values x flag words x 3 prefixes", func() {
			r.Parallel(int64(len(vals)*nf), 1, func(w *vkit.W, lo, hi int64) {
				for i := lo; i < hi; i++ {
					base := vals[int(i)/nf]
					base.Flags = int(i) % nf
					if nf > 4 && !(base.Flags == 0 || base.Flags == 64 || base.Flags == 63 || base.Flags == 127 || base.Flags%17 == 1 || r.Thorough()) {
						continue
					}
					own, err := base.call(nil)
					if err != nil {
						continue
					}
					L := len(own)
					for _, p := range []string{"", "x=", "0123456789abcdef0123456789abcdef"} {
						for _, sp := range []int{L - 3, L - 2, L - 1, L, L + 1, L + 2, L + 3, 2*L - 1, 2 * L, 2*L + 1, L + 64} {
							if sp < 0 {
								continue
							}
							c := base
							c.Prefix, c.Spare = vkit.B(p), sp
							judge(c, w)
							w.EvalRandom(vkit.Hash64("fit", pkg, strconv.Itoa(int(i)), p, strconv.Itoa(sp)), nontrivial(c))
						}
					}
				}
			})
		})
	}

	r.Phase("parsed: values parsed from a byte slice and formatted into that same storage (every keep length, several spare capacities, every flag word)", func() {
		texts := map[string][]string{
			"date":  {"2022-08-07", "20220807", "0001-01-01", "123456789-12-31", "9999-12-31"},
			"roman": {"MCMXCIV", "mdclxvi", "IIII", "MMMMMMMMMMMMMMMMMMMMCDXLIV", ""},
			"sem":   {"v1.2.3-alpha+build", "1.2.3-alpha.1+build.5", "10.20.30-rc.1", "1.0.0+21AF26D3----117B344092BD", "v18446744073709551615.0.0-x-y-z.--", "0.0.0"},
			"size":  {"1 000 kB", "20KiB", "18446744073709551615", "7 EiB", "1_024"},
			"uu":    {"123e4567-e89b-12d3-a456-426614174000", "123E4567-E89B-12D3-A456-426614174000", "123e4567-E89B-12d3-A456-426614174AbC", "urn:uuid:123E4567-E89B-12D3-A456-426614174000", "ffffffff-ffff-ffff-ffff-ffffffffffff"},
		}
		for _, pkg := range []string{"date", "roman", "sem", "size", "uu"} {
			pkg := pkg
			r.Serial(func(w *vkit.W) {
				for _, text := range texts[pkg] {
					for keep := 0; keep <= len(text); keep++ {
						for _, spare := range []int{0, 1, 8, 64} {
							for flags := 0; flags < flagCounts[pkg]; flags += 1 + flagCounts[pkg]/8 {
								c := Case{Pkg: pkg, Parsed: vkit.B(text), Keep: keep, Spare: spare, Flags: flags}
								if text == "" {
									continue
								}
								judge(c, w)
								w.EvalRandom(vkit.Hash64("parsed", pkg, text, strconv.Itoa(keep), strconv.Itoa(spare), strconv.Itoa(flags)), true)
							}
						}
					}
				}
			})
		}
	})

	r.Phase("settings: boundary values x every flag word x 6 prefixes x 4 spare capacities while all parsing / marshalling / comparing settings have unusual values", func() {
		r.Serial(func(w *vkit.W) {
			for _, pkg := range []string{"date", "roman", "sem", "size", "uu"} {
				for _, base := range values(pkg) {
					for flags := 0; flags < flagCounts[pkg]; flags++ {
						for _, p := range []string{"", "x", alphabets[pkg], "10 000 KiB&nbsp;", "urn:uuid:", "MIX:"} {
							for _, sp := range []int{0, 1, 16, 64} {
								c := base
								c.Flags, c.Prefix, c.Spare, c.Settings = flags, vkit.B(p), sp, true
								judge(c, w)
								w.EvalRandom(vkit.Hash64("settings", pkg, fmt.Sprint(base), strconv.Itoa(flags), p, strconv.Itoa(sp)), nontrivial(c))
							}
						}
					}
				}
			}
		})
	})

	r.Phase("long prefixes: 1024, 2048, 4096, 65,537 and 1,048,577 caller bytes in front (with spare capacity 0 and 4200) x boundary values x three flag words", func() {
		r.Parallel(5, 1, func(w *vkit.W, lo, hi int64) {
			for pi := lo; pi < hi; pi++ {
				pkg := []string{"date", "roman", "sem", "size", "uu"}[pi]
				for _, n := range []int{1024, 2048, 4096, 1<<16 + 1, 1<<20 + 1} {
					prefix := strings.Repeat(alphabets[pkg], n/len(alphabets[pkg])+1)[:n]
					for vi, base := range values(pkg) {
						if vi%3 != 0 && n > 1<<16+1 && pkg != "roman" {
							continue
						}
						for _, flags := range []int{0, flagCounts[pkg] - 1, flagCounts[pkg] / 2} {
							for _, sp := range []int{0, 4200} {
								c := base
								c.Flags, c.Prefix, c.Spare = flags, vkit.B(prefix), sp
								judge(c, w)
								w.EvalRandom(vkit.Hash64("long", pkg, fmt.Sprint(base), strconv.Itoa(flags), strconv.Itoa(n), strconv.Itoa(sp)), true)
							}
						}
					}
				}
			}
		})
	})

	r.Phase("urn", func() {
		r.Serial(func(w *vkit.W) {
			for i := int64(0); i < int64(r.Pick(20000, 500000)); i++ {
				g := r.Rng("urn", i)
				c := Case{Pkg: "urn", Hi: g.U64() >> uint(g.Intn(64)), Lo: g.U64() << uint(g.Intn(64))}
				judge(c, w)
				w.EvalRandom(vkit.HashU(c.Hi, c.Lo), true)
			}
		})
	})

	r.Phase("rapid: random values, prefixes, capacities, raw flag words", func() {
		r.Rapid(t, "rapid-append", 0, r.Pick(60000, 3000000), func(rt *rapid.T, w *vkit.W) vkit.RapidCase {
			pkg := rapid.SampledFrom([]string{"date", "roman", "sem", "size", "uu"}).Draw(rt, "pkg")
			c := Case{Pkg: pkg}
			alpha := []byte(alphabets[pkg])
			n := rapid.IntRange(0, 40).Draw(rt, "prefixLen")
			p := make([]byte, n)
			for i := range p {
				if rapid.Bool().Draw(rt, "own") {
					p[i] = rapid.SampledFrom(alpha).Draw(rt, "a")
				} else {
					p[i] = rapid.Byte().Draw(rt, "b")
				}
			}
			c.Prefix = vkit.B(p)
			c.Spare = rapid.IntRange(0, 64).Draw(rt, "spare")
			c.Flags = rapid.IntRange(0, flagCounts[pkg]*2-1).Draw(rt, "flags") // one undefined bit too
			switch pkg {
			case "date":
				c.Y = rapid.IntRange(-9999, 99999).Draw(rt, "y")
				c.M = rapid.IntRange(1, 12).Draw(rt, "m")
				c.D = rapid.IntRange(1, 28).Draw(rt, "d")
			case "roman":
				c.N = rapid.Uint64Range(0, 130000).Draw(rt, "n")
			case "sem":
				c.Major, c.Minor, c.Patch = rapid.Uint64().Draw(rt, "major"), rapid.Uint64().Draw(rt, "minor"), rapid.Uint64().Draw(rt, "patch")
				c.Pre = rapid.StringMatching(`[0-9a-z.-]{0,12}`).Draw(rt, "pre")
				c.Build = rapid.StringMatching(`[0-9a-z.-]{0,12}`).Draw(rt, "build")
			case "size":
				c.N = rapid.Uint64().Draw(rt, "s") >> uint(rapid.IntRange(0, 63).Draw(rt, "shift"))
				if rapid.Bool().Draw(rt, "round") {
					c.N <<= uint(rapid.IntRange(0, 6).Draw(rt, "k") * 10)
				}
			case "uu":
				c.Hi, c.Lo = rapid.Uint64().Draw(rt, "hi"), rapid.Uint64().Draw(rt, "lo")
			}
			judge(c, w)
			return vkit.RapidCase{Case: c, Hash: vkit.Hash64(pkg, string(p), fmt.Sprint(c.Spare, c.Flags, c.Y, c.M, c.D, c.N, c.Major, c.Minor, c.Patch, c.Pre, c.Build, c.Hi, c.Lo)), NT: nontrivial(c)}
		})
	})
}
