// C20: the marshal-test helpers of package test report exactly the failing cases.
package c20

import (
	"encoding/json"
	"errors"
	"fmt"
	"reflect"
	"regexp"
	"strconv"
	"strings"
	"sync"
	"sync/atomic"
	"testing"

	"go.lstv.dev/util/test"
	"pgregory.net/rapid"

	"verifharness/vkit"
)

// ---- case-list specification (serialisable, replayable) ---------------------------------------------------------

// CaseSpec describes one case and the scripted behaviour of the (un)marshaler for it.
type CaseSpec struct {
	Constraint int  `json:"constraint"` // 0 both, 1 OnlyMarshal, 2 OnlyUnmarshal
	Before     int  `json:"before"`     // 0 nil, 1 ok, 2 returns error, 3 panics
	After      int  `json:"after"`      // same
	Pred       int  `json:"pred"`       // 0 nil, 1 AnyError, 2 Error(exact), 3 ErrorHasPrefix, 4 ErrorHasSuffix, 5 ErrorMatch(valid), 6 ErrorMatch(invalid pattern), 7 ErrorMatch(first line of the error text followed by .*$: met only by one-line texts), 8 a caller's own predicate that says no without reporting anything, 9 a caller's own predicate that always says yes, 10 a caller's own predicate that reports and says no
	PredHit    bool `json:"pred_hit"`   // predicate text chosen to match (true) or to miss (false) the scripted error text
	MOut       int  `json:"m_out"`      // marshal: 0 right data, 1 wrong data, 2 nil data, 3 the right data with a line feed added at (or, with NLData, removed from) its end, 4 the same JSON value in other bytes (a space after the colon), 5 the right data with one letter in the other case
	MErr       int  `json:"m_err"`      // marshal: 0 no error, 1 error, 2 panic, 3 an error value that is a nil pointer of an error type, 4 error with a two-line text, 5 panic whose text is the same for every case and list, 6 panic with a value whose own Error method panics (only "some error" is known of the result), 7 an error that wraps another one (a missing predicate then names the text of the wrapped cause)
	UStore     int  `json:"u_store"`    // unmarshal: 0 stores the expected value, 1 stores a different value, 2 stores nothing, 3 stores the empty value (for a slice type: an empty, non-nil slice), 4 / 5 / 6 stores a value that differs from the expected one in letter case only / by a trailing space only / beyond the low 32 bits of its number only
	UErr       int  `json:"u_err"`      // unmarshal: 0 no error, 1 error, 2 panic (after storing), 3 nil-pointer error value, 4 error with a two-line text, 5 panic whose text is the same for every case and list, 6 panic with a value whose own Error method panics (only "some error" is known of the result)
	NilValue   bool `json:"nil_value"`  // pointer type only: the case's Value is a nil pointer
	EmptyData  bool `json:"empty_data"` // OnlyMarshal cases only: the expected Data is empty (the marshaler returns nil or an empty slice)
	NLData     bool `json:"nl_data"`    // the case's Data ends with a line feed (MOut 3 then returns it without one)
}

// Hook kinds: 0 nil, 1 ok, 2 returns error, 3 panics, 4 ok but overwrites the Data field of the case it is handed,
// 5 (Before only) ok and installs a failing After hook on the case it is handed, 6 (Before only) ok and removes the After hook.
const scribbled = "scribbled-by-hook"

// ListSpec is one helper invocation.
type ListSpec struct {
	Helper       string     `json:"helper"` // MarshalText UnmarshalText MarshalBinary UnmarshalBinary MarshalJSON UnmarshalJSON
	Type         string     `json:"type"`   // SV (value type), SP (pointer type), NoIface, MOnly, UOnly, PRecv (value type whose methods all have pointer receivers)
	CustomHelper bool       `json:"custom_type_helper"`
	Cases        []CaseSpec `json:"cases"`
}

// ---- scripted types -----------------------------------------------------------------------------------------------

type mScript struct {
	data  []byte
	err   error
	panic string
}
type uScript struct {
	want    string // the case's Data: the scripted unmarshaler refuses any other input, also one that differs in white space only
	store   bool
	tag     int
	payload string
	err     error
	panic   string
}

var (
	mReg    sync.Map // tag -> mScript
	uReg    sync.Map // tag -> uScript
	tagBase int64
)

func doMarshal(tag int) ([]byte, error) {
	v, ok := mReg.Load(tag)
	if !ok {
		return nil, fmt.Errorf("no marshal script for tag %d", tag)
	}
	s := v.(mScript)
	if s.panic == panicWithBrokenValue {
		panic((*brokenError)(nil))
	}
	if s.panic != "" {
		panic(s.panic)
	}
	return s.data, s.err
}

// brokenError is an error type whose Error method does not survive a nil receiver: a panic value that cannot be printed naively.
type brokenError struct{ text *string }

func (e *brokenError) Error() string { return *e.text }

const panicWithBrokenValue = "\x00panic with a value whose Error method panics"

func doUnmarshal(data []byte, set func(tag int, payload string)) error {
	tag, err := strconv.Atoi(strings.TrimSpace(strings.TrimSuffix(strings.TrimPrefix(strings.TrimSpace(string(data)), `{"u":`), "}")))
	if err != nil {
		return fmt.Errorf("bad scripted input %q", data)
	}
	v, ok := uReg.Load(tag)
	if !ok {
		return fmt.Errorf("no unmarshal script for tag %d", tag)
	}
	s := v.(uScript)
	if s.want != string(data) {
		return fmt.Errorf("the scripted unmarshaler of tag %d was handed %q, the case holds %q", tag, data, s.want)
	}
	if s.store {
		set(s.tag, s.payload)
	}
	if s.panic == panicWithBrokenValue {
		panic((*brokenError)(nil))
	}
	if s.panic != "" {
		panic(s.panic)
	}
	return s.err
}

// SV: value-receiver marshalers, pointer-receiver unmarshalers.
type SV struct {
	Tag     int
	Payload string
}

func (s SV) MarshalText() ([]byte, error)   { return doMarshal(s.Tag) }
func (s SV) MarshalBinary() ([]byte, error) { return doMarshal(s.Tag) }
func (s SV) MarshalJSON() ([]byte, error)   { return doMarshal(s.Tag) }
func (s *SV) UnmarshalText(b []byte) error {
	return doUnmarshal(b, func(t int, p string) { s.Tag, s.Payload = t, p })
}
func (s *SV) UnmarshalBinary(b []byte) error {
	return doUnmarshal(b, func(t int, p string) { s.Tag, s.Payload = t, p })
}
func (s *SV) UnmarshalJSON(b []byte) error {
	return doUnmarshal(b, func(t int, p string) { s.Tag, s.Payload = t, p })
}

// SP: used as T = *SP; every method has a pointer receiver.
type SP struct {
	Tag     int
	Payload string
}

func (s *SP) MarshalText() ([]byte, error)   { return doMarshal(s.Tag) }
func (s *SP) MarshalBinary() ([]byte, error) { return doMarshal(s.Tag) }
func (s *SP) MarshalJSON() ([]byte, error)   { return doMarshal(s.Tag) }
func (s *SP) UnmarshalText(b []byte) error {
	return doUnmarshal(b, func(t int, p string) { s.Tag, s.Payload = t, p })
}
func (s *SP) UnmarshalBinary(b []byte) error {
	return doUnmarshal(b, func(t int, p string) { s.Tag, s.Payload = t, p })
}
func (s *SP) UnmarshalJSON(b []byte) error {
	return doUnmarshal(b, func(t int, p string) { s.Tag, s.Payload = t, p })
}

// NoIface implements nothing.
type NoIface struct {
	Tag     int
	Payload string
}

// MOnly implements only the marshalers.
type MOnly struct {
	Tag     int
	Payload string
}

func (s MOnly) MarshalText() ([]byte, error)   { return doMarshal(s.Tag) }
func (s MOnly) MarshalBinary() ([]byte, error) { return doMarshal(s.Tag) }
func (s MOnly) MarshalJSON() ([]byte, error)   { return doMarshal(s.Tag) }

// UOnly implements only the unmarshalers.
type UOnly struct {
	Tag     int
	Payload string
}

func (s *UOnly) UnmarshalText(b []byte) error {
	return doUnmarshal(b, func(t int, p string) { s.Tag, s.Payload = t, p })
}
func (s *UOnly) UnmarshalBinary(b []byte) error {
	return doUnmarshal(b, func(t int, p string) { s.Tag, s.Payload = t, p })
}
func (s *UOnly) UnmarshalJSON(b []byte) error {
	return doUnmarshal(b, func(t int, p string) { s.Tag, s.Payload = t, p })
}

// PRecv is used as T = PRecv (a value type) although all its methods have pointer receivers: the value itself implements
// no marshaler (only *PRecv does), the unmarshal helpers can reach the methods through &value.
type PRecv struct {
	Tag     int
	Payload string
}

func (s *PRecv) MarshalText() ([]byte, error)   { return doMarshal(s.Tag) }
func (s *PRecv) MarshalBinary() ([]byte, error) { return doMarshal(s.Tag) }
func (s *PRecv) MarshalJSON() ([]byte, error)   { return doMarshal(s.Tag) }
func (s *PRecv) UnmarshalText(b []byte) error {
	return doUnmarshal(b, func(t int, p string) { s.Tag, s.Payload = t, p })
}
func (s *PRecv) UnmarshalBinary(b []byte) error {
	return doUnmarshal(b, func(t int, p string) { s.Tag, s.Payload = t, p })
}
func (s *PRecv) UnmarshalJSON(b []byte) error {
	return doUnmarshal(b, func(t int, p string) { s.Tag, s.Payload = t, p })
}

// TextOnly, JSONOnly and BinOnly implement one format only; Mixed marshals as JSON and unmarshals from text only. One type
// parameter then has the interface for one helper and lacks it for the next.
type TextOnly struct {
	Tag     int
	Payload string
}

func (s TextOnly) MarshalText() ([]byte, error) { return doMarshal(s.Tag) }
func (s *TextOnly) UnmarshalText(b []byte) error {
	return doUnmarshal(b, func(t int, p string) { s.Tag, s.Payload = t, p })
}

type JSONOnly struct {
	Tag     int
	Payload string
}

func (s JSONOnly) MarshalJSON() ([]byte, error) { return doMarshal(s.Tag) }
func (s *JSONOnly) UnmarshalJSON(b []byte) error {
	return doUnmarshal(b, func(t int, p string) { s.Tag, s.Payload = t, p })
}

type BinOnly struct {
	Tag     int
	Payload string
}

func (s BinOnly) MarshalBinary() ([]byte, error) { return doMarshal(s.Tag) }
func (s *BinOnly) UnmarshalBinary(b []byte) error {
	return doUnmarshal(b, func(t int, p string) { s.Tag, s.Payload = t, p })
}

type Mixed struct {
	Tag     int
	Payload string
}

func (s Mixed) MarshalJSON() ([]byte, error) { return doMarshal(s.Tag) }
func (s *Mixed) UnmarshalText(b []byte) error {
	return doUnmarshal(b, func(t int, p string) { s.Tag, s.Payload = t, p })
}

// SL is a slice-kind type: [tag, payload]; the empty value it may be left with is an empty, non-nil slice.
type SL []string

func (s SL) tag() int {
	if len(s) == 0 {
		return 0
	}
	t, _ := strconv.Atoi(s[0])
	return t
}
func (s *SL) set(t int, p string) {
	if t == 0 && p == "" {
		*s = SL{}
		return
	}
	*s = SL{strconv.Itoa(t), p}
}
func (s SL) MarshalText() ([]byte, error)    { return doMarshal(s.tag()) }
func (s SL) MarshalBinary() ([]byte, error)  { return doMarshal(s.tag()) }
func (s SL) MarshalJSON() ([]byte, error)    { return doMarshal(s.tag()) }
func (s *SL) UnmarshalText(b []byte) error   { return doUnmarshal(b, s.set) }
func (s *SL) UnmarshalBinary(b []byte) error { return doUnmarshal(b, s.set) }
func (s *SL) UnmarshalJSON(b []byte) error   { return doUnmarshal(b, s.set) }

// SP2 is a second pointer type with the same behaviour as SP: lists of the interface type Both hold both kinds.
type SP2 struct {
	Tag     int
	Payload string
}

func (s *SP2) MarshalText() ([]byte, error)   { return doMarshal(s.Tag) }
func (s *SP2) MarshalBinary() ([]byte, error) { return doMarshal(s.Tag) }
func (s *SP2) MarshalJSON() ([]byte, error)   { return doMarshal(s.Tag) }
func (s *SP2) UnmarshalText(b []byte) error {
	return doUnmarshal(b, func(t int, p string) { s.Tag, s.Payload = t, p })
}
func (s *SP2) UnmarshalBinary(b []byte) error {
	return doUnmarshal(b, func(t int, p string) { s.Tag, s.Payload = t, p })
}
func (s *SP2) UnmarshalJSON(b []byte) error {
	return doUnmarshal(b, func(t int, p string) { s.Tag, s.Payload = t, p })
}

// Both is an interface type used as T: the case values are *SP pointers held in the interface.
type Both interface {
	MarshalText() ([]byte, error)
	MarshalBinary() ([]byte, error)
	MarshalJSON() ([]byte, error)
	UnmarshalText([]byte) error
	UnmarshalBinary([]byte) error
	UnmarshalJSON([]byte) error
}

// nilErr is an error type whose nil pointer is a perfectly good (non-nil) error value.
type nilErr struct{ text string }

func (e *nilErr) Error() string {
	if e == nil {
		return "typed nil error"
	}
	return e.text
}

// ---- recording TestingT and a well-behaved custom TypeHelper --------------------------------------------------------

type recorder struct {
	errors  []string
	failNow int
}

func (r *recorder) Errorf(format string, args ...any) {
	r.errors = append(r.errors, fmt.Sprintf(format, args...))
}
func (r *recorder) FailNow()     { r.failNow++ }
func (r *recorder) Helper()      {}
func (r *recorder) failed() bool { return len(r.errors) > 0 || r.failNow > 0 }

type customHelper[T any] struct{}

func (customHelper[T]) New(value T) T {
	if t := reflect.TypeOf(value); t.Kind() == reflect.Ptr {
		return reflect.New(t.Elem()).Interface().(T)
	}
	var z T
	return z
}
func (customHelper[T]) AssertEmpty(t test.TestingT, value T, failInfo string) {
	v := reflect.ValueOf(value)
	if v.Kind() == reflect.Ptr {
		if v.IsNil() {
			return
		}
		v = v.Elem()
	}
	if k := v.Kind(); k == reflect.Slice || k == reflect.Map {
		if v.Len() == 0 {
			return
		}
	}
	if !v.IsZero() {
		t.Errorf("custom helper: value %+v is not empty: %s", value, failInfo)
	}
}
func (customHelper[T]) AssertEqual(t test.TestingT, expected, actual T, failInfo string) {
	if !reflect.DeepEqual(expected, actual) {
		t.Errorf("custom helper: %+v != %+v: %s", expected, actual, failInfo)
	}
}

// ---- model -----------------------------------------------------------------------------------------------------------

const nilDerefPrefix = "panic: runtime error: invalid memory address or nil pointer dereference"

// errInfo describes what is known about the error text of a scripted call.
type errInfo struct {
	isErr  bool
	exact  string // full text when known ("" when only a prefix is known)
	prefix string
	inner  string // the text of the error wrapped inside (kind 7): a text that is in the chain but is not the error's text
}

func marker(i int) string { return "\x01no-such-text-" + strconv.Itoa(i) + "\x02" }

// predicate builds the AssertErrorFunc of the case; its text is chosen to match (PredHit) or to miss the error described
// by e. It also returns the text, so that the model can evaluate the same predicate against any other error (evalPred).
func predicate(cs CaseSpec, idx int, e errInfo) (fn test.AssertErrorFunc, text string) {
	known := e.exact
	if known == "" {
		known = e.prefix
	}
	hit := cs.PredHit && e.isErr
	switch cs.Pred {
	case 0:
		return nil, ""
	case 1:
		return test.AnyError, ""
	case 2:
		text = "other text " + marker(idx)
		if !hit && e.inner != "" {
			text = e.inner // the text of the wrapped cause is not the text of the error
		}
		if hit && e.exact != "" {
			text = e.exact
		} else if hit && e.prefix != "" {
			text = e.prefix // a panic: the stack follows its first line, so the first line alone is never the whole text
		}
		return test.Error(text), text
	case 3:
		text = marker(idx)
		if !hit && e.inner != "" {
			text = e.inner
		}
		if hit {
			text = known
		}
		return test.ErrorHasPrefix(text), text
	case 4:
		text = marker(idx)
		if trimmed := strings.TrimRight(e.exact, "\r\n"); !hit && e.isErr && trimmed != e.exact && idx%2 == 0 {
			text = trimmed[len(trimmed)/2:] // the end of the text without its final line break is not the end of the text
		}
		if hit {
			text = ""
			if e.exact != "" {
				text = e.exact[len(e.exact)/2:]
			} else if idx%2 == 1 && e.prefix != "" {
				text = e.prefix // a panic: never a suffix, the stack follows
			}
		}
		return test.ErrorHasSuffix(text), text
	case 5:
		text = "^no-such-text-" + strconv.Itoa(idx) + "$"
		if !hit && e.inner != "" {
			text = "^" + regexp.QuoteMeta(e.inner) + "$"
		}
		if hit {
			text = "^" + regexp.QuoteMeta(known)
		}
		return test.ErrorMatch(text), text
	case 8:
		return func(test.TestingT, error, string) bool { return false }, "caller's predicate: no, silently"
	case 9:
		return func(test.TestingT, error, string) bool { return true }, "caller's predicate: yes"
	case 10:
		return func(t test.TestingT, err error, failInfo string) bool {
			t.Errorf("caller's predicate is not happy with %v: %s", err, failInfo)
			return false
		}, "caller's predicate: no, reported"
	case 7:
		line := known
		if i := strings.IndexAny(line, "\r\n"); i >= 0 {
			line = line[:i]
		}
		if !e.isErr {
			line = "no error " + strconv.Itoa(idx)
		}
		text = "^" + regexp.QuoteMeta(line) + ".*$"
		return test.ErrorMatch(text), text
	default:
		text = "(unclosed[" + strconv.Itoa(idx)
		return test.ErrorMatch(text), text
	}
}

// evalPred is the model's own reading of a predicate (kind, text) on an error described by e. For panic errors only a
// prefix of the text is known (a stack follows); the texts generated here are decidable from that prefix.
func evalPred(kind int, text string, e errInfo) bool {
	switch kind {
	case 8, 10:
		return false
	case 9:
		return true
	}
	if kind == 0 || !e.isErr {
		return false
	}
	full, partial := e.exact, e.exact == ""
	if partial {
		full = e.prefix
	}
	switch kind {
	case 1:
		return true
	case 2:
		return !partial && full == text
	case 3:
		return strings.HasPrefix(full, text)
	case 4:
		if partial {
			return text == "" // the stack that follows never ends with one of the generated texts
		}
		return strings.HasSuffix(full, text)
	case 5:
		ok, err := regexp.MatchString(text, full)
		return err == nil && ok
	case 7:
		if partial {
			// a panic error: a line break and the stack follow the known prefix, and "." does not match a line break
			ok, err := regexp.MatchString(text, full+"\ngoroutine 1 [running]:\n")
			return err == nil && ok
		}
		ok, err := regexp.MatchString(text, full)
		return err == nil && ok
	}
	return false
}

// silentNonMatch is the matcher of finding F10/K1: ErrorMatch with a valid pattern that does not match a non-nil error.
func silentNonMatch(cs CaseSpec, text string, e errInfo) bool {
	return (cs.Pred == 5 || cs.Pred == 7) && e.isErr && !evalPred(cs.Pred, text, e)
}

type caseModel struct {
	applicable  bool
	unsatisfied bool
	silent      bool // unsatisfied only through the silent ErrorMatch non-match
}

// eol: the multi-line error texts of odd tags end with a line break (as texts with a stack trace or a wrapped command's output
// do); a predicate is about the text as it is, line break included.
func eol(tag int, br string) string {
	if tag%2 == 1 {
		return br
	}
	return ""
}

func hookFails(h int) bool { return h == 2 || h == 3 }

// effectiveAfter is the After hook that runs for the case: a Before hook of kind 5/6 replaces it for this run.
func effectiveAfter(cs CaseSpec) int {
	switch cs.Before {
	case 5:
		return 2
	case 6:
		return 0
	}
	return cs.After
}

// errOf describes the error the scripted call of the given direction produces for the case.
func errOf(cs CaseSpec, marshal bool, tag int) errInfo {
	t := strconv.Itoa(tag)
	if marshal {
		switch {
		case cs.NilValue:
			return errInfo{isErr: true, prefix: nilDerefPrefix}
		case cs.MErr == 1:
			return errInfo{isErr: true, exact: "boom 100%s " + t, prefix: "boom 100%s " + t}
		case cs.MErr == 2:
			return errInfo{isErr: true, prefix: "panic: pboom 100%d %v " + t + "\n"}
		case cs.MErr == 3:
			return errInfo{isErr: true, exact: "typed nil error", prefix: "typed nil error"}
		case cs.MErr == 4:
			return errInfo{isErr: true, exact: "boom line one " + t + "\nline two." + eol(tag, "\n"), prefix: "boom line one " + t + "\nline two." + eol(tag, "\n")}
		case cs.MErr == 5:
			return errInfo{isErr: true, prefix: "panic: boom again\n"}
		case cs.MErr == 6:
			return errInfo{isErr: true, prefix: "panic: "}
		case cs.MErr == 7:
			return errInfo{isErr: true, exact: "wrapped " + t + ": cause " + t, prefix: "wrapped " + t + ": cause " + t, inner: "cause " + t}
		}
		return errInfo{}
	}
	if cs.Before == 4 { // the hook replaced the input before the call: the scripted unmarshaler cannot read it
		x := fmt.Sprintf("bad scripted input %q", scribbled)
		return errInfo{isErr: true, exact: x, prefix: x}
	}
	switch cs.UErr {
	case 1:
		return errInfo{isErr: true, exact: "uboom %!x " + t, prefix: "uboom %!x " + t}
	case 2:
		return errInfo{isErr: true, prefix: "panic: upboom 50% full " + t + "\n"}
	case 3:
		return errInfo{isErr: true, exact: "typed nil error", prefix: "typed nil error"}
	case 4:
		return errInfo{isErr: true, exact: "uboom line one " + t + "\r\nline two" + eol(tag, "\r\n"), prefix: "uboom line one " + t + "\r\nline two" + eol(tag, "\r\n")}
	case 5:
		return errInfo{isErr: true, prefix: "panic: boom again\n"}
	case 6:
		return errInfo{isErr: true, prefix: "panic: "}
	case 7:
		return errInfo{isErr: true, exact: "uwrapped " + t + ": ucause " + t, prefix: "uwrapped " + t + ": ucause " + t, inner: "ucause " + t}
	}
	return errInfo{}
}

// modelCase decides whether case idx is applicable to and satisfied in direction dirMarshal; the predicate text was chosen
// with respect to the error of direction mainMarshal (the helper the list was generated for).
func modelCase(cs CaseSpec, idx int, mainMarshal, dirMarshal bool, tag int) caseModel {
	var m caseModel
	if dirMarshal {
		m.applicable = cs.Constraint == 0 || cs.Constraint == 1
	} else {
		m.applicable = cs.Constraint == 0 || cs.Constraint == 2
	}
	if !m.applicable {
		return m
	}
	if hookFails(cs.Before) || hookFails(effectiveAfter(cs)) {
		m.unsatisfied = true
		return m
	}
	_, text := predicate(cs, idx, errOf(cs, mainMarshal, tag))
	e := errOf(cs, dirMarshal, tag)
	met := evalPred(cs.Pred, text, e)
	if dirMarshal {
		dataNil := cs.NilValue || (cs.MErr == 2 || cs.MErr == 5 || cs.MErr == 6) || cs.MOut == 2
		dataRight := cs.MOut == 0 && !cs.NilValue && (cs.MErr != 2 && cs.MErr != 5 && cs.MErr != 6)
		if cs.EmptyData && cs.MOut == 2 && !cs.NilValue && (cs.MErr != 2 && cs.MErr != 5 && cs.MErr != 6) {
			dataRight = true // nil result against empty expected data
		}
		if cs.Before == 4 || effectiveAfter(cs) == 4 {
			dataRight = false // the hook replaced the expected data of this run
		}
		if cs.Pred == 0 {
			m.unsatisfied = e.isErr || !dataRight
		} else {
			m.unsatisfied = !met || !dataNil
		}
	} else {
		stored := cs.UStore // 0 expected, 1 different, 2 nothing, 3 the empty value (empty like nothing)
		if cs.Before == 4 || stored == 3 {
			stored = 2
		}
		if cs.Pred == 0 {
			m.unsatisfied = e.isErr || stored != 0 || cs.NilValue
		} else {
			m.unsatisfied = !met || stored != 2
		}
	}
	if m.unsatisfied && cs.Pred != 0 && silentNonMatch(cs, text, e) {
		m.silent = true
	}
	return m
}

// ---- running a list through the real helpers -----------------------------------------------------------------------------

// runList registers the scripts, builds ONE case slice and hands it to the helper named in spec (recorder 1) and then, if
// second is set, to the helper of the opposite direction of the same format (recorder 2): the caller's slice must come
// back untouched from the first helper.
func runList[T any](spec ListSpec, mkValue func(tag int, payload string, isNil bool) T, indices []int, second bool) (rec, rec2 *recorder, base int, panicked any) {
	base = int(atomic.AddInt64(&tagBase, int64(len(spec.Cases)+8)))
	marshal := strings.HasPrefix(spec.Helper, "Marshal")
	type built struct {
		constraint test.Constraint
		before     int
		after      int
		pred       test.AssertErrorFunc
		data       string
		value      T
		tag        int
	}
	var cases []built
	for _, i := range indices {
		cs := spec.Cases[i]
		tag := base + i
		pred, _ := predicate(cs, i, errOf(cs, marshal, tag))
		data := `{"u":` + strconv.Itoa(tag) + "}" // a JSON document, so that "the same document in other bytes" exists (MOut 4, 5)
		if cs.NLData {
			data = [4]string{"", " ", "\t", "\r\n "}[i%4] + data + "\n"
		}
		if cs.EmptyData {
			data = ""
		}
		ms := mScript{}
		switch cs.MOut {
		case 0:
			ms.data = []byte(data)
		case 1:
			ms.data = []byte(data + "-wrong")
		case 4:
			ms.data = []byte(strings.Replace(data, `{"u":`, `{"u": `, 1)) // the same JSON value in other bytes
		case 5:
			ms.data = []byte(strings.Replace(data, `{"u":`, `{"U":`, 1)) // differs in the case of one letter only
		case 3:
			if strings.HasSuffix(data, "\n") {
				ms.data = []byte(strings.TrimSuffix(data, "\n"))
			} else {
				ms.data = []byte(data + "\n")
			}
		}
		switch cs.MErr {
		case 3:
			ms.err = (*nilErr)(nil)
		case 1:
			ms.err = errors.New("boom 100%s " + strconv.Itoa(tag))
		case 2:
			ms.panic = "pboom 100%d %v " + strconv.Itoa(tag)
		case 4:
			ms.err = errors.New("boom line one " + strconv.Itoa(tag) + "\nline two." + eol(tag, "\n"))
		case 5:
			ms.panic = "boom again"
		case 6:
			ms.panic = panicWithBrokenValue
		case 7:
			ms.err = fmt.Errorf("wrapped %d: %w", tag, errors.New("cause "+strconv.Itoa(tag)))
		}
		mReg.Store(tag, ms)
		us := uScript{want: data, tag: tag, payload: "p" + strconv.Itoa(tag)}
		switch cs.UStore {
		case 0:
			us.store = true
		case 1:
			us.store = true
			us.payload = "different"
		case 3:
			us.store = true
			us.tag, us.payload = 0, ""
		case 4:
			us.store = true
			us.payload = strings.ToUpper(us.payload) // differs in letter case only
		case 5:
			us.store = true
			us.payload += " " // differs by a trailing space only
		case 6:
			us.store = true
			us.tag += 1 << 32 // differs beyond the low 32 bits only
		}
		switch cs.UErr {
		case 3:
			us.err = (*nilErr)(nil)
		case 1:
			us.err = errors.New("uboom %!x " + strconv.Itoa(tag))
		case 2:
			us.panic = "upboom 50% full " + strconv.Itoa(tag)
		case 4:
			us.err = errors.New("uboom line one " + strconv.Itoa(tag) + "\r\nline two" + eol(tag, "\r\n"))
		case 5:
			us.panic = "boom again"
		case 6:
			us.panic = panicWithBrokenValue
		case 7:
			us.err = fmt.Errorf("uwrapped %d: %w", tag, errors.New("ucause "+strconv.Itoa(tag)))
		}
		uReg.Store(tag, us)
		defer mReg.Delete(tag)
		defer uReg.Delete(tag)
		cases = append(cases, built{constraint: test.Constraint(cs.Constraint), before: cs.Before, after: cs.After, pred: pred, data: data, value: mkValue(tag, "p"+strconv.Itoa(tag), cs.NilValue), tag: tag})
	}
	rec, rec2 = &recorder{}, &recorder{}
	var th test.TypeHelper[T]
	if spec.CustomHelper {
		th = customHelper[T]{}
	}
	_, panicked = vkit.Panics(func() {
		switch spec.Helper {
		case "MarshalText", "UnmarshalText":
			cs := make([]test.CaseText[T], len(cases))
			mk := func(kind, tag int) func(int, *test.CaseText[T]) error {
				switch kind {
				case 4:
					return func(_ int, c *test.CaseText[T]) error { c.Data = scribbled; return nil }
				case 5:
					return func(_ int, c *test.CaseText[T]) error {
						c.After = func(int, *test.CaseText[T]) error { return errors.New("after hook installed by the before hook") }
						return nil
					}
				case 6:
					return func(_ int, c *test.CaseText[T]) error { c.After = nil; return nil }
				}
				return hook[test.CaseText[T]](kind, tag)
			}
			for i, b := range cases {
				cs[i] = test.CaseText[T]{Constraint: b.constraint, Before: mk(b.before, b.tag), After: mk(b.after, b.tag), Error: b.pred, Data: b.data, Value: b.value}
			}
			if marshal {
				test.MarshalText(rec, cs)
				if second {
					test.UnmarshalText(rec2, cs, th)
				}
			} else {
				test.UnmarshalText(rec, cs, th)
				if second {
					test.MarshalText(rec2, cs)
				}
			}
		case "MarshalBinary", "UnmarshalBinary":
			cs := make([]test.CaseBinary[T], len(cases))
			mk := func(kind, tag int) func(int, *test.CaseBinary[T]) error {
				switch kind {
				case 4:
					return func(_ int, c *test.CaseBinary[T]) error { c.Data = []byte(scribbled); return nil }
				case 5:
					return func(_ int, c *test.CaseBinary[T]) error {
						c.After = func(int, *test.CaseBinary[T]) error { return errors.New("after hook installed by the before hook") }
						return nil
					}
				case 6:
					return func(_ int, c *test.CaseBinary[T]) error { c.After = nil; return nil }
				}
				return hook[test.CaseBinary[T]](kind, tag)
			}
			for i, b := range cases {
				cs[i] = test.CaseBinary[T]{Constraint: b.constraint, Before: mk(b.before, b.tag), After: mk(b.after, b.tag), Error: b.pred, Data: []byte(b.data), Value: b.value}
			}
			if marshal {
				test.MarshalBinary(rec, cs)
				if second {
					test.UnmarshalBinary(rec2, cs, th)
				}
			} else {
				test.UnmarshalBinary(rec, cs, th)
				if second {
					test.MarshalBinary(rec2, cs)
				}
			}
		case "MarshalJSON", "UnmarshalJSON":
			cs := make([]test.CaseJSON[T], len(cases))
			mk := func(kind, tag int) func(int, *test.CaseJSON[T]) error {
				switch kind {
				case 4:
					return func(_ int, c *test.CaseJSON[T]) error { c.Data = scribbled; return nil }
				case 5:
					return func(_ int, c *test.CaseJSON[T]) error {
						c.After = func(int, *test.CaseJSON[T]) error { return errors.New("after hook installed by the before hook") }
						return nil
					}
				case 6:
					return func(_ int, c *test.CaseJSON[T]) error { c.After = nil; return nil }
				}
				return hook[test.CaseJSON[T]](kind, tag)
			}
			for i, b := range cases {
				cs[i] = test.CaseJSON[T]{Constraint: b.constraint, Before: mk(b.before, b.tag), After: mk(b.after, b.tag), Error: b.pred, Data: b.data, Value: b.value}
			}
			if marshal {
				test.MarshalJSON(rec, cs)
				if second {
					test.UnmarshalJSON(rec2, cs, th)
				}
			} else {
				test.UnmarshalJSON(rec, cs, th)
				if second {
					test.MarshalJSON(rec2, cs)
				}
			}
		default:
			panic("unknown helper " + spec.Helper)
		}
	})
	return rec, rec2, base, panicked
}

func hook[C any](kind int, tag int) func(int, *C) error {
	switch kind {
	case 0:
		return nil
	case 1:
		return func(int, *C) error { return nil }
	case 2:
		return func(int, *C) error { return errors.New("hook error " + strconv.Itoa(tag)) }
	default:
		return func(int, *C) error { panic("hook panic " + strconv.Itoa(tag)) }
	}
}

func run(spec ListSpec, indices []int, second bool) (*recorder, *recorder, int, any) {
	switch spec.Type {
	case "SV":
		return runList(spec, func(tag int, p string, _ bool) SV { return SV{tag, p} }, indices, second)
	case "SP":
		return runList(spec, func(tag int, p string, isNil bool) *SP {
			if isNil {
				return nil
			}
			return &SP{tag, p}
		}, indices, second)
	case "NoIface":
		return runList(spec, func(tag int, p string, _ bool) NoIface { return NoIface{tag, p} }, indices, second)
	case "MOnly":
		return runList(spec, func(tag int, p string, _ bool) MOnly { return MOnly{tag, p} }, indices, second)
	case "UOnly":
		return runList(spec, func(tag int, p string, _ bool) UOnly { return UOnly{tag, p} }, indices, second)
	case "PRecv":
		return runList(spec, func(tag int, p string, _ bool) PRecv { return PRecv{tag, p} }, indices, second)
	case "Both":
		return runList(spec, func(tag int, p string, _ bool) Both {
			if tag%2 == 1 { // two dynamic types in one list
				return &SP2{tag, p}
			}
			return &SP{tag, p}
		}, indices, second)
	case "SL":
		return runList(spec, func(tag int, p string, _ bool) SL { return SL{strconv.Itoa(tag), p} }, indices, second)
	case "TextOnly":
		return runList(spec, func(tag int, p string, _ bool) TextOnly { return TextOnly{tag, p} }, indices, second)
	case "JSONOnly":
		return runList(spec, func(tag int, p string, _ bool) JSONOnly { return JSONOnly{tag, p} }, indices, second)
	case "BinOnly":
		return runList(spec, func(tag int, p string, _ bool) BinOnly { return BinOnly{tag, p} }, indices, second)
	case "Mixed":
		return runList(spec, func(tag int, p string, _ bool) Mixed { return Mixed{tag, p} }, indices, second)
	}
	panic("unknown type " + spec.Type)
}

var caseNo = regexp.MustCompile(`case (\d+) failed`)

func hasIface(typ, helper string, marshal bool) bool {
	format := strings.TrimPrefix(strings.TrimPrefix(helper, "Marshal"), "Unmarshal")
	switch typ {
	case "TextOnly":
		return format == "Text"
	case "JSONOnly":
		return format == "JSON"
	case "BinOnly":
		return format == "Binary"
	case "Mixed":
		return (marshal && format == "JSON") || (!marshal && format == "Text")
	}
	switch typ {
	case "SV", "SP", "Both", "SL":
		return true
	case "MOnly":
		return marshal
	case "UOnly", "PRecv":
		return !marshal
	}
	return false
}

func normalise(spec ListSpec) ListSpec {
	out := spec
	out.Cases = append([]CaseSpec{}, spec.Cases...)
	for i := range out.Cases {
		c := &out.Cases[i]
		if spec.Type != "SP" {
			c.NilValue = false
		}
		if c.After > 4 {
			c.After = 1
		}
		if (c.MErr == 6 || c.UErr == 6) && c.Pred != 0 && c.Pred != 1 && c.Pred < 8 {
			c.Pred = 1 // how such a panic value is put into words is not specified: only text-independent predicates
		}
		if c.Constraint != 1 {
			c.EmptyData = false // an empty Data cannot carry the scripted unmarshal input
		}
		if c.EmptyData && (c.MOut == 4 || c.MOut == 5) {
			c.MOut = 1 // there is no "same value in other bytes" of an empty text
		}
		if strings.HasSuffix(spec.Helper, "Binary") {
			// CaseBinary.Data is a []byte: whether a nil result "differs" from an empty non-nil expectation (or vice versa) is
			// not settled by the statement (the helper follows testify and says it does); the text and JSON helpers compare
			// strings, where nil and empty are the same data. Left out for the binary helpers.
			c.EmptyData = false
		}
		if c.EmptyData && c.Pred != 0 && c.MOut == 0 {
			c.MOut = 2 // an empty non-nil result beside an expected error: the statement speaks of a non-empty result only
		}
	}
	if strings.HasPrefix(spec.Helper, "Marshal") {
		out.CustomHelper = false
	}
	return out
}

const knownKey = "errormatch-silent-nonmatch"

// verdict compares what one helper run recorded with the model of the list in that direction.
func verdict(spec ListSpec, w *vkit.W, rec *recorder, base int, mainMarshal, dirMarshal bool, stage string) (nUnsat int) {
	name := spec.Helper
	if mainMarshal != dirMarshal {
		name = map[bool]string{true: "Marshal", false: "Unmarshal"}[dirMarshal] + strings.TrimPrefix(strings.TrimPrefix(spec.Helper, "Marshal"), "Unmarshal") + " (second helper on the same case slice)"
	}
	if !hasIface(spec.Type, spec.Helper, dirMarshal) {
		applicable := false
		for _, cs := range spec.Cases {
			if (dirMarshal && cs.Constraint != 2) || (!dirMarshal && cs.Constraint != 1) {
				applicable = true
			}
		}
		if len(spec.Cases) > 0 && applicable && !rec.failed() {
			w.Fail(spec, "missing-interface-not-reported", fmt.Sprintf("%s[%s]%s: the type lacks the interface, %d cases, nothing reported", name, spec.Type, stage, len(spec.Cases)))
		}
		if len(spec.Cases) == 0 && rec.failed() {
			w.Fail(spec, "empty-list-reported", fmt.Sprintf("%s[%s]%s: no cases, yet a failure was reported: %v", name, spec.Type, stage, rec.errors))
		}
		return len(spec.Cases)
	}
	unsat := map[int]bool{}
	nSilent := 0
	for i, cs := range spec.Cases {
		m := modelCase(cs, i, mainMarshal, dirMarshal, base+i)
		if m.applicable && m.unsatisfied {
			unsat[i] = true
			nUnsat++
			if m.silent {
				nSilent++
			}
		}
	}
	switch {
	case nUnsat > 0 && !rec.failed():
		detail := fmt.Sprintf("%s[%s]%s: cases %v are not satisfied, but the helper reported nothing", name, spec.Type, stage, keys(unsat))
		if nSilent == nUnsat {
			w.FailKnown(knownKey, spec, "failure-not-reported", detail)
		} else {
			w.Fail(spec, "failure-not-reported", detail)
		}
	case nUnsat == 0 && rec.failed():
		w.Fail(spec, "spurious-failure", fmt.Sprintf("%s[%s]%s: every applicable case is satisfied, yet the helper reported: %v (FailNow x%d)", name, spec.Type, stage, truncateAll(rec.errors), rec.failNow))
	}
	if len(rec.errors) < nUnsat-nSilent {
		w.Fail(spec, "fewer-reports-than-failing-cases", fmt.Sprintf("%s[%s]%s: %d cases are not satisfied (%v) but only %d failures were reported", name, spec.Type, stage, nUnsat, keys(unsat), len(rec.errors)))
	} else if len(rec.errors) < nUnsat {
		w.FailKnown(knownKey, spec, "fewer-reports-than-failing-cases", fmt.Sprintf("%s[%s]%s: %d cases are not satisfied (%v) but only %d failures were reported", name, spec.Type, stage, nUnsat, keys(unsat), len(rec.errors)))
	}
	for _, msg := range rec.errors {
		for _, mm := range caseNo.FindAllStringSubmatch(msg, -1) {
			n, _ := strconv.Atoi(mm[1])
			if n < len(spec.Cases) && !unsat[n] {
				w.Fail(spec, "satisfied-case-named-as-failed", fmt.Sprintf("%s[%s]%s: report names case %d, which is satisfied or not applicable: %s", name, spec.Type, stage, n, truncate(msg)))
			}
		}
	}
	return nUnsat
}

func judge(spec ListSpec, w *vkit.W) (anyUnsat bool) {
	defer func() {
		if p := recover(); p != nil {
			w.Fail(spec, "panic", vkit.PanicDetail(p))
		}
	}()
	spec = normalise(spec)
	marshal := strings.HasPrefix(spec.Helper, "Marshal")
	all := make([]int, len(spec.Cases))
	for i := range all {
		all[i] = i
	}
	rec, rec2, base, panicked := run(spec, all, true)
	if panicked != nil {
		w.Fail(spec, "panic-escaped-helper", fmt.Sprintf("%s[%s] (or the opposite helper run after it on the same slice) let a panic escape: %v", spec.Helper, spec.Type, panicked))
		return
	}
	n1 := verdict(spec, w, rec, base, marshal, marshal, "")
	verdict(spec, w, rec2, base, marshal, !marshal, "")
	if !hasIface(spec.Type, spec.Helper, marshal) {
		return n1 > 0
	}
	// per-case verdicts: every applicable case alone
	for i, cs := range spec.Cases {
		if cm := modelCase(cs, i, marshal, marshal, base+i); !cm.applicable || len(spec.Cases) == 1 {
			continue
		}
		r1, _, b1, p1 := run(spec, []int{i}, false)
		m := modelCase(cs, i, marshal, marshal, b1+i)
		if p1 != nil {
			w.Fail(spec, "panic-escaped-helper", fmt.Sprintf("%s[%s] with case %d alone let a panic escape: %v", spec.Helper, spec.Type, i, p1))
			continue
		}
		if r1.failed() != m.unsatisfied {
			detail := fmt.Sprintf("%s[%s]: case %d alone: reported=%v, model says unsatisfied=%v; reports: %v", spec.Helper, spec.Type, i, r1.failed(), m.unsatisfied, truncateAll(r1.errors))
			if m.silent {
				w.FailKnown(knownKey, spec, "per-case-verdict", detail)
			} else {
				w.Fail(spec, "per-case-verdict", detail)
			}
		}
	}
	return n1 > 0
}

func keys(m map[int]bool) []int {
	var out []int
	for i := 0; i < 64; i++ {
		if m[i] {
			out = append(out, i)
		}
	}
	return out
}

func truncate(s string) string {
	s = strings.ReplaceAll(s, "\n", " | ")
	if len(s) > 300 {
		return s[:300] + "…"
	}
	return s
}

func truncateAll(ss []string) []string {
	out := make([]string, 0, len(ss))
	for i, s := range ss {
		if i == 4 {
			out = append(out, "…")
			break
		}
		out = append(out, truncate(s))
	}
	return out
}

// ---- generation ----------------------------------------------------------------------------------------------------------------

var helpers = []string{"MarshalText", "UnmarshalText", "MarshalBinary", "UnmarshalBinary", "MarshalJSON", "UnmarshalJSON"}
var typesAll = []string{"SL", "Both", "SV", "SP", "SV", "SP", "NoIface", "MOnly", "UOnly", "PRecv", "Both", "TextOnly", "JSONOnly", "BinOnly", "Mixed"}

func genCase(rt *rapid.T) CaseSpec {
	hookG := rapid.SampledFrom([]int{0, 0, 0, 0, 1, 1, 2, 3, 4, 5, 6})
	cs := CaseSpec{
		Constraint: rapid.SampledFrom([]int{0, 0, 1, 2}).Draw(rt, "constraint"),
		Before:     hookG.Draw(rt, "before"),
		After:      hookG.Draw(rt, "after"),
		Pred:       rapid.SampledFrom([]int{0, 0, 0, 0, 1, 2, 3, 4, 5, 5, 6, 7, 7, 8, 9, 10}).Draw(rt, "pred"),
		PredHit:    rapid.Bool().Draw(rt, "predHit"),
		MOut:       rapid.SampledFrom([]int{0, 0, 1, 2, 3, 4, 5}).Draw(rt, "mOut"),
		MErr:       rapid.SampledFrom([]int{0, 0, 1, 2, 3, 4, 5, 6, 7}).Draw(rt, "mErr"),
		UStore:     rapid.SampledFrom([]int{0, 0, 1, 2, 3, 4, 5, 6}).Draw(rt, "uStore"),
		UErr:       rapid.SampledFrom([]int{0, 0, 1, 2, 3, 4, 5, 6, 7}).Draw(rt, "uErr"),
		NilValue:   rapid.IntRange(0, 9).Draw(rt, "nilValue") == 0,
		EmptyData:  rapid.IntRange(0, 7).Draw(rt, "emptyData") == 0,
		NLData:     rapid.IntRange(0, 7).Draw(rt, "nlData") == 0,
	}
	// bias towards coherent cases (an expected error together with an error and no result; a plain success)
	switch rapid.IntRange(0, 3).Draw(rt, "coherent") {
	case 0:
		cs.Pred, cs.MErr, cs.UErr, cs.UStore, cs.Before, cs.After, cs.NilValue = 0, 0, 0, 0, 0, 0, false
		if cs.MOut == 1 {
			cs.MOut = 0
		}
	case 1:
		if cs.Pred == 0 {
			cs.Pred = 1
		}
		cs.PredHit, cs.MErr, cs.MOut, cs.UErr, cs.UStore = true, 1, 2, 1, 2
	}
	return cs
}

func specHash(s ListSpec) uint64 {
	b, _ := json.Marshal(s)
	return vkit.Hash64(string(b))
}

func TestCheck(t *testing.T) {
	r := vkit.Start("C20")
	defer r.Finish(t)
	if r.Replay != "" {
		var c ListSpec
		if err := r.LoadReplay(&c); err != nil {
			t.Fatalf("replay: %v", err)
		}
		r.Serial(func(w *vkit.W) { judge(c, w); w.Eval(true) })
		return
	}
	r.Rule("A case is one helper invocation: helper (6) x scripted type (value type, pointer type, no interface, marshal-only, unmarshal-only, value type with pointer-receiver methods) x list of 0-6 case specs (constraint, before/after hook nil/ok/error/panic/rewrites-the-case-it-is-handed, error predicate kind with a text chosen to match or miss the scripted error, scripted marshal/unmarshal outcome incl. error with data and panics, nil pointer values) x optional custom TypeHelper. " +
		"Oracle: an independent model of case satisfaction; the helper must report (>= 1 Errorf/FailNow on a recording TestingT) iff some applicable case is unsatisfied or the type lacks the interface, report at least once per unsatisfied case, name only unsatisfied cases in 'case N failed', give the same verdict for each case run alone, leave the caller's case slice untouched (the opposite helper is run on the same slice afterwards and judged against the original list), and never let a panic escape. " +
		"Non-trivial: lists with an unsatisfied applicable case, a panic, a hook or a missing interface. Distinct by construction (exhaustive single-case grid) or by hash (rapid).")
	r.Regress(func(raw json.RawMessage, w *vkit.W) error {
		var c ListSpec
		if err := json.Unmarshal(raw, &c); err != nil {
			return err
		}
		judge(c, w)
		w.Eval(true)
		return nil
	})

	// Phase A: exhaustive single-case lists over the whole spec space x helpers x types (incl. a satisfied companion case in front).
	r.Phase("A: exhaustive single-case grid (all field combinations) x 6 helpers x 6 types, alone and behind a satisfied case, each list also handed to the opposite helper afterwards", func() {
		var specs []CaseSpec
		for con := 0; con < 3; con++ {
			for hk := 0; hk < 16; hk++ {
				for pred := 0; pred <= 6; pred++ {
					for hit := 0; hit < 2; hit++ {
						for out := 0; out < 3; out++ {
							for er := 0; er < 3; er++ {
								if (hk/4 > 1 || hk%4 > 1) && (out != 0 || er != 0) && pred > 1 {
									continue // failing hooks dominate: keep only part of that subspace
								}
								specs = append(specs, CaseSpec{Constraint: con, Before: hk / 4, After: hk % 4, Pred: pred, PredHit: hit == 1, MOut: out, MErr: er, UStore: out, UErr: er})
							}
						}
					}
				}
			}
		}
		for con := 0; con < 3; con++ {
			for _, hk := range [][2]int{{4, 0}, {0, 4}, {4, 4}, {4, 1}, {1, 4}, {5, 0}, {5, 1}, {6, 2}, {6, 3}, {6, 1}, {5, 3}} {
				for pred := 0; pred <= 6; pred++ {
					for hit := 0; hit < 2; hit++ {
						for out := 0; out < 3; out++ {
							for er := 0; er < 3; er++ {
								specs = append(specs, CaseSpec{Constraint: con, Before: hk[0], After: hk[1], Pred: pred, PredHit: hit == 1, MOut: out, MErr: er, UStore: out, UErr: er})
							}
						}
					}
				}
			}
		}
		for pred := 0; pred <= 6; pred++ {
			for out := 0; out < 3; out++ {
				for er := 0; er < 3; er++ {
					specs = append(specs, CaseSpec{Constraint: 1, EmptyData: true, Pred: pred, PredHit: true, MOut: out, MErr: er})
				}
			}
		}
		for con := 0; con < 3; con++ { // panics with a value that cannot be printed naively
			for _, pred := range []int{0, 1, 8, 9, 10} {
				for out := 0; out < 3; out++ {
					specs = append(specs, CaseSpec{Constraint: con, Pred: pred, MOut: out, MErr: 6, UStore: out, UErr: 6})
				}
			}
		}
		for con := 0; con < 3; con++ { // results that differ from the expected ones only slightly: other bytes of the same JSON value, letter case, a trailing space, a high bit
			for _, pred := range []int{0, 1, 3} {
				for _, er := range []int{0, 1} {
					for _, nl := range []bool{false, true} {
						for _, out := range []int{4, 5} {
							specs = append(specs, CaseSpec{Constraint: con, NLData: nl, Pred: pred, PredHit: true, MOut: out, MErr: er, UStore: out, UErr: er})
						}
						specs = append(specs, CaseSpec{Constraint: con, NLData: nl, Pred: pred, PredHit: true, MOut: 4, MErr: er, UStore: 6, UErr: er})
					}
				}
			}
		}
		for con := 0; con < 3; con++ { // errors that wrap another error, against every predicate kind: a predicate judges the error's own text
			for pred := 0; pred <= 7; pred++ {
				for hit := 0; hit < 2; hit++ {
					for out := 0; out < 3; out++ {
						for _, nl := range []bool{false, true} {
							specs = append(specs, CaseSpec{Constraint: con, NLData: nl, Pred: pred, PredHit: hit == 1, MOut: out, MErr: 7, UStore: out, UErr: 7})
						}
					}
				}
			}
		}
		for con := 0; con < 3; con++ { // panics with one and the same text, again and again, against every predicate kind
			for pred := 0; pred <= 7; pred++ {
				for hit := 0; hit < 2; hit++ {
					for out := 0; out < 3; out++ {
						specs = append(specs, CaseSpec{Constraint: con, Pred: pred, PredHit: hit == 1, MOut: out, MErr: 5, UStore: out, UErr: 5})
					}
				}
			}
		}
		for con := 0; con < 3; con++ { // the unmarshaler leaves the empty value behind (for a slice type: empty but not nil)
			for pred := 0; pred <= 7; pred++ {
				for _, er := range []int{0, 1, 2} {
					specs = append(specs, CaseSpec{Constraint: con, Pred: pred, PredHit: true, MOut: 2, MErr: er, UStore: 3, UErr: er})
				}
			}
		}
		for con := 0; con < 3; con++ { // the caller's own predicates against every outcome; data that differs in a final line feed only
			for _, pred := range []int{8, 9, 10} {
				for out := 0; out < 4; out++ {
					for _, er := range []int{0, 1, 2, 3, 4} {
						specs = append(specs, CaseSpec{Constraint: con, Pred: pred, MOut: out, MErr: er, UStore: out % 3, UErr: er})
					}
				}
			}
			for _, nl := range []bool{false, true} {
				for _, pred := range []int{0, 1, 5} {
					for _, er := range []int{0, 1} {
						for _, out := range []int{0, 3} {
							specs = append(specs, CaseSpec{Constraint: con, NLData: nl, Pred: pred, PredHit: true, MOut: out, MErr: er, UErr: er, UStore: 2 * er})
						}
					}
				}
			}
		}
		for con := 0; con < 3; con++ { // two-line error texts and panics against every predicate kind, incl. the first-line pattern
			for pred := 0; pred <= 7; pred++ {
				for hit := 0; hit < 2; hit++ {
					for out := 0; out < 3; out++ {
						for _, er := range []int{1, 2, 4} {
							if pred == 7 || er == 4 {
								specs = append(specs, CaseSpec{Constraint: con, Pred: pred, PredHit: hit == 1, MOut: out, MErr: er, UStore: out, UErr: er})
							}
						}
					}
				}
			}
		}
		for con := 0; con < 3; con++ { // nil pointer values (pointer type only)
			for pred := 0; pred <= 6; pred++ {
				for hit := 0; hit < 2; hit++ {
					for st := 0; st < 3; st++ {
						for er := 0; er < 3; er++ {
							specs = append(specs, CaseSpec{Constraint: con, NilValue: true, Pred: pred, PredHit: hit == 1, UStore: st, UErr: er, MOut: 2})
						}
					}
				}
			}
		}
		types := []string{"SV", "SP", "SL", "Both", "NoIface", "MOnly", "UOnly", "PRecv", "Both", "TextOnly", "JSONOnly", "BinOnly", "Mixed"}
		r.Parallel(int64(len(specs)), 16, func(w *vkit.W, lo, hi int64) {
			for i := lo; i < hi; i++ {
				for _, h := range helpers {
					for ti, typ := range types {
						if ti >= 4 && i%7 != 0 || (ti == 2 || ti == 3) && i%3 != 0 {
							continue // the interface-less types on every 7th spec, the slice-kind and the interface type on every 3rd
						}
						for _, front := range []bool{false, true} {
							ls := ListSpec{Helper: h, Type: typ, Cases: []CaseSpec{specs[i]}}
							if front {
								ls.Cases = []CaseSpec{{}, specs[i]}
								ls.CustomHelper = true
							}
							unsat := judge(ls, w)
							w.Eval(unsat || specs[i].Before > 0 || specs[i].After > 0)
							if unsat && front && w.WantSample() && specs[i].Pred == 5 {
								w.Sample(ls)
							}
						}
					}
				}
			}
		})
	})
	r.Exhaustive("all single-case specs (constraint x hooks x predicate kind x hit/miss x outcome) x 6 helpers x value/pointer types (1-in-3 for the slice-kind and the interface type, 1-in-7 for the interface-less types), alone and behind a satisfied case")

	// Phase A2: all ordered pairs and triples over a palette of representative cases (interaction between cases of one list).
	r.Phase("A2: all ordered pairs and triples over a palette of representative case specs x 6 helpers x value/pointer type", func() {
		pal := []CaseSpec{
			{}, // satisfied in both directions
			{Constraint: 1}, {Constraint: 2},
			{Constraint: 1, MOut: 1}, {Constraint: 2, UStore: 1},
			{MOut: 1, UStore: 1}, // wrong data / value
			{MErr: 1, UErr: 1},   // unexpected error
			{Pred: 1, PredHit: true, MErr: 1, MOut: 2, UErr: 1, UStore: 2},  // expected error, satisfied
			{Pred: 2, PredHit: false, MErr: 1, MOut: 2, UErr: 1, UStore: 2}, // predicate unmet and reports itself
			{Pred: 5, PredHit: false, MErr: 1, MOut: 2, UErr: 1, UStore: 2}, // predicate unmet silently (ErrorMatch)
			{Pred: 5, PredHit: true, MErr: 1, MOut: 2, UErr: 1, UStore: 2},  // ErrorMatch met
			{Pred: 3, PredHit: true, MErr: 1, MOut: 0, UErr: 1, UStore: 0},  // expected error but a result beside it
			{Pred: 1, PredHit: true},                                                  // expected error missing
			{MErr: 2, UErr: 2}, {Pred: 3, PredHit: true, MErr: 2, UErr: 2, UStore: 2}, // panics
			{Before: 2}, {After: 3}, {Before: 1, After: 1},
			{Constraint: 1, Pred: 6, MErr: 1, MOut: 2}, {Constraint: 2, Pred: 5, UErr: 1, UStore: 2},
			{After: 4}, {Before: 4, Constraint: 1}, {Constraint: 1, EmptyData: true, MOut: 2},
			{MErr: 3, UErr: 3}, {MErr: 3, UErr: 3, MOut: 2, UStore: 2, Pred: 2, PredHit: true},
			{Pred: 7, MErr: 1, MOut: 2, UErr: 1, UStore: 2}, {Pred: 7, MErr: 4, MOut: 2, UErr: 4, UStore: 2}, {Pred: 7, MErr: 2, MOut: 2, UErr: 2, UStore: 2}, {Pred: 3, PredHit: true, MErr: 4, MOut: 2, UErr: 4, UStore: 2},
			{Pred: 8, MOut: 2, UStore: 2}, {Pred: 8, MErr: 1, MOut: 2, UErr: 1, UStore: 2}, {Pred: 9, MOut: 2, UStore: 2}, {Pred: 10, MErr: 1, MOut: 2, UErr: 1, UStore: 2}, {MOut: 3}, {NLData: true}, {NLData: true, MOut: 3},
			{Pred: 1, PredHit: true, MErr: 1, MOut: 2, UErr: 1, UStore: 3}, {UStore: 3},
			{MErr: 6, UErr: 6}, {Pred: 1, MErr: 6, MOut: 2, UErr: 6, UStore: 2},
			{Pred: 4, PredHit: true, MErr: 5, MOut: 2, UErr: 5, UStore: 2}, {Pred: 2, PredHit: true, MErr: 5, MOut: 2, UErr: 5, UStore: 2}, {MErr: 5, UErr: 5},
			{Before: 5}, {Before: 6, After: 2}, {Before: 6, After: 3, MErr: 2, UErr: 2, Pred: 3, PredHit: true, UStore: 2}, // hooks that rewrite the case they are handed; nil result for empty data
		}
		np := int64(len(pal))
		// all ordered pairs over the whole palette
		r.Parallel(np*np, 8, func(w *vkit.W, lo, hi int64) {
			for k := lo; k < hi; k++ {
				a, b := pal[k/np], pal[k%np]
				for hi2, h := range helpers {
					typ := []string{"SV", "SP", "PRecv", "Both", "SL"}[(int(k)+hi2)%5]
					w.Eval(judge(ListSpec{Helper: h, Type: typ, Cases: []CaseSpec{a, b}, CustomHelper: k%3 == 0}, w))
				}
			}
		})
		// all ordered triples over the first twelve palette entries
		nc := int64(12)
		r.Parallel(nc*nc*nc, 16, func(w *vkit.W, lo, hi int64) {
			for k := lo; k < hi; k++ {
				a, b, c := pal[k/(nc*nc)], pal[k/nc%nc], pal[k%nc]
				for hi2, h := range helpers {
					typ := []string{"SV", "SP"}[(int(k)+hi2)%2]
					w.Eval(judge(ListSpec{Helper: h, Type: typ, Cases: []CaseSpec{a, b, c}, CustomHelper: k%3 == 0}, w))
				}
			}
		})
	})
	r.Exhaustive("all ordered pairs over a 26-element palette and all ordered triples over its first 12 elements x 6 helpers (each list run through the helper and then, on the same slice, through the opposite helper)")

	r.Phase("B: rapid case lists of length 0..6", func() {
		r.Rapid(t, "rapid-lists", 0, r.Pick(15000, 1200000), func(rt *rapid.T, w *vkit.W) vkit.RapidCase {
			ls := ListSpec{
				Helper:       rapid.SampledFrom(helpers).Draw(rt, "helper"),
				Type:         rapid.SampledFrom(typesAll).Draw(rt, "type"),
				CustomHelper: rapid.Bool().Draw(rt, "customHelper"),
				Cases:        rapid.SliceOfN(rapid.Custom(genCase), 0, 6).Draw(rt, "cases"),
			}
			ls = normalise(ls)
			unsat := judge(ls, w)
			nt := unsat
			for _, c := range ls.Cases {
				if c.Before > 0 || c.After > 0 || c.MErr == 2 || c.UErr == 2 {
					nt = true
				}
			}
			if unsat {
				w.Class("B_lists_with_unsatisfied_case")
			} else {
				w.Class("B_lists_all_satisfied")
			}
			return vkit.RapidCase{Case: ls, Hash: specHash(ls), NT: nt}
		})
	})
}
