// C20: the marshal-test helpers of package test report exactly the failing cases.
package c20

import (
	"encoding/json"
	"errors"
	"fmt"
	"reflect"
	"regexp"
	"strconv"
	"strings"
	"sync"
	"sync/atomic"
	"testing"

	"go.lstv.dev/util/test"
	"pgregory.net/rapid"

	"verifharness/vkit"
)

// ---- case-list specification (serialisable, replayable) ---------------------------------------------------------

// CaseSpec describes one case and the scripted behaviour of the (un)marshaler for it.
type CaseSpec struct {
	Constraint int  `json:"constraint"` // 0 both, 1 OnlyMarshal, 2 OnlyUnmarshal
	Before     int  `json:"before"`     // 0 nil, 1 ok, 2 returns error, 3 panics
	After      int  `json:"after"`      // same
	Pred       int  `json:"pred"`       // 0 nil, 1 AnyError, 2 Error(exact), 3 ErrorHasPrefix, 4 ErrorHasSuffix, 5 ErrorMatch(valid), 6 ErrorMatch(invalid pattern)
	PredHit    bool `json:"pred_hit"`   // predicate text chosen to match (true) or to miss (false) the scripted error text
	MOut       int  `json:"m_out"`      // marshal: 0 right data, 1 wrong data, 2 nil data
	MErr       int  `json:"m_err"`      // marshal: 0 no error, 1 error, 2 panic
	UStore     int  `json:"u_store"`    // unmarshal: 0 stores the expected value, 1 stores a different value, 2 stores nothing
	UErr       int  `json:"u_err"`      // unmarshal: 0 no error, 1 error, 2 panic (after storing)
	NilValue   bool `json:"nil_value"`  // pointer type only: the case's Value is a nil pointer
}

// ListSpec is one helper invocation.
type ListSpec struct {
	Helper       string     `json:"helper"` // MarshalText UnmarshalText MarshalBinary UnmarshalBinary MarshalJSON UnmarshalJSON
	Type         string     `json:"type"`   // SV (value type), SP (pointer type), NoIface, MOnly, UOnly
	CustomHelper bool       `json:"custom_type_helper"`
	Cases        []CaseSpec `json:"cases"`
}

// ---- scripted types -----------------------------------------------------------------------------------------------

type mScript struct {
	data  []byte
	err   error
	panic string
}
type uScript struct {
	store   bool
	tag     int
	payload string
	err     error
	panic   string
}

var (
	mReg    sync.Map // tag -> mScript
	uReg    sync.Map // tag -> uScript
	tagBase int64
)

func doMarshal(tag int) ([]byte, error) {
	v, ok := mReg.Load(tag)
	if !ok {
		return nil, fmt.Errorf("no marshal script for tag %d", tag)
	}
	s := v.(mScript)
	if s.panic != "" {
		panic(s.panic)
	}
	return s.data, s.err
}

func doUnmarshal(data []byte, set func(tag int, payload string)) error {
	tag, err := strconv.Atoi(strings.TrimPrefix(string(data), "u:"))
	if err != nil {
		return fmt.Errorf("bad scripted input %q", data)
	}
	v, ok := uReg.Load(tag)
	if !ok {
		return fmt.Errorf("no unmarshal script for tag %d", tag)
	}
	s := v.(uScript)
	if s.store {
		set(s.tag, s.payload)
	}
	if s.panic != "" {
		panic(s.panic)
	}
	return s.err
}

// SV: value-receiver marshalers, pointer-receiver unmarshalers.
type SV struct {
	Tag     int
	Payload string
}

func (s SV) MarshalText() ([]byte, error)   { return doMarshal(s.Tag) }
func (s SV) MarshalBinary() ([]byte, error) { return doMarshal(s.Tag) }
func (s SV) MarshalJSON() ([]byte, error)   { return doMarshal(s.Tag) }
func (s *SV) UnmarshalText(b []byte) error {
	return doUnmarshal(b, func(t int, p string) { s.Tag, s.Payload = t, p })
}
func (s *SV) UnmarshalBinary(b []byte) error {
	return doUnmarshal(b, func(t int, p string) { s.Tag, s.Payload = t, p })
}
func (s *SV) UnmarshalJSON(b []byte) error {
	return doUnmarshal(b, func(t int, p string) { s.Tag, s.Payload = t, p })
}

// SP: used as T = *SP; every method has a pointer receiver.
type SP struct {
	Tag     int
	Payload string
}

func (s *SP) MarshalText() ([]byte, error)   { return doMarshal(s.Tag) }
func (s *SP) MarshalBinary() ([]byte, error) { return doMarshal(s.Tag) }
func (s *SP) MarshalJSON() ([]byte, error)   { return doMarshal(s.Tag) }
func (s *SP) UnmarshalText(b []byte) error {
	return doUnmarshal(b, func(t int, p string) { s.Tag, s.Payload = t, p })
}
func (s *SP) UnmarshalBinary(b []byte) error {
	return doUnmarshal(b, func(t int, p string) { s.Tag, s.Payload = t, p })
}
func (s *SP) UnmarshalJSON(b []byte) error {
	return doUnmarshal(b, func(t int, p string) { s.Tag, s.Payload = t, p })
}

// NoIface implements nothing.
type NoIface struct {
	Tag     int
	Payload string
}

// MOnly implements only the marshalers.
type MOnly struct {
	Tag     int
	Payload string
}

func (s MOnly) MarshalText() ([]byte, error)   { return doMarshal(s.Tag) }
func (s MOnly) MarshalBinary() ([]byte, error) { return doMarshal(s.Tag) }
func (s MOnly) MarshalJSON() ([]byte, error)   { return doMarshal(s.Tag) }

// UOnly implements only the unmarshalers.
type UOnly struct {
	Tag     int
	Payload string
}

func (s *UOnly) UnmarshalText(b []byte) error {
	return doUnmarshal(b, func(t int, p string) { s.Tag, s.Payload = t, p })
}
func (s *UOnly) UnmarshalBinary(b []byte) error {
	return doUnmarshal(b, func(t int, p string) { s.Tag, s.Payload = t, p })
}
func (s *UOnly) UnmarshalJSON(b []byte) error {
	return doUnmarshal(b, func(t int, p string) { s.Tag, s.Payload = t, p })
}

// ---- recording TestingT and a well-behaved custom TypeHelper --------------------------------------------------------

type recorder struct {
	errors  []string
	failNow int
}

func (r *recorder) Errorf(format string, args ...any) {
	r.errors = append(r.errors, fmt.Sprintf(format, args...))
}
func (r *recorder) FailNow()     { r.failNow++ }
func (r *recorder) Helper()      {}
func (r *recorder) failed() bool { return len(r.errors) > 0 || r.failNow > 0 }

type customHelper[T any] struct{}

func (customHelper[T]) New(value T) T {
	if t := reflect.TypeOf(value); t.Kind() == reflect.Ptr {
		return reflect.New(t.Elem()).Interface().(T)
	}
	var z T
	return z
}
func (customHelper[T]) AssertEmpty(t test.TestingT, value T, failInfo string) {
	v := reflect.ValueOf(value)
	if v.Kind() == reflect.Ptr {
		if v.IsNil() {
			return
		}
		v = v.Elem()
	}
	if !v.IsZero() {
		t.Errorf("custom helper: value %+v is not empty: %s", value, failInfo)
	}
}
func (customHelper[T]) AssertEqual(t test.TestingT, expected, actual T, failInfo string) {
	if !reflect.DeepEqual(expected, actual) {
		t.Errorf("custom helper: %+v != %+v: %s", expected, actual, failInfo)
	}
}

// ---- model -----------------------------------------------------------------------------------------------------------

const nilDerefPrefix = "panic: runtime error: invalid memory address or nil pointer dereference"

// errInfo describes what is known about the error text of a scripted call.
type errInfo struct {
	isErr  bool
	exact  string // full text when known ("" when only a prefix is known)
	prefix string
}

func marker(i int) string { return "\x01no-such-text-" + strconv.Itoa(i) + "\x02" }

// predicate builds the AssertErrorFunc of the case and says whether it is met by an error described by e.
func predicate(cs CaseSpec, idx int, e errInfo) (test.AssertErrorFunc, bool) {
	known := e.exact
	if known == "" {
		known = e.prefix
	}
	switch cs.Pred {
	case 0:
		return nil, false
	case 1:
		return test.AnyError, e.isErr
	case 2:
		if cs.PredHit && e.isErr && e.exact != "" {
			return test.Error(e.exact), true
		}
		return test.Error("other text " + marker(idx)), false
	case 3:
		if cs.PredHit && e.isErr {
			return test.ErrorHasPrefix(known), true
		}
		return test.ErrorHasPrefix(marker(idx)), false
	case 4:
		if cs.PredHit && e.isErr {
			if e.exact != "" {
				return test.ErrorHasSuffix(e.exact[len(e.exact)/2:]), true
			}
			return test.ErrorHasSuffix(""), true
		}
		return test.ErrorHasSuffix(marker(idx)), false
	case 5:
		if cs.PredHit && e.isErr {
			return test.ErrorMatch("^" + regexp.QuoteMeta(known)), true
		}
		return test.ErrorMatch("^no-such-text-" + strconv.Itoa(idx) + "$"), false
	default:
		return test.ErrorMatch("(unclosed[" + strconv.Itoa(idx)), false
	}
}

// silentNonMatch is the matcher of finding F10/K1: ErrorMatch with a valid pattern that does not match a non-nil error.
func silentNonMatch(cs CaseSpec, e errInfo) bool {
	return cs.Pred == 5 && !(cs.PredHit && e.isErr) && e.isErr
}

type caseModel struct {
	applicable  bool
	unsatisfied bool
	silent      bool // unsatisfied only through the silent ErrorMatch non-match
}

func hookFails(h int) bool { return h == 2 || h == 3 }

func modelCase(cs CaseSpec, idx int, marshal bool, tag int) (caseModel, errInfo) {
	var m caseModel
	var e errInfo
	if marshal {
		m.applicable = cs.Constraint == 0 || cs.Constraint == 1
		switch {
		case cs.NilValue:
			e = errInfo{isErr: true, prefix: nilDerefPrefix}
		case cs.MErr == 1:
			e = errInfo{isErr: true, exact: "boom " + strconv.Itoa(tag), prefix: "boom " + strconv.Itoa(tag)}
		case cs.MErr == 2:
			e = errInfo{isErr: true, prefix: "panic: pboom " + strconv.Itoa(tag) + "\n"}
		}
	} else {
		m.applicable = cs.Constraint == 0 || cs.Constraint == 2
		switch cs.UErr {
		case 1:
			e = errInfo{isErr: true, exact: "uboom " + strconv.Itoa(tag), prefix: "uboom " + strconv.Itoa(tag)}
		case 2:
			e = errInfo{isErr: true, prefix: "panic: upboom " + strconv.Itoa(tag) + "\n"}
		}
	}
	if !m.applicable {
		return m, e
	}
	if hookFails(cs.Before) || hookFails(cs.After) {
		m.unsatisfied = true
		return m, e
	}
	_, met := predicate(cs, idx, e)
	if marshal {
		dataNil := cs.NilValue || cs.MErr == 2 || cs.MOut == 2
		dataRight := !dataNil && cs.MOut == 0
		if cs.Pred == 0 {
			m.unsatisfied = e.isErr || !dataRight
		} else {
			m.unsatisfied = !met || !dataNil
		}
	} else {
		stored := cs.UStore // 0 expected, 1 different, 2 nothing
		if cs.Pred == 0 {
			m.unsatisfied = e.isErr || stored != 0 || cs.NilValue
		} else {
			m.unsatisfied = !met || stored != 2
		}
	}
	if m.unsatisfied && cs.Pred != 0 && silentNonMatch(cs, e) {
		// would the case be satisfied if the predicate had been met? if not, another (reported) reason exists as well
		m.silent = true
	}
	return m, e
}

// ---- running a list through the real helpers -----------------------------------------------------------------------------

func hook[C any](kind int, tag int) func(int, *C) error {
	switch kind {
	case 0:
		return nil
	case 1:
		return func(int, *C) error { return nil }
	case 2:
		return func(int, *C) error { return errors.New("hook error " + strconv.Itoa(tag)) }
	default:
		return func(int, *C) error { panic("hook panic " + strconv.Itoa(tag)) }
	}
}

// runList registers the scripts, calls the helper named in spec with a recording TestingT and returns what was recorded.
func runList[T any](spec ListSpec, mkValue func(tag int, payload string, isNil bool) T, indices []int) (rec *recorder, panicked any) {
	base := int(atomic.AddInt64(&tagBase, int64(len(spec.Cases)+8)))
	marshal := strings.HasPrefix(spec.Helper, "Marshal")
	type built struct {
		constraint test.Constraint
		before     int
		after      int
		pred       test.AssertErrorFunc
		data       string
		value      T
		tag        int
	}
	var cases []built
	for _, i := range indices {
		cs := spec.Cases[i]
		tag := base + i
		_, e := modelCase(cs, i, marshal, tag)
		pred, _ := predicate(cs, i, e)
		data := "u:" + strconv.Itoa(tag)
		ms := mScript{}
		switch cs.MOut {
		case 0:
			ms.data = []byte(data)
		case 1:
			ms.data = []byte(data + "-wrong")
		}
		switch cs.MErr {
		case 1:
			ms.err = errors.New("boom " + strconv.Itoa(tag))
		case 2:
			ms.panic = "pboom " + strconv.Itoa(tag)
		}
		mReg.Store(tag, ms)
		us := uScript{tag: tag, payload: "p" + strconv.Itoa(tag)}
		switch cs.UStore {
		case 0:
			us.store = true
		case 1:
			us.store = true
			us.payload = "different"
		}
		switch cs.UErr {
		case 1:
			us.err = errors.New("uboom " + strconv.Itoa(tag))
		case 2:
			us.panic = "upboom " + strconv.Itoa(tag)
		}
		uReg.Store(tag, us)
		defer mReg.Delete(tag)
		defer uReg.Delete(tag)
		cases = append(cases, built{constraint: test.Constraint(cs.Constraint), before: cs.Before, after: cs.After, pred: pred, data: data, value: mkValue(tag, "p"+strconv.Itoa(tag), cs.NilValue), tag: tag})
	}
	rec = &recorder{}
	var th test.TypeHelper[T]
	if spec.CustomHelper {
		th = customHelper[T]{}
	}
	_, panicked = vkit.Panics(func() {
		switch spec.Helper {
		case "MarshalText", "UnmarshalText":
			cs := make([]test.CaseText[T], len(cases))
			for i, b := range cases {
				cs[i] = test.CaseText[T]{Constraint: b.constraint, Before: hook[test.CaseText[T]](b.before, b.tag), After: hook[test.CaseText[T]](b.after, b.tag), Error: b.pred, Data: b.data, Value: b.value}
			}
			if marshal {
				test.MarshalText(rec, cs)
			} else {
				test.UnmarshalText(rec, cs, th)
			}
		case "MarshalBinary", "UnmarshalBinary":
			cs := make([]test.CaseBinary[T], len(cases))
			for i, b := range cases {
				cs[i] = test.CaseBinary[T]{Constraint: b.constraint, Before: hook[test.CaseBinary[T]](b.before, b.tag), After: hook[test.CaseBinary[T]](b.after, b.tag), Error: b.pred, Data: []byte(b.data), Value: b.value}
			}
			if marshal {
				test.MarshalBinary(rec, cs)
			} else {
				test.UnmarshalBinary(rec, cs, th)
			}
		case "MarshalJSON", "UnmarshalJSON":
			cs := make([]test.CaseJSON[T], len(cases))
			for i, b := range cases {
				cs[i] = test.CaseJSON[T]{Constraint: b.constraint, Before: hook[test.CaseJSON[T]](b.before, b.tag), After: hook[test.CaseJSON[T]](b.after, b.tag), Error: b.pred, Data: b.data, Value: b.value}
			}
			if marshal {
				test.MarshalJSON(rec, cs)
			} else {
				test.UnmarshalJSON(rec, cs, th)
			}
		default:
			panic("unknown helper " + spec.Helper)
		}
	})
	return rec, panicked
}

func run(spec ListSpec, indices []int) (*recorder, any) {
	switch spec.Type {
	case "SV":
		return runList(spec, func(tag int, p string, _ bool) SV { return SV{tag, p} }, indices)
	case "SP":
		return runList(spec, func(tag int, p string, isNil bool) *SP {
			if isNil {
				return nil
			}
			return &SP{tag, p}
		}, indices)
	case "NoIface":
		return runList(spec, func(tag int, p string, _ bool) NoIface { return NoIface{tag, p} }, indices)
	case "MOnly":
		return runList(spec, func(tag int, p string, _ bool) MOnly { return MOnly{tag, p} }, indices)
	case "UOnly":
		return runList(spec, func(tag int, p string, _ bool) UOnly { return UOnly{tag, p} }, indices)
	}
	panic("unknown type " + spec.Type)
}

var caseNo = regexp.MustCompile(`case (\d+) failed`)

func hasIface(typ string, marshal bool) bool {
	switch typ {
	case "SV", "SP":
		return true
	case "MOnly":
		return marshal
	case "UOnly":
		return !marshal
	}
	return false
}

func normalise(spec ListSpec) ListSpec {
	out := spec
	out.Cases = append([]CaseSpec{}, spec.Cases...)
	for i := range out.Cases {
		if spec.Type != "SP" {
			out.Cases[i].NilValue = false
		}
	}
	if strings.HasPrefix(spec.Helper, "Marshal") {
		out.CustomHelper = false
	}
	return out
}

func judge(spec ListSpec, w *vkit.W) (anyUnsat bool) {
	defer func() {
		if p := recover(); p != nil {
			w.Fail(spec, "panic", vkit.PanicDetail(p))
		}
	}()
	spec = normalise(spec)
	marshal := strings.HasPrefix(spec.Helper, "Marshal")
	all := make([]int, len(spec.Cases))
	for i := range all {
		all[i] = i
	}
	rec, panicked := run(spec, all)
	if panicked != nil {
		w.Fail(spec, "panic-escaped-helper", fmt.Sprintf("%s[%s] let a panic escape: %v", spec.Helper, spec.Type, panicked))
		return
	}
	if !hasIface(spec.Type, marshal) {
		applicable := false
		for _, cs := range spec.Cases {
			if (marshal && cs.Constraint != 2) || (!marshal && cs.Constraint != 1) {
				applicable = true
			}
		}
		if len(spec.Cases) > 0 && applicable && !rec.failed() {
			w.Fail(spec, "missing-interface-not-reported", fmt.Sprintf("%s[%s]: the type lacks the interface, %d cases, nothing reported", spec.Helper, spec.Type, len(spec.Cases)))
		}
		if len(spec.Cases) == 0 && rec.failed() {
			w.Fail(spec, "empty-list-reported", fmt.Sprintf("%s[%s]: no cases, yet a failure was reported: %v", spec.Helper, spec.Type, rec.errors))
		}
		return len(spec.Cases) > 0
	}
	unsat := map[int]bool{}
	nUnsat, nSilent := 0, 0
	for i, cs := range spec.Cases {
		m, _ := modelCase(cs, i, marshal, 0)
		if m.applicable && m.unsatisfied {
			unsat[i] = true
			nUnsat++
			if m.silent {
				nSilent++
			}
		}
	}
	const key = "errormatch-silent-nonmatch"
	fail := func(silentInvolved bool, class, detail string) {
		if silentInvolved {
			w.FailKnown(key, spec, class, detail)
		} else {
			w.Fail(spec, class, detail)
		}
	}
	switch {
	case nUnsat > 0 && !rec.failed():
		fail(nSilent == nUnsat, "failure-not-reported", fmt.Sprintf("%s[%s]: cases %v are not satisfied, but the helper reported nothing", spec.Helper, spec.Type, keys(unsat)))
	case nUnsat == 0 && rec.failed():
		w.Fail(spec, "spurious-failure", fmt.Sprintf("%s[%s]: every applicable case is satisfied, yet the helper reported: %v (FailNow x%d)", spec.Helper, spec.Type, truncateAll(rec.errors), rec.failNow))
	}
	if len(rec.errors) < nUnsat-nSilent {
		w.Fail(spec, "fewer-reports-than-failing-cases", fmt.Sprintf("%s[%s]: %d cases are not satisfied (%v) but only %d failures were reported", spec.Helper, spec.Type, nUnsat, keys(unsat), len(rec.errors)))
	} else if len(rec.errors) < nUnsat {
		w.FailKnown(key, spec, "fewer-reports-than-failing-cases", fmt.Sprintf("%s[%s]: %d cases are not satisfied (%v) but only %d failures were reported", spec.Helper, spec.Type, nUnsat, keys(unsat), len(rec.errors)))
	}
	for _, msg := range rec.errors {
		for _, mm := range caseNo.FindAllStringSubmatch(msg, -1) {
			n, _ := strconv.Atoi(mm[1])
			if n < len(spec.Cases) && !unsat[n] {
				w.Fail(spec, "satisfied-case-named-as-failed", fmt.Sprintf("%s[%s]: report names case %d, which is satisfied or not applicable: %s", spec.Helper, spec.Type, n, truncate(msg)))
			}
		}
	}
	// per-case verdicts: every applicable case alone
	for i, cs := range spec.Cases {
		m, _ := modelCase(cs, i, marshal, 0)
		if !m.applicable || len(spec.Cases) == 1 {
			continue
		}
		r1, p1 := run(spec, []int{i})
		if p1 != nil {
			w.Fail(spec, "panic-escaped-helper", fmt.Sprintf("%s[%s] with case %d alone let a panic escape: %v", spec.Helper, spec.Type, i, p1))
			continue
		}
		if r1.failed() != m.unsatisfied {
			fail(m.silent, "per-case-verdict", fmt.Sprintf("%s[%s]: case %d alone: reported=%v, model says unsatisfied=%v; reports: %v", spec.Helper, spec.Type, i, r1.failed(), m.unsatisfied, truncateAll(r1.errors)))
		}
	}
	return nUnsat > 0
}

func keys(m map[int]bool) []int {
	var out []int
	for i := 0; i < 64; i++ {
		if m[i] {
			out = append(out, i)
		}
	}
	return out
}

func truncate(s string) string {
	s = strings.ReplaceAll(s, "\n", " | ")
	if len(s) > 300 {
		return s[:300] + "…"
	}
	return s
}

func truncateAll(ss []string) []string {
	out := make([]string, 0, len(ss))
	for i, s := range ss {
		if i == 4 {
			out = append(out, "…")
			break
		}
		out = append(out, truncate(s))
	}
	return out
}

// ---- generation ----------------------------------------------------------------------------------------------------------------

var helpers = []string{"MarshalText", "UnmarshalText", "MarshalBinary", "UnmarshalBinary", "MarshalJSON", "UnmarshalJSON"}
var typesAll = []string{"SV", "SP", "SV", "SP", "NoIface", "MOnly", "UOnly"}

func genCase(rt *rapid.T) CaseSpec {
	hookG := rapid.SampledFrom([]int{0, 0, 0, 1, 1, 2, 3})
	cs := CaseSpec{
		Constraint: rapid.SampledFrom([]int{0, 0, 1, 2}).Draw(rt, "constraint"),
		Before:     hookG.Draw(rt, "before"),
		After:      hookG.Draw(rt, "after"),
		Pred:       rapid.SampledFrom([]int{0, 0, 0, 1, 2, 3, 4, 5, 5, 6}).Draw(rt, "pred"),
		PredHit:    rapid.Bool().Draw(rt, "predHit"),
		MOut:       rapid.SampledFrom([]int{0, 0, 1, 2}).Draw(rt, "mOut"),
		MErr:       rapid.SampledFrom([]int{0, 0, 1, 2}).Draw(rt, "mErr"),
		UStore:     rapid.SampledFrom([]int{0, 0, 1, 2}).Draw(rt, "uStore"),
		UErr:       rapid.SampledFrom([]int{0, 0, 1, 2}).Draw(rt, "uErr"),
		NilValue:   rapid.IntRange(0, 9).Draw(rt, "nilValue") == 0,
	}
	// bias towards coherent cases (an expected error together with an error and no result; a plain success)
	switch rapid.IntRange(0, 3).Draw(rt, "coherent") {
	case 0:
		cs.Pred, cs.MErr, cs.MOut, cs.UErr, cs.UStore, cs.Before, cs.After, cs.NilValue = 0, 0, 0, 0, 0, 0, 0, false
	case 1:
		if cs.Pred == 0 {
			cs.Pred = 1
		}
		cs.PredHit, cs.MErr, cs.MOut, cs.UErr, cs.UStore = true, 1, 2, 1, 2
	}
	return cs
}

func specHash(s ListSpec) uint64 {
	b, _ := json.Marshal(s)
	return vkit.Hash64(string(b))
}

func TestCheck(t *testing.T) {
	r := vkit.Start("C20")
	defer r.Finish(t)
	if r.Replay != "" {
		var c ListSpec
		if err := r.LoadReplay(&c); err != nil {
			t.Fatalf("replay: %v", err)
		}
		r.Serial(func(w *vkit.W) { judge(c, w); w.Eval(true) })
		return
	}
	r.Rule("A case is one helper invocation: helper (6) x scripted type (value type, pointer type, no interface, marshal-only, unmarshal-only) x list of 0-6 case specs (constraint, before/after hook nil/ok/error/panic, error predicate kind with a text chosen to match or miss the scripted error, scripted marshal/unmarshal outcome incl. error with data and panics, nil pointer values) x optional custom TypeHelper. " +
		"Oracle: an independent model of case satisfaction; the helper must report (>= 1 Errorf/FailNow on a recording TestingT) iff some applicable case is unsatisfied or the type lacks the interface, report at least once per unsatisfied case, name only unsatisfied cases in 'case N failed', give the same verdict for each case run alone, and never let a panic escape. " +
		"Non-trivial: lists with an unsatisfied applicable case, a panic, a hook or a missing interface. Distinct by construction (exhaustive single-case grid) or by hash (rapid).")
	r.Regress(func(raw json.RawMessage, w *vkit.W) error {
		var c ListSpec
		if err := json.Unmarshal(raw, &c); err != nil {
			return err
		}
		judge(c, w)
		w.Eval(true)
		return nil
	})

	// Phase A: exhaustive single-case lists over the whole spec space x helpers x types (incl. a satisfied companion case in front).
	r.Phase("A: exhaustive single-case grid (all field combinations) x 6 helpers x 5 types, alone and behind a satisfied case", func() {
		var specs []CaseSpec
		for con := 0; con < 3; con++ {
			for hk := 0; hk < 16; hk++ {
				for pred := 0; pred <= 6; pred++ {
					for hit := 0; hit < 2; hit++ {
						for out := 0; out < 3; out++ {
							for er := 0; er < 3; er++ {
								if (hk/4 > 1 || hk%4 > 1) && (out != 0 || er != 0) && pred > 1 {
									continue // failing hooks dominate: keep only part of that subspace
								}
								specs = append(specs, CaseSpec{Constraint: con, Before: hk / 4, After: hk % 4, Pred: pred, PredHit: hit == 1, MOut: out, MErr: er, UStore: out, UErr: er})
							}
						}
					}
				}
			}
		}
		types := []string{"SV", "SP", "NoIface", "MOnly", "UOnly"}
		r.Parallel(int64(len(specs)), 16, func(w *vkit.W, lo, hi int64) {
			for i := lo; i < hi; i++ {
				for _, h := range helpers {
					for ti, typ := range types {
						if ti >= 2 && i%7 != 0 {
							continue
						}
						for _, front := range []bool{false, true} {
							ls := ListSpec{Helper: h, Type: typ, Cases: []CaseSpec{specs[i]}}
							if front {
								ls.Cases = []CaseSpec{{}, specs[i]}
								ls.CustomHelper = true
							}
							unsat := judge(ls, w)
							w.Eval(unsat || specs[i].Before > 0 || specs[i].After > 0)
							if unsat && front && w.WantSample() && specs[i].Pred == 5 {
								w.Sample(ls)
							}
						}
					}
				}
			}
		})
	})
	r.Exhaustive("all single-case specs (constraint x hooks x predicate kind x hit/miss x outcome) x 6 helpers x value/pointer types (1-in-7 for the interface-less types), alone and behind a satisfied case")

	// Phase A2: all ordered pairs and triples over a palette of representative cases (interaction between cases of one list).
	r.Phase("A2: all ordered pairs and triples over a palette of representative case specs x 6 helpers x value/pointer type", func() {
		pal := []CaseSpec{
			{}, // satisfied in both directions
			{Constraint: 1}, {Constraint: 2},
			{Constraint: 1, MOut: 1}, {Constraint: 2, UStore: 1},
			{MOut: 1, UStore: 1}, // wrong data / value
			{MErr: 1, UErr: 1},   // unexpected error
			{Pred: 1, PredHit: true, MErr: 1, MOut: 2, UErr: 1, UStore: 2},  // expected error, satisfied
			{Pred: 2, PredHit: false, MErr: 1, MOut: 2, UErr: 1, UStore: 2}, // predicate unmet and reports itself
			{Pred: 5, PredHit: false, MErr: 1, MOut: 2, UErr: 1, UStore: 2}, // predicate unmet silently (ErrorMatch)
			{Pred: 5, PredHit: true, MErr: 1, MOut: 2, UErr: 1, UStore: 2},  // ErrorMatch met
			{Pred: 3, PredHit: true, MErr: 1, MOut: 0, UErr: 1, UStore: 0},  // expected error but a result beside it
			{Pred: 1, PredHit: true},                                                  // expected error missing
			{MErr: 2, UErr: 2}, {Pred: 3, PredHit: true, MErr: 2, UErr: 2, UStore: 2}, // panics
			{Before: 2}, {After: 3}, {Before: 1, After: 1},
			{Constraint: 1, Pred: 6, MErr: 1, MOut: 2}, {Constraint: 2, Pred: 5, UErr: 1, UStore: 2},
		}
		np := int64(len(pal))
		r.Parallel(np*np*np, 32, func(w *vkit.W, lo, hi int64) {
			for k := lo; k < hi; k++ {
				a, b, c := pal[k/(np*np)], pal[k/np%np], pal[k%np]
				for hi2, h := range helpers {
					typ := []string{"SV", "SP"}[(int(k)+hi2)%2]
					ls := ListSpec{Helper: h, Type: typ, Cases: []CaseSpec{a, b, c}, CustomHelper: k%3 == 0}
					if k%np == 0 { // also the pair (a, b) on its own
						pair := ListSpec{Helper: h, Type: typ, Cases: []CaseSpec{a, b}}
						w.Eval(judge(pair, w))
					}
					w.Eval(judge(ls, w))
				}
			}
		})
	})
	r.Exhaustive("all ordered pairs and triples over a 20-element palette of case specs x 6 helpers")

	r.Phase("B: rapid case lists of length 0..6", func() {
		r.Rapid(t, "rapid-lists", 0, r.Pick(30000, 1200000), func(rt *rapid.T, w *vkit.W) vkit.RapidCase {
			ls := ListSpec{
				Helper:       rapid.SampledFrom(helpers).Draw(rt, "helper"),
				Type:         rapid.SampledFrom(typesAll).Draw(rt, "type"),
				CustomHelper: rapid.Bool().Draw(rt, "customHelper"),
				Cases:        rapid.SliceOfN(rapid.Custom(genCase), 0, 6).Draw(rt, "cases"),
			}
			ls = normalise(ls)
			unsat := judge(ls, w)
			nt := unsat
			for _, c := range ls.Cases {
				if c.Before > 0 || c.After > 0 || c.MErr == 2 || c.UErr == 2 {
					nt = true
				}
			}
			if unsat {
				w.Class("B_lists_with_unsatisfied_case")
			} else {
				w.Class("B_lists_all_satisfied")
			}
			return vkit.RapidCase{Case: ls, Hash: specHash(ls), NT: nt}
		})
	})
}
