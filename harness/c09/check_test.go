// C09: the date parser accepts only real calendar dates and keeps their components.
package c09

import (
	"encoding/json"
	"errors"
	"fmt"
	"math"
	"strconv"
	"strings"
	"testing"

	"go.lstv.dev/util/date"
	"pgregory.net/rapid"

	"verifharness/ref"
	"verifharness/vkit"
)

// Case is one judged input: a text under one configuration. MaxInputLength is a package global, so it is part
// of the case; the phase that generates the case has already set it (judge sets it again only in replays).
type Case struct {
	Text  vkit.B `json:"text"`
	Rule  int    `json:"rule"`
	Limit int    `json:"max_input_length"`
}

var sentinel = date.New(1234, 5, 6)

type (
	namedS string
	namedB []byte
)

func sameYMD(d date.Date, y int64, m, dd int) bool {
	gy, gm, gd := d.Date()
	return int64(gy) == y && int(gm) == m && gd == dd
}

func judge(c Case, w *vkit.W) {
	defer func() {
		if p := recover(); p != nil {
			w.Fail(c, "panic", vkit.PanicDetail(p))
		}
	}()
	text := string(c.Text)
	v := ref.RecogniseDate(text, c.Limit)
	rule := date.Rule(c.Rule)
	basicOff := c.Rule&int(date.RuleDisableBasic) != 0
	accept := v.OK && !(basicOff && v.Basic)

	check := func(path string, got date.Date, err error, asOK bool) {
		if accept {
			if err != nil {
				w.Fail(c, "valid-date-rejected", fmt.Sprintf("%s(%q): oracle accepts as %04d-%02d-%02d, library returned error %v", path, text, v.Y, v.M, v.D, err))
				return
			}
			if !sameYMD(got, v.Y, v.M, v.D) {
				gy, gm, gd := got.Date()
				w.Fail(c, "components-differ", fmt.Sprintf("%s(%q): written %d-%d-%d, parsed %d-%d-%d", path, text, v.Y, v.M, v.D, gy, int(gm), gd))
			}
			return
		}
		if err == nil {
			gy, gm, gd := got.Date()
			w.Fail(c, "invalid-text-accepted", fmt.Sprintf("%s(%q, rule=%d, limit=%d): oracle rejects (shape=%v tooLong=%v basicDisabled=%v), library returned %d-%d-%d", path, text, c.Rule, c.Limit, v.Shape, v.TooLong, basicOff && v.Basic, gy, int(gm), gd))
			return
		}
		if !got.Equal(date.Date{}) {
			w.Fail(c, "nonzero-result-with-error", fmt.Sprintf("%s(%q): error %v but result %v", path, text, err, got))
		}
		if !asOK {
			w.Fail(c, "error-not-typed", fmt.Sprintf("%s(%q): error %T %v is not a *date.ParseError", path, text, err, err))
		}
		tooLong := errors.Is(err, date.ErrInputTooLong)
		if tooLong != v.TooLong {
			w.Fail(c, "input-too-long-mismatch", fmt.Sprintf("%s(%q, limit=%d): len=%d, ErrInputTooLong=%v", path, text, c.Limit, len(text), tooLong))
		}
		basicErr := errors.Is(err, date.ErrBasicFormatDisabled)
		if basicOff && v.Basic && !basicErr {
			w.Fail(c, "basic-disabled-error-missing", fmt.Sprintf("%s(%q, rule=%d): valid basic-form date must be rejected with ErrBasicFormatDisabled, got %v", path, text, c.Rule, err))
		}
		if basicErr && !(basicOff && v.BasicShape) {
			w.Fail(c, "basic-disabled-error-spurious", fmt.Sprintf("%s(%q, rule=%d): ErrBasicFormatDisabled on a text that is not a basic-form date under a disabling rule", path, text, c.Rule))
		}
	}

	var got date.Date
	var err error
	if w.Flip() { // the order of the two instantiations alternates
		got, err = date.DefaultParser(text, rule)
		check("DefaultParser[string]", got, err, typed(err))
		got, err = date.DefaultParser(w.Scratch(text), rule) // a reused caller buffer
		check("DefaultParser[[]byte]", got, err, typed(err))
	} else {
		got, err = date.DefaultParser(w.Scratch(text), rule)
		check("DefaultParser[[]byte]", got, err, typed(err))
		got, err = date.DefaultParser(text, rule)
		check("DefaultParser[string]", got, err, typed(err))
	}
	if v.Shape || len(text) < 4 {
		// derived input types (constraint.ParserInput is ~string | ~[]byte)
		got, err = date.DefaultParser(namedS(text), rule)
		check("DefaultParser[named string]", got, err, err != nil)
		got, err = date.DefaultParser(namedB(w.Scratch(text)), rule)
		check("DefaultParser[named []byte]", got, err, err != nil)
	}
	if c.Rule == 0 {
		d := sentinel
		err := d.UnmarshalText(w.Scratch(text))
		if err != nil && !d.Equal(sentinel) {
			w.Fail(c, "receiver-changed-on-error", fmt.Sprintf("UnmarshalText(%q): error %v but receiver became %v", text, err, d))
		}
		got := d
		if err != nil {
			got = date.Date{}
		}
		check("UnmarshalText", got, err, typed(err))
	}
}

// typed reports whether err is (or wraps) a *date.ParseError. The statement says "a typed parse error"; it does not
// say which instantiation (the library reports empty input as ParseError[[]byte] also for string input), so either counts.
func typed(err error) bool {
	switch err.(type) {
	case nil:
		return false
	case *date.ParseError[string], *date.ParseError[[]byte]:
		return true
	}
	var ps *date.ParseError[string]
	var pb *date.ParseError[[]byte]
	return errors.As(err, &ps) || errors.As(err, &pb)
}

func setLimit(n int) func() {
	old := date.MaxInputLength
	date.MaxInputLength = n
	return func() { date.MaxInputLength = old }
}

var yearsQuick = []string{
	"0000", "0001", "0004", "0100", "0400", "1000", "1582", "1600", "1700", "1800", "1900", "1970", "1999", "2000", "2001",
	"2019", "2020", "2021", "2022", "2023", "2024", "2038", "2100", "2400", "4000", "9996", "9999",
	"10000", "12345", "20000", "99999", "100000", "123456", "400000", "999999", "1000000", "1234567", "2000000", "9999999",
	"10000000", "12345678", "20240000", "99999999", "100000000", "123456789", "400000000", "999999996", "999999999",
	"1234567890", "0000002020", "2147483647", "9999999999", "00000000002020", "12345678901", "0000000000", // 10+ year digits: never valid
	"00000", "000000000", "00400", "002000", "0001900", "000002024", "2147483647"[0:9], "214748364"[0:9], "0099", "0999", "3000", "5555",
}

var alphabet = []byte("01239-")

func inList(y string) bool {
	for _, s := range yearsQuick {
		if s == y {
			return true
		}
	}
	return false
}

func TestCheck(t *testing.T) {
	r := vkit.Start("C09")
	defer r.Finish(t)
	if r.ReplayCold() {
		return
	}
	if r.Replay != "" {
		var c Case
		if err := r.LoadReplay(&c); err != nil {
			t.Fatalf("replay: %v", err)
		}
		defer setLimit(c.Limit)()
		r.Serial(func(w *vkit.W) { judge(c, w); w.Eval(true) })
		return
	}
	r.Rule("Cases are (text, rule, MaxInputLength) triples judged through DefaultParser[string], DefaultParser[[]byte] and (rule 0) UnmarshalText against a hand-written recogniser + Gregorian calendar. " +
		"Non-trivial: the text has a valid digit/separator layout (so the verdict depends on the calendar) or is a one-byte mutation of a valid text. " +
		"Distinct: enumerated cases are distinct by construction (texts of phase B that phase A already produced are not counted again); mutation and rapid cases are de-duplicated by hash.")
	r.Regress(func(raw json.RawMessage, w *vkit.W) error {
		var c Case
		if err := json.Unmarshal(raw, &c); err != nil {
			return err
		}
		defer setLimit(c.Limit)()
		judge(c, w)
		w.Eval(true)
		return nil
	})

	limits := []int{10, 0, 8, 15}
	rules := []int{0, int(date.RuleDisableBasic)}

	// Phase A: years x MM 00..99 x DD 00..99 x four separator layouts.
	years := yearsQuick
	if r.Thorough() {
		seen := map[string]bool{}
		for _, y := range years {
			seen[y] = true
		}
		g := r.Rng("years", 0)
		for len(years) < 600 {
			digits := 4 + g.Intn(6)
			y := ""
			for i := 0; i < digits; i++ {
				y += string(rune('0' + g.Intn(10)))
			}
			if g.Intn(3) == 0 { // force leap-rule interesting endings
				y = y[:digits-2] + []string{"00", "04", "96", "20", "24"}[g.Intn(5)]
			}
			if !seen[y] {
				seen[y] = true
				years = append(years, y)
			}
		}
	}
	for _, lim := range limits {
		lim := lim
		r.Phase(fmt.Sprintf("A: %d years x MM x DD x 4 layouts, limit=%d", len(years), lim), func() {
			restore := setLimit(lim)
			defer restore()
			r.Parallel(int64(len(years))*100, 5, func(w *vkit.W, lo, hi int64) {
				for i := lo; i < hi; i++ {
					y := years[i/100]
					mm := pad2(int(i % 100))
					for d := 0; d < 100; d++ {
						dd := pad2(d)
						for lay, text := range [4]string{y + "-" + mm + "-" + dd, y + mm + dd, y + "-" + mm + dd, y + mm + "-" + dd} {
							for _, rule := range rules {
								c := Case{Text: vkit.B(text), Rule: rule, Limit: lim}
								judge(c, w)
								w.Eval(lay < 2) // layouts 0,1 have a valid shape
								if lay < 2 && d == 29 && mm == "02" && w.WantSample() {
									w.Sample(c)
								}
							}
						}
					}
				}
			})
		})
	}
	r.Exhaustive(fmt.Sprintf("phase A: %d year texts x MM 00-99 x DD 00-99 x 4 separator layouts x 2 rules x limits %v", len(years), limits))

	// Phase B: every string over {0,1,2,3,9,-} up to length L.
	L := r.Pick(9, 10)
	for _, lim := range []int{0, 8} {
		lim := lim
		r.Phase(fmt.Sprintf("B: all strings over {0,1,2,3,9,-} up to length %d, limit=%d", L, lim), func() {
			restore := setLimit(lim)
			defer restore()
			for n := 0; n <= L; n++ {
				total := int64(1)
				for i := 0; i < n; i++ {
					total *= int64(len(alphabet))
				}
				n := n
				r.Parallel(total, 4096, func(w *vkit.W, lo, hi int64) {
					buf := make([]byte, n)
					for i := lo; i < hi; i++ {
						x := i
						for k := n - 1; k >= 0; k-- {
							buf[k] = alphabet[x%int64(len(alphabet))]
							x /= int64(len(alphabet))
						}
						text := string(buf)
						v := ref.RecogniseDate(text, 0)
						nt := v.Shape && !inList(yearOf(text, v))
						for _, rule := range rules {
							judge(Case{Text: vkit.B(text), Rule: rule, Limit: lim}, w)
							w.Eval(nt)
						}
						if v.OK {
							w.Class("B_valid_dates")
						} else if v.Shape {
							w.Class("B_shape_ok_calendar_invalid")
						}
					}
				})
			}
		})
	}
	r.Exhaustive(fmt.Sprintf("phase B: every string over {0,1,2,3,9,-} of length 0..%d x 2 rules x limits {0,8}", L))

	// Phase C: one-byte substitutions (256 values), insertions (256 values) and deletions at every position of valid texts.
	nTexts := r.Pick(200, 3000)
	for _, lim := range []int{0, 10} {
		lim := lim
		r.Phase(fmt.Sprintf("C: one-byte mutations of %d valid texts, limit=%d", nTexts, lim), func() {
			restore := setLimit(lim)
			defer restore()
			r.Parallel(int64(nTexts), 1, func(w *vkit.W, lo, hi int64) {
				for i := lo; i < hi; i++ {
					g := r.Rng("mut-base", i)
					base := randomValidText(g, i)
					mutate(base, func(m string) {
						for _, rule := range rules {
							judge(Case{Text: vkit.B(m), Rule: rule, Limit: lim}, w)
							w.EvalRandom(vkit.Hash64(m, strconv.Itoa(rule), strconv.Itoa(lim)), true)
						}
					})
					if w.WantSample() {
						w.Sample(Case{Text: vkit.B(base[:len(base)-1] + "\xff"), Rule: 0, Limit: lim})
					}
				}
			})
		})
	}
	r.Sampled()

	// Phase C2: a complete valid date followed or preceded by something else (every 1- and 2-byte tail over a small alphabet,
	// date-like and time-like tails, white space of every kind), limits disabled / raised / default.
	r.Phase("C2: valid dates with tails and heads (all 1- and 2-byte tails over {0,1,9,-,T,space,:,x}, time-of-day and white-space tails)", func() {
		alpha := []byte("019-T :x")
		var tails []string
		for _, a := range alpha {
			tails = append(tails, string(a))
			for _, b := range alpha {
				tails = append(tails, string([]byte{a, b}))
			}
		}
		tails = append(tails, "-17", "-xx", "T-00", "-00", "-1-", " 00:00:00", "T15:12:55Z", "Z", "\n", "\r\n", "\t", "\v", "\f", "\u00a0", "\u0085", "\u2028", "\u3000", "\x00", "-01-01", "0101", "2020-01-01", "-2020-01-01")
		bases := []string{"2020-11-05", "20201105", "12345-12-31", "1234567-01-02", "123456789-01-01", "0001-01-01", "2020011-05", "2020-02-29", "999999999-12-31", "1234561231"}
		for _, lim := range []int{0, 10, 13, 15, 24} {
			lim := lim
			restore := setLimit(lim)
			r.Parallel(int64(len(bases)), 1, func(w *vkit.W, lo, hi int64) {
				for i := lo; i < hi; i++ {
					for _, tl := range tails {
						for _, text := range []string{bases[i] + tl, tl + bases[i], tl + bases[i] + tl} {
							for _, rule := range rules {
								judge(Case{Text: vkit.B(text), Rule: rule, Limit: lim}, w)
								w.EvalRandom(vkit.Hash64(text, strconv.Itoa(rule), strconv.Itoa(lim)), true)
							}
						}
					}
				}
			})
			restore()
		}
	})

	// Phase C3: both separators of an extended text replaced at once - by every pair of byte values, and by the same rune
	// outside ASCII twice (a recogniser that only asks for "some separator, twice the same").
	r.Phase("C3: both separators replaced at once: all 65536 byte pairs and every confusable rune twice, year lengths 4..9, limits 0 and 10", func() {
		runes := ref.ConfusableRunes("0123456789-")
		parts := [][3]string{{"2024", "01", "02"}, {"2024", "02", "29"}, {"0001", "12", "31"}, {"12345", "06", "30"}, {"123456", "01", "01"}, {"123456789", "12", "31"}}
		for _, lim := range []int{0, 10} {
			lim := lim
			restore := setLimit(lim)
			r.Parallel(int64(len(parts))*256, 64, func(w *vkit.W, lo, hi int64) {
				for k := lo; k < hi; k++ {
					p, s1 := parts[k/256], byte(k%256)
					for s2 := 0; s2 < 256; s2++ {
						text := p[0] + string([]byte{s1}) + p[1] + string([]byte{byte(s2)}) + p[2]
						for _, rule := range rules {
							judge(Case{Text: vkit.B(text), Rule: rule, Limit: lim}, w)
						}
						w.EvalRandom(vkit.Hash64("C3", text, strconv.Itoa(lim)), true)
					}
					if k%256 == 0 {
						for _, rn := range runes {
							for _, text := range []string{p[0] + string(rn) + p[1] + string(rn) + p[2], p[0] + string(rn) + p[1] + "-" + p[2], p[0] + "-" + p[1] + string(rn) + p[2]} {
								for _, rule := range rules {
									judge(Case{Text: vkit.B(text), Rule: rule, Limit: lim}, w)
								}
								w.EvalRandom(vkit.Hash64("C3r", text, strconv.Itoa(lim)), true)
							}
						}
					}
				}
			})
			restore()
		}
	})

	// Phase H: the limit is a setting: the same text is parsed again after MaxInputLength was lowered, raised and disabled.
	r.Phase("H: histories - valid texts re-parsed while MaxInputLength changes between the calls", func() {
		r.Serial(func(w *vkit.W) {
			for round := 0; round < 2; round++ {
				for i := int64(0); i < int64(r.Pick(300, 3000)); i++ {
					g := r.Rng("hist", i)
					text := randomValidText(g, i)
					n := len(text)
					for _, lim := range []int{0, n, n - 1, 15, 8, n + 1, n - 1, 0, 10} {
						restore := setLimit(lim)
						for _, rule := range rules {
							judge(Case{Text: vkit.B(text), Rule: rule, Limit: lim}, w)
							w.EvalRandom(vkit.Hash64(text, strconv.Itoa(rule), strconv.Itoa(lim), "h"), true)
						}
						restore()
					}
				}
			}
		})
	})

	r.Phase(fmt.Sprintf("W: %d conventional special texts (empty, null, nil, 0000-00-00, now, today, ...) x rules x limits through every entry point", len(ref.ConventionalTexts)), func() {
		for _, lim := range []int{0, 15, 3, math.MaxInt, math.MaxInt - 1, math.MaxInt - 63, 1 << 31, 1 << 32, -1, math.MinInt} { // a negative limit is non-zero: every text is longer
			restore := setLimit(lim)
			r.Serial(func(w *vkit.W) {
				for _, text := range append(append([]string{}, ref.ConventionalTexts...), ref.Wrapped("2024-02-29", "20240229")...) {
					if lim < 0 && text == "" {
						continue // which of the two reasons an empty text is refused for under a negative limit is not specified
					}
					for _, rule := range rules {
						judge(Case{Text: vkit.B(text), Rule: rule, Limit: lim}, w)
						w.EvalRandom(vkit.Hash64("W", text, strconv.Itoa(rule), strconv.Itoa(lim)), true)
					}
				}
			})
			restore()
		}
	})

	r.ColdPhase(coldFirst)

	r.Phase("W3: a text parsed, then N distinct other texts (N = 1..200000 on a ladder around powers of two), then the same text again", func() {
		defer setLimit(10)()
		r.Serial(func(w *vkit.W) {
			filler := int64(0)
			for li, n := range []int{1, 2, 3, 31, 32, 33, 63, 64, 65, 127, 128, 129, 255, 256, 257, 511, 512, 513, 1023, 1024, 1025, 2047, 2048, 2049, 4096, 8192, 65536, 200000} {
				x := ref.DateText(int64(2000+li), 2, 28, false)
				y := ref.DateText(int64(1000+n%8000), 12, 31, true)
				for _, rule := range rules {
					judge(Case{Text: vkit.B(x), Rule: rule, Limit: 10}, w)
					judge(Case{Text: vkit.B(y), Rule: rule, Limit: 10}, w)
				}
				for k := 0; k < n; k++ {
					filler++
					yy, mm, dd := ref.CivilFromDays(ref.Ord0 + filler*7%3652000)
					t := ref.DateText(yy, mm, dd, filler%2 == 0)
					if filler%3 == 0 {
						_, _ = date.DefaultParser([]byte(t), 0)
					} else {
						_, _ = date.DefaultParser(t, date.RuleDisableBasic)
					}
				}
				for _, rule := range rules {
					judge(Case{Text: vkit.B(x), Rule: rule, Limit: 10}, w)
					judge(Case{Text: vkit.B(y), Rule: rule, Limit: 10}, w)
				}
				w.EvalRandom(vkit.Hash64("W3", x), true)
			}
		})
	})

	// Phase F: what the parser accepts does not depend on how dates are printed: a custom package-level Formatter is installed.
	r.Phase("F: texts judged while a custom package-level Formatter (day.month.year) is installed", func() {
		old := date.Formatter
		defer func() { date.Formatter = old }()
		date.Formatter = func(buf []byte, d date.Date, f date.Format) ([]byte, error) {
			return append(buf, fmt.Sprintf("%02d.%02d.%d", d.Day(), int(d.Month()), d.Year())...), nil
		}
		defer setLimit(10)()
		r.Serial(func(w *vkit.W) {
			for _, text := range []string{"2002-08-07", "20020807", "2024-02-29", "2023-02-29", "0000-01-01", "9999-12-31", "2002-8-7", "07.08.2002", "2002-08-07x", "", "00000000", "2002-13-01", "1999-12-31"} {
				for _, rule := range rules {
					judge(Case{Text: vkit.B(text), Rule: rule, Limit: 10}, w)
					w.EvalRandom(vkit.Hash64("F", text, strconv.Itoa(rule)), true)
				}
			}
		})
	})

	// Phase L: lengths that alias a valid length modulo 2^8 or 2^16: a valid text followed (or preceded) by k x 256 more bytes.
	r.Phase("L: valid texts followed or preceded by 1..2^20 further bytes (255, 256, 257, ..., 65536, ...), limit disabled", func() {
		defer setLimit(0)()
		r.Parallel(int64(len([]int{1, 255, 256, 257, 511, 512, 513, 65535, 65536, 65537, 1 << 20})), 1, func(w *vkit.W, lo, hi int64) {
			for i := lo; i < hi; i++ {
				n := []int{1, 255, 256, 257, 511, 512, 513, 65535, 65536, 65537, 1 << 20}[i]
				for _, base := range []string{"2024-02-29", "20240229", "12345-01-01"} {
					for _, pad := range []string{"0", "-", " ", "\x00", "9"} {
						for _, text := range []string{base + strings.Repeat(pad, n), strings.Repeat(pad, n) + base} {
							for _, rule := range rules {
								judge(Case{Text: vkit.B(text), Rule: rule, Limit: 0}, w)
								w.EvalRandom(vkit.Hash64("L", base, pad, strconv.Itoa(n), strconv.Itoa(rule)), true)
							}
						}
					}
				}
			}
		})
	})

	// Phase R: runes that fold, truncate or widen to a digit or a hyphen (among them the typographic hyphens and minus signs):
	// inserted, put in place of one byte, and put in place of as many bytes as they are long.
	r.Phase("R: confusable runes (incl. U+2010, U+2011, U+2212, full-width digits) inserted and substituted at every position of valid texts, limits 10, 15, 0", func() {
		runes := ref.ConfusableRunes("0123456789-")
		runes = append(runes, 0x2011, 0x2012, 0x2013, 0x2014, 0x00AD, 0xFE63, 0xFF0D, 0x2043)
		bases := []string{"2024-02-29", "20240229", "12345-01-01", "0001-01-01"}
		for _, lim := range []int{10, 15, 0} {
			restore := setLimit(lim)
			r.Parallel(int64(len(runes)), 8, func(w *vkit.W, lo, hi int64) {
				for i := lo; i < hi; i++ {
					rs := string(runes[i])
					for _, base := range bases {
						for pos := 0; pos <= len(base); pos++ {
							texts := []string{base[:pos] + rs + base[pos:]}
							if pos < len(base) {
								texts = append(texts, base[:pos]+rs+base[pos+1:])
								if base[pos] == '-' { // both separators at once
									texts = append(texts, strings.ReplaceAll(base, "-", rs))
								}
							}
							if pos+len(rs) <= len(base) {
								texts = append(texts, base[:pos]+rs+base[pos+len(rs):])
							}
							for _, text := range texts {
								for _, rule := range rules {
									judge(Case{Text: vkit.B(text), Rule: rule, Limit: lim}, w)
									w.EvalRandom(vkit.Hash64("R", text, strconv.Itoa(rule), strconv.Itoa(lim)), true)
								}
							}
						}
					}
				}
			})
			restore()
		}
	})

	// Phase D: rapid - random valid and near-valid texts under random configuration (shrinks to a minimal text).
	r.Phase("D: rapid texts", func() {
		var lim int
		r.Rapid(t, "rapid-texts", 0, r.Pick(20000, 400000), func(rt *rapid.T, w *vkit.W) vkit.RapidCase {
			text := genText(rt)
			c := Case{Text: vkit.B(text), Rule: rapid.SampledFrom([]int{0, 1, 2, 3, -1}).Draw(rt, "rule"), Limit: rapid.SampledFrom([]int{0, 8, 10, 11, 15, 16}).Draw(rt, "limit")}
			lim = c.Limit
			restore := setLimit(lim)
			defer restore()
			judge(c, w)
			v := ref.RecogniseDate(text, 0)
			return vkit.RapidCase{Case: c, Hash: vkit.Hash64(text, strconv.Itoa(c.Rule), strconv.Itoa(c.Limit)), NT: v.Shape}
		})
	})
}

func yearOf(text string, v ref.DateVerdict) string {
	if !v.Shape {
		return ""
	}
	if v.BasicShape || (len(text) >= 4 && text[len(text)-3] != '-') {
		return text[:len(text)-4]
	}
	return text[:len(text)-6]
}

func pad2(n int) string { return string([]byte{byte('0' + n/10), byte('0' + n%10)}) }

func randomValidText(g *vkit.Rng, i int64) string {
	digits := 4
	if i%3 == 1 {
		digits = 4 + g.Intn(6)
	}
	y := int64(0)
	for k := 0; k < digits; k++ {
		y = y*10 + int64(g.Intn(10))
	}
	m := 1 + g.Intn(12)
	d := 1 + g.Intn(ref.DaysIn(y, m))
	if g.Intn(4) == 0 {
		d = ref.DaysIn(y, m)
	}
	ys := strconv.FormatInt(y, 10)
	for len(ys) < digits {
		ys = "0" + ys
	}
	if i%2 == 0 {
		return ys + "-" + pad2(m) + "-" + pad2(d)
	}
	return ys + pad2(m) + pad2(d)
}

func mutate(base string, f func(string)) {
	b := []byte(base)
	for pos := 0; pos <= len(b); pos++ {
		for v := 0; v < 256; v++ {
			if pos < len(b) && byte(v) != b[pos] {
				m := append([]byte{}, b...)
				m[pos] = byte(v)
				f(string(m))
			}
			m := make([]byte, 0, len(b)+1)
			m = append(m, b[:pos]...)
			m = append(m, byte(v))
			m = append(m, b[pos:]...)
			f(string(m))
		}
		if pos < len(b) {
			f(string(b[:pos]) + string(b[pos+1:]))
		}
	}
}

// genText draws a date-like text: year digits, month, day (valid or slightly out of range), one of the four layouts,
// then optionally one edit.
func genText(rt *rapid.T) string {
	digits := rapid.IntRange(3, 10).Draw(rt, "yearDigits")
	y := ""
	for i := 0; i < digits; i++ {
		y += string(rune('0' + rapid.IntRange(0, 9).Draw(rt, "yd")))
	}
	m := rapid.IntRange(0, 14).Draw(rt, "month")
	d := rapid.IntRange(0, 33).Draw(rt, "day")
	mm, dd := pad2(m), pad2(d)
	var s string
	switch rapid.IntRange(0, 5).Draw(rt, "layout") {
	case 0, 1:
		s = y + "-" + mm + "-" + dd
	case 2, 3:
		s = y + mm + dd
	case 4:
		s = y + "-" + mm + dd
	default:
		s = y + mm + "-" + dd
	}
	if rapid.IntRange(0, 3).Draw(rt, "edit") == 0 && len(s) > 0 {
		b := []byte(s)
		pos := rapid.IntRange(0, len(b)-1).Draw(rt, "pos")
		switch rapid.IntRange(0, 2).Draw(rt, "editKind") {
		case 0:
			b[pos] = rapid.Byte().Draw(rt, "byte")
		case 1:
			b = append(b[:pos], b[pos+1:]...)
		default:
			b = append(b[:pos], append([]byte{rapid.Byte().Draw(rt, "byte")}, b[pos:]...)...)
		}
		s = string(b)
	}
	return s
}
