package c09

import (
	"testing"

	"verifharness/vkit"
)

// FuzzDateText: differential fuzzing of the date parser against the hand-written recogniser (thorough tier), default limit and disabled limit.
func FuzzDateText(f *testing.F) {
	for _, s := range []string{"2022-08-07", "20220807", "0001-01-01", "9999-12-31", "2024-02-29", "2023-02-29", "12345-01-01", "999999999-12-31", "1234560102", "2020-00-10", "2020-0101", "12345-0101"} {
		f.Add([]byte(s), 0)
		f.Add([]byte(s), 1)
	}
	f.Fuzz(func(t *testing.T, in []byte, rule int) {
		if len(in) > 256 {
			return
		}
		for _, lim := range []int{10, 0} {
			restore := setLimit(lim)
			w := vkit.FuzzW("C09")
			c := Case{Text: vkit.B(in), Rule: rule, Limit: lim}
			judge(c, w)
			restore()
			vkit.FuzzReport(t, "C09", w, c)
		}
	})
}
