package c09

import (
	"fmt"
	"strings"
	"testing"
	_ "time/tzdata"

	"go.lstv.dev/util/date"

	"verifharness/vkit"
)

// coldFirst: the call made first in a fresh process.
var coldFirst = map[string]func(){
	"parse extended":       func() { _, _ = date.DefaultParser("2024-02-29", 0) },
	"parse basic bytes":    func() { _, _ = date.DefaultParser([]byte("20240229"), 0) },
	"parse basic disabled": func() { _, _ = date.DefaultParser("20240229", date.RuleDisableBasic) },
	"parse long year":      func() { _, _ = date.DefaultParser("123456789-12-31", 0) },
	"parse invalid day":    func() { _, _ = date.DefaultParser("2023-02-29", 0) },
	"parse garbage":        func() { _, _ = date.DefaultParser("\x00", 0) },
	"parse empty":          func() { _, _ = date.DefaultParser("", 0) },
	"unmarshaltext":        func() { var d date.Date; _ = d.UnmarshalText([]byte("2000-01-01")) },
	"scan string":          func() { var d date.Date; _ = d.Scan("1999-12-31") },
	"format":               func() { _ = date.New(2024, 2, 29).String() },
	"unmarshalbinary":      func() { var d date.Date; _ = d.UnmarshalBinary([]byte{1, 0, 0, 7, 232, 2, 29}) },
}

func init() {
	for _, z := range []string{"Pacific/Apia", "America/Sao_Paulo", "America/Havana", "Asia/Beirut", "America/Asuncion", "Africa/Cairo", "Pacific/Kiritimati", "America/Santiago"} {
		coldFirst["tz="+z+"; parse extended"] = func() { _, _ = date.DefaultParser("2011-12-30", 0) }
	}
	// the first parse of the process happens under another limit than the later ones
	for _, lim := range []int{8, 9, 0, 13} {
		lim := lim
		coldFirst[fmt.Sprintf("first parse under MaxInputLength %d", lim)] = func() {
			defer setLimit(lim)()
			_, _ = date.DefaultParser("20240229", 0)
		}
	}
}

func TestColdStart(t *testing.T) {
	vkit.ColdMain(t, "C09", coldFirst, func(w *vkit.W) {
		if strings.HasPrefix(vkit.ColdScenario(), "tz=") {
			for _, y := range []int{1994, 2011, 2013, 2014, 2018, 2019} {
				for m := 1; m <= 12; m++ {
					for d := 1; d <= 31; d++ {
						judge(Case{Text: vkit.B(fmt.Sprintf("%04d-%02d-%02d", y, m, d)), Limit: 10}, w)
						judge(Case{Text: vkit.B(fmt.Sprintf("%04d%02d%02d", y, m, d)), Limit: 10}, w)
					}
				}
			}
		}
		if strings.HasPrefix(vkit.ColdScenario(), "first parse under") {
			for _, lim := range []int{0, 15, 17, 10, 8} {
				restore := setLimit(lim)
				for _, text := range []string{"12345-01-01", "123456-12-31", "1234567-02-28", "12345678-02-29", "123456789-12-31", "1234567890-01-01", "123450101", "1234567890101", "2024-02-29", "20240229"} {
					for _, rule := range []int{0, int(date.RuleDisableBasic)} {
						judge(Case{Text: vkit.B(text), Rule: rule, Limit: lim}, w)
					}
				}
				restore()
			}
		}
		for _, text := range []string{"2024-02-29", "20240229", "2023-02-29", "20230229", "2000-01-01", "1999-12-31", "2011-12-30", "\x00", "0000-01-01", "9999-12-31", "10000-01-01", "2024-13-01", "2024-00-10", "2024-1-01", "2024-01-1", "202-01-01", "2024-0101", "202401-01", "", "x", "2024-02-29 ", " 2024-02-29", "2024-02-30", "1900-02-29", "2000-02-29", "２０２４-02-29"} {
			for _, rule := range []int{0, int(date.RuleDisableBasic)} {
				judge(Case{Text: vkit.B(text), Rule: rule, Limit: 10}, w)
			}
		}
	})
}
