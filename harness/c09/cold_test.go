package c09

import (
	"testing"

	"go.lstv.dev/util/date"

	"verifharness/vkit"
)

// coldFirst: the call made first in a fresh process.
var coldFirst = map[string]func(){
	"parse extended":       func() { _, _ = date.DefaultParser("2024-02-29", 0) },
	"parse basic bytes":    func() { _, _ = date.DefaultParser([]byte("20240229"), 0) },
	"parse basic disabled": func() { _, _ = date.DefaultParser("20240229", date.RuleDisableBasic) },
	"parse long year":      func() { _, _ = date.DefaultParser("123456789-12-31", 0) },
	"parse invalid day":    func() { _, _ = date.DefaultParser("2023-02-29", 0) },
	"parse garbage":        func() { _, _ = date.DefaultParser("\x00", 0) },
	"parse empty":          func() { _, _ = date.DefaultParser("", 0) },
	"unmarshaltext":        func() { var d date.Date; _ = d.UnmarshalText([]byte("2000-01-01")) },
	"scan string":          func() { var d date.Date; _ = d.Scan("1999-12-31") },
	"format":               func() { _ = date.New(2024, 2, 29).String() },
	"unmarshalbinary":      func() { var d date.Date; _ = d.UnmarshalBinary([]byte{1, 0, 0, 7, 232, 2, 29}) },
}

func TestColdStart(t *testing.T) {
	vkit.ColdMain(t, "C09", coldFirst, func(w *vkit.W) {
		for _, text := range []string{"2024-02-29", "20240229", "2023-02-29", "20230229", "0000-01-01", "9999-12-31", "10000-01-01", "2024-13-01", "2024-00-10", "2024-1-01", "2024-01-1", "202-01-01", "2024-0101", "202401-01", "", "x", "2024-02-29 ", " 2024-02-29", "2024-02-30", "1900-02-29", "2000-02-29", "２０２４-02-29"} {
			for _, rule := range []int{0, int(date.RuleDisableBasic)} {
				judge(Case{Text: vkit.B(text), Rule: rule, Limit: 10}, w)
			}
		}
	})
}
