// C02: roman numerals round-trip under every format flag combination and are canonical.
package c02

import (
	"encoding/json"
	"errors"
	"fmt"
	"testing"

	"go.lstv.dev/util/roman"
	"pgregory.net/rapid"

	"verifharness/ref"
	"verifharness/vkit"
)

// Case: number n formatted with the flag subset Flags (bit i = i-th entry of flagTable, i.e. named library flags,
// not raw bit values), with the package settings DefaultFormat (same encoding) and MaxInputLength.
// Path selects what is exercised: "formatter" (DefaultFormatter + parser/Valid round-trip) or "methods"
// (MarshalText/String/%s under DefaultFormat, %R %r %L %l, UnmarshalText).
type Case struct {
	N       uint64 `json:"n"`
	Flags   int    `json:"flags"`
	Default int    `json:"default_format"`
	Limit   int    `json:"max_input_length"`
	Path    string `json:"path"`
	// Hooks: before the case is judged, custom package-level Formatter and Parser functions are installed, used and removed.
	Hooks bool `json:"after_custom_hooks,omitempty"`
}

// pokeWithCustomHooks: the package-level Formatter and Parser are settings; what was produced under one setting must not be
// handed out under the next.
func pokeWithCustomHooks(n roman.Number) {
	oldF, oldP := roman.Formatter, roman.Parser
	defer func() { roman.Formatter, roman.Parser = oldF, oldP }()
	roman.Formatter = func(buf []byte, n roman.Number, f roman.Format) ([]byte, error) {
		return append(buf, fmt.Sprintf("custom<%d>", uint64(n))...), nil
	}
	roman.Parser = func(input []byte, r roman.Rule) (roman.Number, error) { return 666, nil }
	_ = n.String()
	_ = fmt.Sprintf("%s %v %R %r %L %l", n, n, n, n, n, n)
	_, _ = n.MarshalText()
	var u roman.Number
	_ = u.UnmarshalText([]byte(ref.RomanNumeral(uint64(n), 0)))
	// second stage: a Formatter that fails (after writing something), used once, before the defaults come back
	roman.Formatter = func(buf []byte, n roman.Number, f roman.Format) ([]byte, error) {
		return append(buf, "part"...), errors.New("formatter refused")
	}
	_ = n.String()
	_ = fmt.Sprintf("%s %l", n, n)
	_, _ = n.MarshalText()
}

var flagTable = []struct {
	lib roman.Format
	ref int
}{
	{roman.FormatLong4, ref.RLong4}, {roman.FormatLong40, ref.RLong40}, {roman.FormatLong400, ref.RLong400},
	{roman.FormatLong9, ref.RLong9}, {roman.FormatLong90, ref.RLong90}, {roman.FormatLong900, ref.RLong900},
	{roman.FormatLowerCase, ref.RLower},
}

func libFlags(sub int) (f roman.Format) {
	for i, e := range flagTable {
		if sub>>uint(i)&1 == 1 {
			f |= e.lib
		}
	}
	return
}

func refFlags(sub int) (f int) {
	for i, e := range flagTable {
		if sub>>uint(i)&1 == 1 {
			f |= e.ref
		}
	}
	return
}

type (
	namedS string
	namedB []byte
)

const (
	subLong  = 0x3f
	subLower = 0x40
)

func judge(c Case, w *vkit.W) {
	defer func() {
		if p := recover(); p != nil {
			w.Fail(c, "panic", vkit.PanicDetail(p))
		}
	}()
	if c.Hooks {
		pokeWithCustomHooks(roman.Number(c.N))
	}
	fits := func(s string) bool { return c.Limit == 0 || len(s) <= c.Limit }
	roundTrip := func(path, text string, flagsSub int) {
		n := roman.Number(c.N)
		if len(text) > 1<<20 { // megabyte numerals: the detail texts name the number instead of quoting the numeral
			path = fmt.Sprintf("%s [numeral of %d, %d bytes]", path, c.N, len(text))
		}
		if fits(text) {
			if err := roman.Valid(text, 0); err != nil {
				w.Fail(c, "valid-rejects-formatted-numeral", fmt.Sprintf("%s: Valid(%q) = %v (n=%d flags=%#x)", path, text, err, c.N, flagsSub))
			}
			// the rule only speaks about the empty text: every other numeral is as valid under it as without it
			if text != "" {
				if err := roman.Valid(text, roman.RuleDisableEmptyAsZero); err != nil {
					w.Fail(c, "valid-rejects-formatted-numeral", fmt.Sprintf("%s: Valid(%q, RuleDisableEmptyAsZero) = %v (n=%d flags=%#x)", path, text, err, c.N, flagsSub))
				}
			}
			if (c.N%16 == 5 || c.N > 129000) && c.N < 1000000 { // the other instantiations of the validity check and of the parser (constraint: ~string | ~[]byte)
				if err := roman.Valid(w.Scratch(text), 0); err != nil {
					w.Fail(c, "valid-rejects-formatted-numeral", fmt.Sprintf("%s: Valid[[]byte](%q) = %v (n=%d flags=%#x)", path, text, err, c.N, flagsSub))
				}
				if err := roman.Valid(namedS(text), 0); err != nil {
					w.Fail(c, "valid-rejects-formatted-numeral", fmt.Sprintf("%s: Valid[named string](%q) = %v (n=%d flags=%#x)", path, text, err, c.N, flagsSub))
				}
				if err := roman.Valid(namedB(w.Scratch(text)), 0); err != nil {
					w.Fail(c, "valid-rejects-formatted-numeral", fmt.Sprintf("%s: Valid[named []byte](%q) = %v (n=%d flags=%#x)", path, text, err, c.N, flagsSub))
				}
				if got, err := roman.DefaultParser(namedS(text), 0); err != nil || got != n {
					w.Fail(c, "round-trip-differs", fmt.Sprintf("%s: DefaultParser[named string](%q) = %d, %v; want %d", path, text, uint64(got), err, c.N))
				}
				if got, err := roman.DefaultParser(namedB(w.Scratch(text)), 0); err != nil || got != n {
					w.Fail(c, "round-trip-differs", fmt.Sprintf("%s: DefaultParser[named []byte](%q) = %d, %v; want %d", path, text, uint64(got), err, c.N))
				}
			}
			parseString := func() {
				got, err := roman.DefaultParser(text, 0)
				if err != nil || got != n {
					w.Fail(c, "round-trip-differs", fmt.Sprintf("%s: DefaultParser[string](%q) = %d, %v; want %d (flags=%#x)", path, text, uint64(got), err, c.N, flagsSub))
				}
			}
			parseBytes := func() {
				got, err := roman.DefaultParser(w.Scratch(text), roman.RuleDisableEmptyAsZero) // a reused caller buffer
				if text == "" {
					if err == nil {
						w.Fail(c, "empty-accepted-under-rule", "DefaultParser(\"\", RuleDisableEmptyAsZero) returned no error")
					}
				} else if err != nil || got != n {
					w.Fail(c, "round-trip-differs", fmt.Sprintf("%s: DefaultParser[[]byte](%q) = %d, %v; want %d", path, text, uint64(got), err, c.N))
				}
			}
			if w.Flip() { // the order of the two instantiations alternates
				parseString()
				parseBytes()
			} else {
				parseBytes()
				parseString()
			}
			var u roman.Number = 987654321
			if err := u.UnmarshalText(w.Scratch(text)); err != nil || u != n {
				w.Fail(c, "round-trip-differs", fmt.Sprintf("%s: UnmarshalText(%q) -> %d, %v; want %d", path, text, uint64(u), err, c.N))
			}
		} else {
			if err := roman.Valid(text, 0); !errors.Is(err, roman.ErrInputTooLong) {
				w.Fail(c, "limit-not-enforced", fmt.Sprintf("%s: Valid on %d-byte numeral with limit %d = %v", path, len(text), c.Limit, err))
			}
			if got, err := roman.DefaultParser(text, 0); !errors.Is(err, roman.ErrInputTooLong) || got != 0 {
				w.Fail(c, "limit-not-enforced", fmt.Sprintf("%s: DefaultParser on %d-byte numeral with limit %d = %d, %v", path, len(text), c.Limit, uint64(got), err))
			}
		}
	}
	n := roman.Number(c.N)
	switch c.Path {
	case "formatter":
		want := ref.RomanNumeral(c.N, refFlags(c.Flags))
		out, err := roman.DefaultFormatter(nil, n, libFlags(c.Flags))
		if err != nil {
			w.Fail(c, "formatter-error", fmt.Sprintf("DefaultFormatter(%d, %#x) error %v", c.N, c.Flags, err))
		}
		if string(out) != want {
			w.Fail(c, "not-canonical", fmt.Sprintf("DefaultFormatter(nil, %d, flags subset %#x) = %q, canonical numeral is %q", c.N, c.Flags, out, want))
		}
		w.RetainBytes(c, "DefaultFormatter(nil)", out, want) // kept as returned until the next numeral has been formatted
		if c.N%8 == 3 || c.N < 16 {                          // the returned bytes belong to the caller
			if o2, err := roman.DefaultFormatter(nil, n, libFlags(c.Flags)); err == nil {
				w.Owned(c, "DefaultFormatter(nil)", o2, want, func() ([]byte, error) { return roman.DefaultFormatter(nil, n, libFlags(c.Flags)) })
			}
		}
		if pre, err := roman.DefaultFormatter([]byte("MCMXCIV xiv "), n, libFlags(c.Flags)); err != nil || string(pre) != "MCMXCIV xiv "+want {
			w.Fail(c, "not-canonical", fmt.Sprintf("DefaultFormatter(a buffer holding two numerals, %d, flags subset %#x) = %q, %v; want %q", c.N, c.Flags, pre, err, "MCMXCIV xiv "+want))
		}
		if pre, err := roman.DefaultFormatter(append(make([]byte, 0, 192), "n="...), n, libFlags(c.Flags)); err != nil || string(pre) != "n="+want {
			w.Fail(c, "not-canonical", fmt.Sprintf("DefaultFormatter(\"n=\" with spare capacity, %d, flags subset %#x) = %q, %v; want %q", c.N, c.Flags, pre, err, "n="+want))
		}
		roundTrip("DefaultFormatter", string(out), c.Flags)
	case "methods":
		wantDef := ref.RomanNumeral(c.N, refFlags(c.Default))
		b, err := n.MarshalText()
		if err != nil || string(b) != wantDef {
			w.Fail(c, "not-canonical", fmt.Sprintf("MarshalText(%d) under DefaultFormat subset %#x = %q, %v; want %q", c.N, c.Default, b, err, wantDef))
		}
		if s := n.String(); s != wantDef {
			w.Fail(c, "not-canonical", fmt.Sprintf("String(%d) under DefaultFormat subset %#x = %q want %q", c.N, c.Default, s, wantDef))
		}
		for _, v := range []struct {
			verb string
			sub  int
		}{{"%s", c.Default}, {"%v", c.Default}, {"%R", 0}, {"%r", subLower}, {"%L", subLong}, {"%l", subLong | subLower}} {
			want := ref.RomanNumeral(c.N, refFlags(v.sub))
			if got := fmt.Sprintf(v.verb, n); got != want {
				w.Fail(c, "not-canonical", fmt.Sprintf("Sprintf(%q, %d) under DefaultFormat subset %#x = %q want %q", v.verb, c.N, c.Default, got, want))
			}
		}
		// the same verbs reach the number inside containers and through the other print functions
		wl := ref.RomanNumeral(c.N, refFlags(subLong|subLower))
		for _, v := range []struct{ path, got, want string }{
			{"Sprint", fmt.Sprint(n), wantDef}, {"Sprintln", fmt.Sprintln(n), wantDef + "\n"}, {"Sprintf(%+v)", fmt.Sprintf("%+v", n), wantDef},
			{"Sprintf(%v) of a slice", fmt.Sprintf("%v", []roman.Number{n, n}), "[" + wantDef + " " + wantDef + "]"},
			{"Sprintf(%l) of a slice", fmt.Sprintf(verbLower, []roman.Number{n}), "[" + wl + "]"},
			{"Sprintf(%v) of a struct", fmt.Sprintf("%v", struct{ N roman.Number }{n}), "{" + wantDef + "}"},
			{"Sprintf(%s) of an interface value", fmt.Sprintf("%s", any(n)), wantDef},
		} {
			if v.got != v.want {
				w.Fail(c, "not-canonical", fmt.Sprintf("%s of %d under DefaultFormat subset %#x = %q want %q", v.path, c.N, c.Default, v.got, v.want))
			}
		}
		if err == nil && string(b) == wantDef {
			w.RetainBytes(c, "MarshalText", b, wantDef)
		}
		if b2, err := n.MarshalText(); err == nil {
			w.Owned(c, "MarshalText", b2, wantDef, n.MarshalText)
		}
		roundTrip("MarshalText", string(b), c.Default)
	case "failing-formatter": // replay of phase B2
		old := roman.Formatter
		roman.Formatter = func(buf []byte, n roman.Number, f roman.Format) ([]byte, error) {
			if n%2 == 0 { // a formatter that fails half-way has already written something
				return append(buf, "partial "...), errors.New("formatter refused")
			}
			return nil, errors.New("formatter refused")
		}
		defer func() { roman.Formatter = old }()
		for _, v := range []struct {
			verb string
			sub  int
		}{{"%s", c.Default}, {"%v", c.Default}, {"%R", 0}, {"%r", subLower}, {"%L", subLong}, {"%l", subLong | subLower}} {
			want := ref.RomanNumeral(c.N, refFlags(v.sub))
			if got := fmt.Sprintf(v.verb, n); got != want {
				w.Fail(c, "not-canonical", fmt.Sprintf("with a failing Formatter, Sprintf(%q, %d) under DefaultFormat subset %#x = %q want %q", v.verb, c.N, c.Default, got, want))
			}
		}
	default:
		w.Fail(c, "bad-case", "unknown path "+c.Path)
	}
}

var verbLower = "%l" // not a constant: go vet does not know the library's own verbs

func fmtL(n roman.Number) string { return fmt.Sprintf("%l", n) }

func configure(def, limit int) func() {
	oldF, oldL := roman.DefaultFormat, roman.MaxInputLength
	roman.DefaultFormat, roman.MaxInputLength = libFlags(def), limit
	return func() { roman.DefaultFormat, roman.MaxInputLength = oldF, oldL }
}

var suiteNumbers = map[uint64]bool{0: true, 1: true, 4: true, 9: true, 14: true, 19: true, 24: true, 40: true, 49: true, 90: true, 400: true, 900: true, 1994: true, 2022: true, 3999: true, 15749: true}

func nontrivial(n uint64, flags int) bool { return n > 0 && (flags != 0 || !suiteNumbers[n]) }

func TestCheck(t *testing.T) {
	r := vkit.Start("C02")
	defer r.Finish(t)
	if r.ReplayCold() {
		return
	}
	if r.Replay != "" {
		var c Case
		if err := r.LoadReplay(&c); err != nil {
			t.Fatalf("replay: %v", err)
		}
		defer configure(c.Default, c.Limit)()
		r.Serial(func(w *vkit.W) { judge(c, w); w.Eval(true) })
		return
	}
	r.Rule("Cases are (n, flag subset, DefaultFormat, MaxInputLength, path). The formatter output is compared with a rule-based numeral builder and parsed back through Valid, DefaultParser[string], DefaultParser[[]byte] and UnmarshalText; numerals longer than the limit must be refused with ErrInputTooLong. " +
		"Non-trivial: n > 0 and (flags != 0 or n is not one of the numbers the unit tests use). Distinct by construction (enumeration) or by hash (rapid).")
	r.Regress(func(raw json.RawMessage, w *vkit.W) error {
		var c Case
		if err := json.Unmarshal(raw, &c); err != nil {
			return err
		}
		defer configure(c.Default, c.Limit)()
		judge(c, w)
		w.Eval(true)
		return nil
	})
	const maxN = 130000
	nSmall := int64(r.Pick(20000, maxN+1))

	for _, lim := range []int{128, 0} {
		lim := lim
		r.Phase(fmt.Sprintf("A: DefaultFormatter, n < %d x all 128 flag subsets, limit=%d", nSmall, lim), func() {
			defer configure(0, lim)()
			r.Parallel(nSmall*128, 4096, func(w *vkit.W, lo, hi int64) {
				for i := lo; i < hi; i++ {
					// the grid is visited in a scrambled order (48271 is coprime to its size): consecutive numerals then belong to
					// different numbers and often have the same length, which a parser that aliases its previous input would confuse
					j := i * 48271 % (nSmall * 128) // a bijection on the (number, flag subset) grid
					c := Case{N: uint64(j / 128), Flags: int(j % 128), Limit: lim, Path: "formatter"}
					judge(c, w)
					w.Eval(nontrivial(c.N, c.Flags))
					if c.N > 1000 && c.Flags == 0x55 && w.WantSample() {
						w.Sample(c)
					}
				}
			})
		})
		if !r.Thorough() {
			r.Phase(fmt.Sprintf("A2: DefaultFormatter, all n <= %d x the four verb flag subsets + 3 seeded subsets, limit=%d", maxN, lim), func() {
				defer configure(0, lim)()
				r.Parallel(maxN+1-nSmall, 1024, func(w *vkit.W, lo, hi int64) {
					for i := lo; i < hi; i++ {
						n := uint64(i + nSmall)
						g := r.Rng("flags", int64(n))
						subs := []int{0, subLower, subLong, subLong | subLower}
						for k := 0; k < 3; k++ {
							f := g.Intn(128)
							if f != 0 && f != subLower && f != subLong && f != subLong|subLower {
								subs = append(subs, f)
							}
						}
						seen := map[int]bool{}
						for _, f := range subs {
							if seen[f] {
								continue
							}
							seen[f] = true
							judge(Case{N: n, Flags: f, Limit: lim, Path: "formatter"}, w)
							w.Eval(nontrivial(n, f))
						}
					}
				})
			})
		}
	}
	if r.Thorough() {
		r.Exhaustive("DefaultFormatter + parser/Valid/UnmarshalText round-trip: every n in [0,130000] x all 128 flag subsets x MaxInputLength {128, 0}")
	} else {
		r.Exhaustive("DefaultFormatter + parser/Valid/UnmarshalText round-trip: every n in [0,19999] x all 128 flag subsets, and every n in [0,130000] x {0, lower, long, long|lower}, x MaxInputLength {128, 0}")
	}

	// Methods under every DefaultFormat (a package global: configured sequentially, workers only read it).
	nMeth := int64(r.Pick(4000, 20000))
	r.Phase(fmt.Sprintf("B: MarshalText/String/verbs/UnmarshalText under each of the 128 DefaultFormat values, n < %d plus n near 130000", nMeth), func() {
		for def := 0; def < 128; def++ {
			def := def
			restore := configure(def, 128)
			r.Parallel(nMeth+200, 512, func(w *vkit.W, lo, hi int64) {
				for i := lo; i < hi; i++ {
					n := uint64(i)
					if i >= nMeth {
						n = uint64(maxN - (i-nMeth)*37)
					}
					judge(Case{N: n, Default: def, Limit: 128, Path: "methods"}, w)
					w.Eval(nontrivial(n, def))
				}
			})
			// numbers whose numeral under this DefaultFormat is exactly as long as the limit, one shorter, one longer
			var atLimit []uint64
			for n := uint64(112000); n <= 129100 && len(atLimit) < 60; n += 7 {
				if l := len(ref.RomanNumeral(n, refFlags(def))); l >= 127 && l <= 129 {
					atLimit = append(atLimit, n)
				}
			}
			atLimit = append(atLimit, 128000, 127000, 129000)
			r.Serial(func(w *vkit.W) {
				for _, n := range atLimit {
					for _, path := range []string{"methods", "formatter"} {
						judge(Case{N: n, Flags: def, Default: def, Limit: 128, Path: path}, w)
						w.Eval(true)
					}
				}
			})
			restore()
		}
	})
	r.Exhaustive(fmt.Sprintf("methods (MarshalText, String, %%s %%v %%R %%r %%L %%l, UnmarshalText): every n < %d x every DefaultFormat subset", nMeth))

	// Phase B2: with a package-level Formatter that fails, String and the verbs fall back to the default formatter (documented
	// for String) and must still produce the canonical numeral of the flags they stand for.
	r.Phase("B2: String and the verbs with a failing package-level Formatter, every DefaultFormat", func() {
		old := roman.Formatter
		defer func() { roman.Formatter = old }()
		roman.Formatter = func(buf []byte, n roman.Number, f roman.Format) ([]byte, error) {
			if n%2 == 0 { // a formatter that fails half-way has already written something
				return append(buf, "partial "...), errors.New("formatter refused")
			}
			return nil, errors.New("formatter refused")
		}
		for def := 0; def < 128; def++ {
			restore := configure(def, 128)
			r.Serial(func(w *vkit.W) {
				for _, n := range []uint64{0, 4, 9, 14, 49, 94, 444, 949, 999, 1994, 3999, 4949} {
					c := Case{N: n, Default: def, Limit: 128, Path: "failing-formatter"}
					num := roman.Number(n)
					for _, v := range []struct {
						verb string
						sub  int
					}{{"%s", def}, {"%v", def}, {"%R", 0}, {"%r", subLower}, {"%L", subLong}, {"%l", subLong | subLower}} {
						want := ref.RomanNumeral(n, refFlags(v.sub))
						if got := fmt.Sprintf(v.verb, num); got != want {
							w.Fail(c, "not-canonical", fmt.Sprintf("with a failing Formatter, Sprintf(%q, %d) under DefaultFormat subset %#x = %q want %q", v.verb, n, def, got, want))
						}
					}
					if got, want := num.String(), ref.RomanNumeral(n, refFlags(def)); got != want {
						w.Fail(c, "not-canonical", fmt.Sprintf("with a failing Formatter, String(%d) under DefaultFormat subset %#x = %q want %q", n, def, got, want))
					}
					w.Eval(n > 0)
				}
			})
			restore()
		}
	})

	// Phase A3: numbers above 2^32 x 1000 (numerals of more than four million symbols), limit disabled.
	r.Phase("A3: numbers whose thousands exceed 2^32 (4.3 MB numerals), limit disabled: formatter, Valid, parser, UnmarshalText", func() {
		defer configure(0, 0)()
		giants := []Case{{N: 4294968444, Flags: subLower, Path: "formatter"}}
		if r.Thorough() {
			giants = append(giants, Case{N: 4294967999, Flags: subLong, Path: "formatter"}, Case{N: 8589935000, Flags: 0, Path: "formatter"})
		}
		r.Parallel(int64(len(giants)), 1, func(w *vkit.W, lo, hi int64) {
			for i := lo; i < hi; i++ {
				judge(giants[i], w)
				w.Eval(true)
			}
		})
	})

	r.Phase("B3: formatter and methods again right after custom package-level Formatter/Parser functions were installed, used and removed", func() {
		for _, def := range []int{0, subLower, 0x15, subLong | subLower} {
			restore := configure(def, 128)
			r.Serial(func(w *vkit.W) {
				for n := uint64(0); n < 130000; n += 997 {
					for _, path := range []string{"methods", "formatter"} {
						judge(Case{N: n, Flags: def, Default: def, Limit: 128, Path: path, Hooks: true}, w)
						w.EvalRandom(vkit.HashU(n, uint64(def), uint64(len(path)), 77), n > 0)
					}
				}
			})
			restore()
		}
	})

	r.Phase(fmt.Sprintf("D: %d cold-start scenarios (which roman call comes first in a fresh process)", len(coldScenarios)), func() {
		r.Serial(func(w *vkit.W) {
			for _, sc := range coldScenarios {
				r.RunCold(w, sc, false)
				w.EvalRandom(vkit.Hash64("cold", sc), true)
			}
		})
	})

	r.Phase("C: rapid (n, flags, DefaultFormat, limit)", func() {
		r.Rapid(t, "rapid-roman", 0, r.Pick(5000, 100000), func(rt *rapid.T, w *vkit.W) vkit.RapidCase {
			c := Case{
				N:       rapid.Uint64Range(0, maxN).Draw(rt, "n"),
				Flags:   rapid.IntRange(0, 127).Draw(rt, "flags"),
				Default: rapid.IntRange(0, 127).Draw(rt, "default"),
				Limit:   rapid.SampledFrom([]int{128, 0, 1, 15, 64, 140}).Draw(rt, "limit"),
				Path:    rapid.SampledFrom([]string{"formatter", "methods"}).Draw(rt, "path"),
			}
			defer configure(c.Default, c.Limit)()
			judge(c, w)
			return vkit.RapidCase{Case: c, Hash: vkit.HashU(c.N, uint64(c.Flags), uint64(c.Default), uint64(c.Limit), uint64(len(c.Path))), NT: nontrivial(c.N, c.Flags|c.Default)}
		})
	})
}
