package c02

import (
	"testing"

	"go.lstv.dev/util/roman"

	"verifharness/vkit"
)

// coldScenarios name the call that is made first in a fresh process; afterwards ordinary cases are judged.
var coldScenarios = []string{"valid string", "valid bytes lower", "valid empty under rule", "parse string", "parse bytes lower", "parse invalid", "unmarshaltext", "format", "format lower long", "string", "sprintf %l", "marshaltext zero"}

func coldFirst(scenario string) {
	switch scenario {
	case "valid string":
		_ = roman.Valid("MCMXCIV", 0)
	case "valid bytes lower":
		_ = roman.Valid([]byte("mdclxvi"), roman.RuleDisableEmptyAsZero)
	case "valid empty under rule":
		_ = roman.Valid("", roman.RuleDisableEmptyAsZero)
	case "parse string":
		_, _ = roman.DefaultParser("MMXXIV", 0)
	case "parse bytes lower":
		_, _ = roman.DefaultParser([]byte("cdxliv"), 0)
	case "parse invalid":
		_, _ = roman.DefaultParser("IIIIII", 0)
	case "unmarshaltext":
		var n roman.Number
		_ = n.UnmarshalText([]byte("XLII"))
	case "format":
		_, _ = roman.DefaultFormatter(nil, 1994, 0)
	case "format lower long":
		_, _ = roman.DefaultFormatter([]byte("n="), 4949, roman.FormatLowerCase|roman.FormatLong)
	case "string":
		_ = roman.Number(3999).String()
	case "sprintf %l":
		_ = fmtL(roman.Number(444))
	case "marshaltext zero":
		_, _ = roman.Number(0).MarshalText()
	default:
		panic("unknown cold scenario " + scenario)
	}
}

func TestColdStart(t *testing.T) {
	scenario := vkit.ColdScenario()
	if scenario == "" {
		t.Skip("not a cold-start child")
	}
	r := vkit.Start("C02")
	w := r.NewW()
	w.Guard(map[string]string{"first_call": scenario}, func() { coldFirst(scenario) })
	defer configure(0, 128)()
	for _, n := range []uint64{0, 1, 4, 9, 14, 49, 94, 444, 949, 1994, 3999, 4949, 129999} {
		for _, flags := range []int{0, subLower, subLong, subLong | subLower, 0x55} {
			judge(Case{N: n, Flags: flags, Limit: 128, Path: "formatter"}, w)
		}
		judge(Case{N: n, Limit: 128, Path: "methods"}, w)
	}
	vkit.ColdReport(t, w)
}
