// C17: failed parses leave receiver and input untouched; string and bytes agree.
package c17

import (
	"bytes"
	"encoding/json"
	"encoding/xml"
	"fmt"
	"html/template"
	"reflect"
	"strconv"
	"strings"
	"testing"
	"time"

	"go.lstv.dev/util/date"
	"go.lstv.dev/util/roman"
	"go.lstv.dev/util/sem"
	"go.lstv.dev/util/size"
	"go.lstv.dev/util/uu"
	"pgregory.net/rapid"

	"verifharness/vkit"
)

// Step is one call on the receiver.
//
//	Op "text": UnmarshalText(Input); "json": json.Unmarshal(Input, &receiver); "jsonraw" (size): UnmarshalJSON(Input);
//	"binary" (date): UnmarshalBinary(Input); "scan" (date): Scan(value of kind ScanKind built from Input).
type Step struct {
	Op       string `json:"op"`
	Input    vkit.B `json:"input"`
	ScanKind int    `json:"scan_kind,omitempty"`
}

// Case kinds: "history" (Type + Steps on one receiver) and "stateless" (Type + A, B, Rule through every generic entry point
// as string, []byte, named string and named byte slice).
type Case struct {
	Kind  string `json:"kind"`
	Type  string `json:"type"` // date | roman | sem | size | uu
	Steps []Step `json:"steps,omitempty"`
	// SizeRule (size histories only): size.DefaultRule for the history; 0 keeps the library default (string and object form).
	SizeRule int `json:"size_default_rule,omitempty"`
	// NoLimit runs the history with the type's package MaxInputLength disabled (long inputs then reach the parsers).
	NoLimit bool `json:"no_limit,omitempty"`
	// Limit, when not zero, is the package MaxInputLength in force for a stateless case.
	Limit int    `json:"limit,omitempty"`
	A     vkit.B `json:"a,omitempty"`
	B     vkit.B `json:"b,omitempty"`
	Rule  int    `json:"rule,omitempty"`
}

type (
	S string
	B []byte
)

// withLimit runs f with the type's MaxInputLength set (0 disables it) and restores it.
func withLimit(typ string, limit int, f func()) {
	p := limitOf(typ)
	old := *p
	*p = limit
	defer func() { *p = old }()
	f()
}

// receiver abstracts the five types: ptr is the pointer handed to the decoders, get returns a deep copy of the current value.
type receiver struct {
	ptr    any
	get    func() any
	parse  func(s string) (any, error) // DefaultParser[string] under the rule UnmarshalText uses
	parseJ func(s string) (any, error) // size only: DefaultParser[string] under DefaultRule
}

func newReceiver(typ string) receiver {
	switch typ {
	case "date":
		v := new(date.Date)
		return receiver{ptr: v, get: func() any { return *v }, parse: func(s string) (any, error) { return date.DefaultParser(s, 0) }}
	case "roman":
		v := new(roman.Number)
		return receiver{ptr: v, get: func() any { return *v }, parse: func(s string) (any, error) { return roman.DefaultParser(s, 0) }}
	case "sem":
		v := new(sem.Ver)
		return receiver{ptr: v, get: func() any {
			c := *v
			c.PreRelease, c.Build = strings.Clone(c.PreRelease), strings.Clone(c.Build) // deep copy: detects aliasing of the input buffer
			return c
		}, parse: func(s string) (any, error) { return sem.DefaultParser(s, 0) }}
	case "size":
		v := new(size.Size)
		return receiver{ptr: v, get: func() any { return *v },
			parse:  func(s string) (any, error) { return size.DefaultParser(s, size.DefaultRule&size.RuleDisableUnit) },
			parseJ: func(s string) (any, error) { return size.DefaultParser(s, size.DefaultRule) }}
	case "uu":
		v := new(uu.ID)
		return receiver{ptr: v, get: func() any { return *v }, parse: func(s string) (any, error) { return uu.DefaultParser(s, 0) }}
	}
	panic("type " + typ)
}

func scanValue(kind int, in []byte) any {
	switch kind {
	case 0:
		var sec int64
		for _, c := range in {
			sec = sec*131 + int64(c)
		}
		return time.Unix(sec%(400*365*86400), 0).In(time.FixedZone("x", int(sec%50400)))
	case 1:
		return string(in)
	case 2:
		return in
	case 3:
		return nil
	case 4:
		return len(in)
	case 5:
		return time.Time{}
	default: // a year far outside the int32 year field of Date
		y := 2147483648 + len(in)*1000003
		if len(in)%2 == 1 {
			y = -y
		}
		return time.Date(y, time.Month(1+len(in)%12), 1+len(in)%28, 0, 0, 0, 0, time.UTC)
	}
}

func limitOf(typ string) *int {
	switch typ {
	case "date":
		return &date.MaxInputLength
	case "roman":
		return &roman.MaxInputLength
	case "sem":
		return &sem.MaxInputLength
	case "size":
		return &size.MaxInputLength
	}
	return &uu.MaxInputLength
}

func judgeHistory(c Case, w *vkit.W) (failAfterSuccess bool) {
	if c.NoLimit {
		p := limitOf(c.Type)
		old := *p
		*p = 0
		defer func() { *p = old }()
	}
	if c.Type == "size" && c.SizeRule != 0 {
		old := size.DefaultRule
		size.DefaultRule = size.Rule(c.SizeRule)
		defer func() { size.DefaultRule = old }()
	}
	r := newReceiver(c.Type)
	model := r.get()
	hadSuccess := false
	maxLen := 0
	for _, st := range c.Steps {
		if len(st.Input) > maxLen {
			maxLen = len(st.Input)
		}
	}
	shared := make([]byte, maxLen) // the caller reads every input into one reused buffer
	for i, st := range c.Steps {
		buf := shared[:len(st.Input)]
		copy(buf, st.Input)
		snap := append([]byte{}, buf...)
		var err error
		var expect any // value a successful call must produce (nil = not asserted)
		expectSet := false
		switch st.Op {
		case "text":
			err = r.ptr.(interface{ UnmarshalText([]byte) error }).UnmarshalText(buf)
			if v, perr := r.parse(string(snap)); perr == nil {
				expect, expectSet = v, true
			}
		case "json":
			err = json.Unmarshal(buf, r.ptr)
			if c.Type == "size" {
				if v, perr := r.parseJ(string(snap)); perr == nil {
					expect, expectSet = v, true
				}
			} else {
				var s *string
				if json.Unmarshal(snap, &s) == nil {
					if s == nil {
						expect, expectSet = model, true // JSON null: no-op
					} else if v, perr := r.parse(*s); perr == nil {
						expect, expectSet = v, true
					}
				}
			}
		case "jsonraw":
			u, ok := r.ptr.(interface{ UnmarshalJSON([]byte) error })
			if !ok {
				continue
			}
			err = u.UnmarshalJSON(buf)
			if v, perr := r.parseJ(string(snap)); perr == nil {
				expect, expectSet = v, true
			}
		case "binary":
			u, ok := r.ptr.(interface{ UnmarshalBinary([]byte) error })
			if !ok {
				continue
			}
			err = u.UnmarshalBinary(buf)
		case "scan":
			u, ok := r.ptr.(interface{ Scan(any) error })
			if !ok {
				continue
			}
			err = u.Scan(scanValue(st.ScanKind, buf))
			if st.ScanKind == 0 {
				expect, expectSet = date.FromTime(scanValue(0, snap).(time.Time)), true
			}
			if st.ScanKind == 5 {
				expect, expectSet = date.Date{}, true
			}
		default:
			w.Fail(c, "bad-case", "unknown op "+st.Op)
			return
		}
		if !bytes.Equal(buf, snap) {
			w.Fail(c, "input-modified", fmt.Sprintf("step %d %s.%s(%q): the input bytes were changed to %q", i, c.Type, st.Op, snap, buf))
			copy(buf, snap)
		}
		after := r.get()
		if err != nil {
			if !reflect.DeepEqual(after, model) {
				w.Fail(c, "receiver-changed-on-error", fmt.Sprintf("step %d %s.%s(%q) returned %v but the receiver changed from %+v to %+v", i, c.Type, st.Op, snap, err, model, after))
			}
			if hadSuccess {
				failAfterSuccess = true
			}
			// continue with the model so that one defect does not cascade
			continue
		}
		if expectSet && !reflect.DeepEqual(after, expect) {
			w.Fail(c, "value-differs-from-string-parser", fmt.Sprintf("step %d %s.%s(%q) succeeded with %+v; parsing the same content as a string gives %+v", i, c.Type, st.Op, snap, after, expect))
		}
		model = after
		hadSuccess = hadSuccess || !reflect.DeepEqual(after, reflect.Zero(reflect.TypeOf(after)).Interface())
		// the decoded value must not alias the caller's buffer
		for k := range buf {
			buf[k] = 0xAA
		}
		if again := r.get(); !reflect.DeepEqual(again, model) {
			w.Fail(c, "value-aliases-input", fmt.Sprintf("step %d %s.%s(%q): overwriting the input buffer afterwards changed the decoded value from %+v to %+v", i, c.Type, st.Op, snap, model, again))
			model = again
		}
	}
	return failAfterSuccess
}

// four instantiations of one generic call; results are compared pairwise
type outcome struct {
	val any
	err error
}

func same(name string, c Case, w *vkit.W, outs [4]outcome) (anyErr bool) {
	return sameL(name, [4]string{"string", "[]byte", "named string", "named []byte"}, c, w, outs)
}

// stdLabels names the standard-library instantiations of the input type parameter used beside the harness's own named types.
var stdLabels = [4]string{"string", "json.RawMessage", "template.HTML", "xml.CharData"}

func sameL(name string, labels [4]string, c Case, w *vkit.W, outs [4]outcome) (anyErr bool) {
	for i := 1; i < 4; i++ {
		a, b := outs[0], outs[i]
		if !reflect.DeepEqual(a.val, b.val) {
			w.Fail(c, "string-bytes-value-differs", fmt.Sprintf("%s.%s(%q): %s gives %+v, %s gives %+v", c.Type, name, c.A, labels[0], a.val, labels[i], b.val))
		}
		if (a.err == nil) != (b.err == nil) || (a.err != nil && a.err.Error() != b.err.Error()) {
			w.Fail(c, "string-bytes-error-differs", fmt.Sprintf("%s.%s(%q): %s error %v, %s error %v", c.Type, name, c.A, labels[0], a.err, labels[i], b.err))
		}
	}
	return outs[0].err != nil
}

func o(v any, err error) outcome { return outcome{v, err} }

// after / after2: the first argument is evaluated (a call made) before the second, whose outcome is the one that counts.
func after(_ error, x outcome) outcome    { return x }
func after2(_ outcome, x outcome) outcome { return x }

func judgeStateless(c Case, w *vkit.W) (anyErr bool) {
	if c.NoLimit {
		withLimit(c.Type, 0, func() {
			c2 := c
			c2.NoLimit = false
			anyErr = judgeStateless(c2, w)
		})
		return anyErr
	}
	if c.Limit != 0 {
		withLimit(c.Type, c.Limit, func() {
			c2 := c
			c2.Limit = 0
			anyErr = judgeStateless(c2, w)
		})
		return anyErr
	}
	a, b := string(c.A), string(c.B)
	ab, bb := []byte(a), []byte(b)
	snapA, snapB := append([]byte{}, ab...), append([]byte{}, bb...)
	e := func(x bool) { anyErr = anyErr || x }
	switch c.Type {
	case "date":
		r := date.Rule(c.Rule)
		e(same("DefaultParser", c, w, [4]outcome{o(date.DefaultParser(a, r)), o(date.DefaultParser(ab, r)), o(date.DefaultParser(S(a), r)), o(date.DefaultParser(B(ab), r))}))
		e(sameL("DefaultParser", stdLabels, c, w, [4]outcome{o(date.DefaultParser(a, r)), o(date.DefaultParser(json.RawMessage(ab), r)), o(date.DefaultParser(template.HTML(a), r)), o(date.DefaultParser(xml.CharData(ab), r))}))
	case "roman":
		r := roman.Rule(c.Rule)
		e(same("DefaultParser", c, w, [4]outcome{o(roman.DefaultParser(a, r)), o(roman.DefaultParser(ab, r)), o(roman.DefaultParser(S(a), r)), o(roman.DefaultParser(B(ab), r))}))
		e(sameL("DefaultParser", stdLabels, c, w, [4]outcome{o(roman.DefaultParser(a, r)), o(roman.DefaultParser(json.RawMessage(ab), r)), o(roman.DefaultParser(template.HTML(a), r)), o(roman.DefaultParser(xml.CharData(ab), r))}))
		e(same("Valid", c, w, [4]outcome{o(nil, roman.Valid(a, r)), o(nil, roman.Valid(ab, r)), o(nil, roman.Valid(S(a), r)), o(nil, roman.Valid(B(ab), r))}))
		e(sameL("Valid", stdLabels, c, w, [4]outcome{o(nil, roman.Valid(a, r)), o(nil, roman.Valid(json.RawMessage(ab), r)), o(nil, roman.Valid(template.HTML(a), r)), o(nil, roman.Valid(xml.CharData(ab), r))}))
		// the same text through the package's other entry point just before, with the same input type: what one entry point
		// remembers must not show in the other's answer. The string call comes first and has a []byte call before it.
		_ = roman.Valid(ab, r)
		e(same("DefaultParser (each call preceded by Valid on the same argument, the string call by Valid on the bytes)", c, w, [4]outcome{o(roman.DefaultParser(a, r)),
			after(roman.Valid(ab, r), o(roman.DefaultParser(ab, r))), after(roman.Valid(S(a), r), o(roman.DefaultParser(S(a), r))), after(roman.Valid(B(ab), r), o(roman.DefaultParser(B(ab), r)))}))
		_, _ = roman.DefaultParser(ab, r)
		e(same("Valid (each call preceded by DefaultParser on the same argument, the string call by DefaultParser on the bytes)", c, w, [4]outcome{o(nil, roman.Valid(a, r)),
			after2(o(roman.DefaultParser(ab, r)), o(nil, roman.Valid(ab, r))), after2(o(roman.DefaultParser(S(a), r)), o(nil, roman.Valid(S(a), r))), after2(o(roman.DefaultParser(B(ab), r)), o(nil, roman.Valid(B(ab), r)))}))
	case "sem":
		r := sem.Rule(c.Rule)
		_, _ = sem.Parse(ab)
		e(same("DefaultParser (each call preceded by Parse on the same argument, the string call by Parse on the bytes)", c, w, [4]outcome{o(sem.DefaultParser(a, r)),
			after2(o(sem.Parse(ab)), o(sem.DefaultParser(ab, r))), after2(o(sem.Parse(S(a))), o(sem.DefaultParser(S(a), r))), after2(o(sem.Parse(B(ab))), o(sem.DefaultParser(B(ab), r)))}))
		e(same("DefaultParser", c, w, [4]outcome{o(sem.DefaultParser(a, r)), o(sem.DefaultParser(ab, r)), o(sem.DefaultParser(S(a), r)), o(sem.DefaultParser(B(ab), r))}))
		e(sameL("DefaultParser", stdLabels, c, w, [4]outcome{o(sem.DefaultParser(a, r)), o(sem.DefaultParser(json.RawMessage(ab), r)), o(sem.DefaultParser(template.HTML(a), r)), o(sem.DefaultParser(xml.CharData(ab), r))}))
		e(same("Parse", c, w, [4]outcome{o(sem.Parse(a)), o(sem.Parse(ab)), o(sem.Parse(S(a))), o(sem.Parse(B(ab)))}))
		e(sameL("Parse", stdLabels, c, w, [4]outcome{o(sem.Parse(a)), o(sem.Parse(json.RawMessage(ab))), o(sem.Parse(template.HTML(a))), o(sem.Parse(xml.CharData(ab)))}))
		e(same("ParseVersion", c, w, [4]outcome{o(sem.ParseVersion(a)), o(sem.ParseVersion(ab)), o(sem.ParseVersion(S(a))), o(sem.ParseVersion(B(ab)))}))
		e(same("ParseTag", c, w, [4]outcome{o(sem.ParseTag(a)), o(sem.ParseTag(ab)), o(sem.ParseTag(S(a))), o(sem.ParseTag(B(ab)))}))
		e(sameL("ParseTag", stdLabels, c, w, [4]outcome{o(sem.ParseTag(a)), o(sem.ParseTag(json.RawMessage(ab))), o(sem.ParseTag(template.HTML(a))), o(sem.ParseTag(xml.CharData(ab)))}))
		e(same("Compare", c, w, [4]outcome{o(sem.Compare(a, b)), o(sem.Compare(ab, bb)), o(sem.Compare(S(a), bb)), o(sem.Compare(B(ab), S(b)))}))
		e(sameL("Compare", stdLabels, c, w, [4]outcome{o(sem.Compare(a, b)), o(sem.Compare(json.RawMessage(ab), xml.CharData(bb))), o(sem.Compare(template.HTML(a), json.RawMessage(bb))), o(sem.Compare(xml.CharData(ab), template.HTML(b)))}))
		e(same("CompareTag", c, w, [4]outcome{o(sem.CompareTag(a, b)), o(sem.CompareTag(ab, bb)), o(sem.CompareTag(a, B(bb))), o(sem.CompareTag(B(ab), b))}))
		e(same("Latest", c, w, [4]outcome{o(sem.Latest(a, b)), o(sem.Latest(ab, bb)), o(sem.Latest(S(a), S(b))), o(sem.Latest(B(ab), B(bb)))}))
		e(same("LatestVersion", c, w, [4]outcome{o(sem.LatestVersion(a, b)), o(sem.LatestVersion(ab, bb)), o(sem.LatestVersion(S(a), b)), o(sem.LatestVersion(a, B(bb)))}))
		e(same("LatestTag", c, w, [4]outcome{o(sem.LatestTag(a, b)), o(sem.LatestTag(ab, bb)), o(sem.LatestTag(S(a), bb)), o(sem.LatestTag(ab, S(b)))}))
		same("DefaultComparePreRelease", c, w, [4]outcome{o(sem.DefaultComparePreRelease(a, b), nil), o(sem.DefaultComparePreRelease(ab, bb), nil), o(sem.DefaultComparePreRelease(S(a), bb), nil), o(sem.DefaultComparePreRelease(B(ab), S(b)), nil)})
	case "size":
		r := size.Rule(c.Rule)
		e(same("DefaultParser", c, w, [4]outcome{o(size.DefaultParser(a, r)), o(size.DefaultParser(ab, r)), o(size.DefaultParser(S(a), r)), o(size.DefaultParser(B(ab), r))}))
		e(sameL("DefaultParser", stdLabels, c, w, [4]outcome{o(size.DefaultParser(a, r)), o(size.DefaultParser(json.RawMessage(ab), r)), o(size.DefaultParser(template.HTML(a), r)), o(size.DefaultParser(xml.CharData(ab), r))}))
	case "uu":
		r := uu.Rule(c.Rule)
		e(same("DefaultParser", c, w, [4]outcome{o(uu.DefaultParser(a, r)), o(uu.DefaultParser(ab, r)), o(uu.DefaultParser(S(a), r)), o(uu.DefaultParser(B(ab), r))}))
		e(sameL("DefaultParser", stdLabels, c, w, [4]outcome{o(uu.DefaultParser(a, r)), o(uu.DefaultParser(json.RawMessage(ab), r)), o(uu.DefaultParser(template.HTML(a), r)), o(uu.DefaultParser(xml.CharData(ab), r))}))
	}
	if !bytes.Equal(ab, snapA) || !bytes.Equal(bb, snapB) {
		w.Fail(c, "input-modified", fmt.Sprintf("%s: a parser changed the bytes it was given: %q -> %q / %q -> %q", c.Type, snapA, ab, snapB, bb))
	}
	return anyErr
}

func judge(c Case, w *vkit.W) (interesting bool) {
	defer func() {
		if p := recover(); p != nil {
			w.Fail(c, "panic", vkit.PanicDetail(p))
		}
	}()
	switch c.Kind {
	case "history":
		return judgeHistory(c, w)
	case "stateless":
		return judgeStateless(c, w)
	}
	w.Fail(c, "bad-case", "unknown kind "+c.Kind)
	return false
}

// ---- generators -------------------------------------------------------------------------------------------------------

var types = []string{"date", "roman", "sem", "size", "uu"}

// boundaryTexts join the stateless pool (they are not assumed valid): numeric fields at and just beyond what the value types
// hold, where a hand-written conversion for one input type may part from the other's.
var boundaryTexts = func() map[string][]string {
	nums := []string{"18446744073709551614", "18446744073709551615", "18446744073709551616", "18446744073709551617", "18446744073709551618", "18446744073709551619", "18446744073709551620", "18446744073709551625",
		"20000000000000000000", "30000000000000000000", "99999999999999999999", "100000000000000000000", "184467440737095516150", "36893488147419103232", "9223372036854775808", "4294967296", "00", "01"}
	m := map[string][]string{}
	for _, n := range nums {
		m["sem"] = append(m["sem"], n+".0.0", "0."+n+".0", "v0.0."+n, "1.2.3-"+n, "1.2.3-0"+n, "1.2.3+"+n)
		m["size"] = append(m["size"], n, n+"B", n+" kB", `"`+n+`"`, `{"value":`+n+`,"unit":"B"}`, "0"+n)
	}
	m["size"] = append(m["size"], "18014398509481984 KiB", "18014398509481983 KiB", "18446744073709552 kB", "18446744073709551 kB", "16 EiB", "15 EiB", "18 EB", "19 EB")
	m["date"] = []string{"999999999-12-31", "1000000000-01-01", "2147483647-01-01", "2147483648-01-01", "4294967296-01-01", "99999999991231", "9999999991231", "0000-01-01", "00000101", "0000-00-00", "2023-02-29", "2024-02-30", "2024-13-01"}
	m["roman"] = []string{strings.Repeat("M", 120) + "DCCCLXXXVIII", strings.Repeat("M", 128), strings.Repeat("M", 129), strings.Repeat("m", 127) + "i", "MMMMCMXCIX", "IIII", "VIIII", "CMXCIX"}
	m["uu"] = []string{"ffffffff-ffff-ffff-ffff-ffffffffffff", "FFFFFFFF-FFFF-FFFF-FFFF-FFFFFFFFFFFF", "urn:uuid:ffffffff-ffff-ffff-ffff-ffffffffffff", "00000000-0000-0000-0000-000000000000", "80000000-0000-0000-8000-000000000000", "7fffffff-ffff-ffff-7fff-ffffffffffff"}
	// a two-byte character in place of two hex digits keeps the length right (its code point's low byte is a hex digit)
	const plain = "11111111-1111-1111-1111-111111111111"
	for _, rn := range []string{"\u0131", "\u0141", "\u0161", "\u0130", "\u01fa"} {
		for _, pos := range []int{0, 6, 9, 19, 24, 34} {
			t := plain[:pos] + rn + plain[pos+2:]
			m["uu"] = append(m["uu"], t, "urn:uuid:"+t)
		}
	}
	return m
}()

var validTexts = map[string][]string{
	"date":  {"2022-08-07", "20220807", "0001-01-01", "9999-12-31", "2024-02-29", "1999-12-31", "2000-01-01", "123450101", "1234560101", "12345-01-01"},
	"roman": {"I", "IV", "MCMXCIV", "mdclxvi", "XLII", "CCCC", "ix", ""},
	"sem":   {"1.2.3", "v1.2.3", "0.0.1", "1.0.0-alpha.1", "1.0.0-rc.1+build.5", "18446744073709551615.0.0", "v2.0.0+001", "10.20.30-a-b.c+d.e-f"},
	"size":  {"10", "20KiB", "1 000 kB", "1_000", "1 KiB  ", "18446744073709551615", " 7 EiB ", "0", "1 02 4"},
	"uu":    {"00000000-0000-0000-0000-000000000001", "urn:uuid:123e4567-e89b-12d3-a456-426614174000", "URN:uuid:123E4567-E89B-12D3-A456-426614174000", "Urn:uuid:ffffffff-ffff-4fff-bfff-fffffffffff0", "123E4567-E89B-12D3-A456-426614174000", "ffffffff-ffff-4fff-bfff-ffffffffffff"},
}

var sizeJSON = []string{"1\xa05", "10 \u00b5B", "1\u00a9", "1\xc25", "1\xc2\xa05", "1&nbsp;KiB", "1 &#75;iB", "007", "00", "0123", " 007", "-0", "+7", "0x7", "7.0", "7e0",
	`"\x31KiB"`, `"\061"`, `"\x31\x30"`, `"\a"`, `"1\v"`, `"\U00000031 kB"`, `'1'`, `"1\u0020kB"`, `"\u0031\u0030"`,
	`"7" "8"`, `"7" x`, `7 8`, `"7"`, `"7 B"`, `{"value":7,"unit":"B"} 8`, `10`, `"20 KiB"`, `{"value":1,"unit":"KiB"}`, `{"unit":"MB","value":3,"x":[1,{"y":null}]}`, ` {"value":5,"unit":"B"} `, `"1_000"`, `18446744073709551615`,
	`{"value":1}`, `{"value":1,"unit":"KiB"`, `{"value":1,"unit":"KiB"}}`, `10 x`, `"1 kB" 2`, `{"value":-1,"unit":"B"}`, `{"value":"1","unit":"B"}`, `[1]`, `null`, `true`, `1.5`, `"x"`, `{"value":1,"unit":"KiB","value":2}`, `{"value":18446744073709551615,"unit":"kB"}`}

func mutateText(rt *rapid.T, s string) string {
	b := []byte(s)
	switch rapid.IntRange(0, 5).Draw(rt, "mutKind") {
	case 0:
		if len(b) > 0 {
			pos := rapid.IntRange(0, len(b)-1).Draw(rt, "pos")
			b[pos] = rapid.SampledFrom([]byte("0x-. _vZ9:\x00\xff\n")).Draw(rt, "sym")
		}
	case 1:
		if len(b) > 0 {
			pos := rapid.IntRange(0, len(b)-1).Draw(rt, "pos")
			b = append(b[:pos], b[pos+1:]...)
		}
	case 2:
		pos := rapid.IntRange(0, len(b)).Draw(rt, "pos")
		b = append(b[:pos], append([]byte{rapid.SampledFrom([]byte("0x-. _vZ9:M\x00\xc3")).Draw(rt, "ins")}, b[pos:]...)...)
	case 3:
		b = append(b, bytes.Repeat([]byte{rapid.SampledFrom([]byte(" 0Ma9")).Draw(rt, "pad")}, rapid.SampledFrom([]int{1, 40, 130, 1100}).Draw(rt, "padLen"))...)
	case 4:
		b = nil
	default:
		b = append([]byte(rapid.SampledFrom([]string{"é", " ", "\t", "v", "-"}).Draw(rt, "prefix")), b...)
	}
	return string(b)
}

// tails follow an otherwise complete text: the whole is judged like any other input
var tails = []string{"", "", " ", " x", " 25:61:00", " 00:00:00", "T00:00:00Z", " 12:30", "\n", ",", " 1", "-", "Z", " +02:00", "\x00"}

func genInput(rt *rapid.T, typ, op string) string {
	texts := validTexts[typ]
	switch op {
	case "binary":
		switch rapid.IntRange(0, 5).Draw(rt, "binKind") {
		case 0, 1:
			y := rapid.Int32Range(-5000, 12000).Draw(rt, "y")
			return string([]byte{1, byte(uint32(y) >> 24), byte(uint32(y) >> 16), byte(uint32(y) >> 8), byte(uint32(y)), byte(rapid.IntRange(1, 12).Draw(rt, "m")), byte(rapid.IntRange(1, 28).Draw(rt, "d"))})
		case 2: // right length and version, invalid calendar fields
			return string([]byte{1, 0, 0, 7, byte(rapid.IntRange(0, 255).Draw(rt, "yl")), byte(rapid.SampledFrom([]int{0, 2, 13, 255}).Draw(rt, "m")), byte(rapid.SampledFrom([]int{0, 30, 31, 32, 255}).Draw(rt, "d"))})
		case 3:
			return string(rapid.SliceOfN(rapid.Byte(), 0, 9).Draw(rt, "bytes"))
		case 4:
			return string([]byte{byte(rapid.IntRange(0, 3).Draw(rt, "ver")), 0, 0, 7, 230, 8, 7})
		default:
			return string([]byte{1, 0, 0, 7, 230, 8, 7, 0})
		}
	case "scan":
		switch rapid.IntRange(0, 3).Draw(rt, "scanInput") {
		case 0: // a date text, possibly followed by something (drivers hand dates over as text, with or without a time of day)
			return rapid.SampledFrom(texts).Draw(rt, "text") + rapid.SampledFrom(tails).Draw(rt, "tail")
		case 1:
			return mutateText(rt, rapid.SampledFrom(texts).Draw(rt, "text")) + rapid.SampledFrom(tails).Draw(rt, "tail")
		}
		return string(rapid.SliceOfN(rapid.Byte(), 0, 6).Draw(rt, "scanSeed"))
	case "json", "jsonraw":
		if typ == "size" {
			s := rapid.SampledFrom(sizeJSON).Draw(rt, "sizeJSON")
			if rapid.IntRange(0, 4).Draw(rt, "mutateJSON") == 0 {
				s = mutateText(rt, s)
			}
			return s
		}
		t := rapid.SampledFrom(texts).Draw(rt, "text")
		if rapid.IntRange(0, 2).Draw(rt, "mutate") == 0 {
			t = mutateText(rt, t)
		}
		switch rapid.IntRange(0, 6).Draw(rt, "jsonKind") {
		case 0:
			return rapid.SampledFrom([]string{"null", "5", "true", "{}", "[]", `{"a":1}`, "", `"`, `"unterminated`}).Draw(rt, "wrongKind")
		default:
			q, _ := json.Marshal(t)
			return string(q)
		}
	}
	t := rapid.SampledFrom(texts).Draw(rt, "text")
	switch rapid.IntRange(0, 4).Draw(rt, "mutate") {
	case 0, 1:
		t = mutateText(rt, t)
	case 2:
		t += rapid.SampledFrom(tails).Draw(rt, "tail")
	}
	return t
}

func opsFor(typ string) []string {
	switch typ {
	case "date":
		return []string{"text", "text", "json", "binary", "binary", "scan"}
	case "size":
		return []string{"text", "text", "json", "jsonraw", "jsonraw"}
	}
	return []string{"text", "text", "json"}
}

func caseHash(c Case) uint64 {
	b, _ := json.Marshal(c)
	return vkit.Hash64(string(b))
}

func TestCheck(t *testing.T) {
	r := vkit.Start("C17")
	defer r.Finish(t)
	if r.Replay != "" {
		var c Case
		if err := r.LoadReplay(&c); err != nil {
			t.Fatalf("replay: %v", err)
		}
		r.Serial(func(w *vkit.W) { judge(c, w); w.Eval(true) })
		return
	}
	r.Rule("History cases: one receiver per type (date, roman, sem, size, uu) and a sequence of UnmarshalText / json.Unmarshal / UnmarshalJSON / UnmarshalBinary / Scan calls with valid, near-valid, over-long, empty and wrongly-typed inputs. " +
		"Oracle: model = last successfully decoded value; after an error the receiver must be deeply equal to the model; the input bytes must be unchanged after every call; a success must equal what the string parser gives for the same content; overwriting the input buffer afterwards must not change the decoded value. " +
		"Stateless cases: every generic entry point on string, []byte, named string and named []byte must give identical values and identical error texts. " +
		"Non-trivial: histories with a failing call after a successful one that left a non-zero value; stateless cases where an error is returned. Distinct by hash.")
	r.Regress(func(raw json.RawMessage, w *vkit.W) error {
		var c Case
		if err := json.Unmarshal(raw, &c); err != nil {
			return err
		}
		judge(c, w)
		w.Eval(true)
		return nil
	})
	r.Sampled()

	for ti, typ := range types {
		typ := typ
		r.Phase("histories: "+typ, func() {
			r.Rapid(t, "rapid-history-"+typ, ti, r.Pick(20000, 400000), func(rt *rapid.T, w *vkit.W) vkit.RapidCase {
				ops := opsFor(typ)
				n := rapid.IntRange(1, 30).Draw(rt, "steps")
				c := Case{Kind: "history", Type: typ, NoLimit: rapid.IntRange(0, 3).Draw(rt, "noLimit") == 0}
				if typ == "size" {
					c.SizeRule = rapid.SampledFrom([]int{0, 0, 7, 3, 5, 15, 2, 4, 1}).Draw(rt, "sizeDefaultRule")
				}
				for i := 0; i < n; i++ {
					op := rapid.SampledFrom(ops).Draw(rt, "op")
					st := Step{Op: op, Input: vkit.B(genInput(rt, typ, op))}
					if op == "scan" {
						st.ScanKind = rapid.IntRange(0, 6).Draw(rt, "scanKind")
					}
					c.Steps = append(c.Steps, st)
				}
				nt := judge(c, w)
				if nt {
					w.Class("history_with_failure_after_success_" + typ)
				}
				return vkit.RapidCase{Case: c, Hash: caseHash(c), NT: nt}
			})
		})
	}

	// stateless: deterministic pool (parallel) + rapid
	r.Phase("stateless: pool of valid/mutated texts x rules x 4 input types (all pairs for the two-argument helpers)", func() {
		for _, typ := range types {
			pool := append([]string{}, validTexts[typ]...)
			pool = append(pool, boundaryTexts[typ]...)
			g := r.Rng("pool-"+typ, 0)
			for _, v := range validTexts[typ] {
				for k := 0; k < r.Pick(30, 300); k++ {
					b := []byte(v)
					if len(b) > 0 {
						switch g.Intn(4) {
						case 0:
							b[g.Intn(len(b))] = byte(g.U64())
						case 1:
							p := g.Intn(len(b))
							b = append(b[:p], b[p+1:]...)
						case 2:
							b = append(b, bytes.Repeat([]byte{" 0Ma9x"[g.Intn(6)]}, []int{1, 50, 130, 1100}[g.Intn(4)])...)
						default:
							p := g.Intn(len(b) + 1)
							b = append(b[:p], append([]byte{"0-.+ v_\x00\xff"[g.Intn(9)]}, b[p:]...)...)
						}
					}
					pool = append(pool, string(b))
					// a second defect elsewhere: two faults in one text must be reported alike by every instantiation
					if len(b) > 2 {
						b2 := append([]byte{}, b...)
						b2[g.Intn(len(b2))] = " x-0:."[g.Intn(6)]
						pool = append(pool, string(b2))
					}
				}
			}
			if typ == "size" {
				pool = append(pool, sizeJSON...)
			}
			typ := typ
			nRules := map[string]int{"date": 2, "roman": 2, "sem": 2, "size": 16, "uu": 4}[typ]
			n := int64(len(pool))
			r.Parallel(n, 8, func(w *vkit.W, lo, hi int64) {
				for i := lo; i < hi; i++ {
					for rule := 0; rule < nRules; rule++ {
						partners := []string{pool[(i*7+3)%n]}
						if typ == "sem" && rule == 0 {
							partners = pool[:minInt(len(pool), 40)]
						}
						for _, pb := range partners {
							c := Case{Kind: "stateless", Type: typ, A: vkit.B(pool[i]), B: vkit.B(pb), Rule: rule}
							nt := judge(c, w)
							w.EvalRandom(vkit.Hash64(typ, pool[i], pb, strconv.Itoa(rule)), nt)
							if nt && w.WantSample() && len(pool[i]) < 40 {
								w.Sample(c)
							}
						}
					}
				}
			})
		}
	})

	// long inputs and inputs with many multi-byte characters, default limits and limits disabled (serial: a package global changes)
	r.Phase("stateless: long and multi-byte-rich inputs (lengths around 64/128/256/1024 bytes; characters vs bytes), default and disabled limits", func() {
		r.Serial(func(w *vkit.W) {
			long := map[string][]string{
				"roman": {strings.Repeat("M", 126) + "IV", strings.Repeat("M", 128) + "CMXCIX", strings.Repeat("M", 130) + "CMXCIX", strings.Repeat("M", 128) + "Z", strings.Repeat("m", 255) + "x", strings.Repeat("M", 1030)},
				"sem":   {"1.0.0-" + strings.Repeat("a", 1017), "1.0.0-" + strings.Repeat("a", 1018), "1.0.0-" + strings.Repeat("a", 1019), "v1.0.0-" + strings.Repeat("a.", 600) + "b", "1.0.0-" + strings.Repeat("a", 1100) + "+x", "1.0.0-" + strings.Repeat("a", 1100) + " "},
				"size":  {"1" + strings.Repeat("\u00a0", 70) + "KiB", "1" + strings.Repeat("\u00a0", 61) + "KiB", "1" + strings.Repeat("\u00a0", 62) + "KiB", "1" + strings.Repeat("\u00a0", 63) + "KiB", "1" + strings.Repeat(" ", 130) + "KiB", strings.Repeat(" ", 124) + "1 kB", strings.Repeat(" ", 125) + "1 kB", "1" + strings.Repeat("_", 127), "\"" + strings.Repeat("\u00a0", 62) + "\"", "{\"value\":1,\"unit\":\"B\",\"x\":\"" + strings.Repeat("é", 60) + "\"}"},
				"date":  {"2022-08-07" + strings.Repeat(" ", 10), "123456789-01-01x", "2002-08-07T15:12:55Z", strings.Repeat("2", 20)},
				"uu":    {"urn:uuid:123e4567-e89b-12d3-a456-426614174000 ", "123e4567-e89b-12d3-a456-426614174000" + strings.Repeat("0", 20), strings.Repeat("é", 18), strings.Repeat("é", 23)},
			}
			for _, typ := range types {
				nRules := map[string]int{"date": 2, "roman": 2, "sem": 2, "size": 16, "uu": 4}[typ]
				for _, noLimit := range []bool{false, true} {
					for i, a := range long[typ] {
						for rule := 0; rule < nRules; rule++ {
							c := Case{Kind: "stateless", Type: typ, A: vkit.B(a), B: vkit.B(long[typ][(i+1)%len(long[typ])]), Rule: rule, NoLimit: noLimit}
							nt := judge(c, w)
							w.EvalRandom(vkit.Hash64(typ, a, strconv.Itoa(rule), fmt.Sprint(noLimit)), nt)
						}
					}
				}
			}
		})
	})

	r.Phase("stateless: valid texts (also five- to nine-digit years, written with and without separators) under every MaxInputLength from 1 to 40 and at each text's own length -1, +0, +1", func() {
		r.Serial(func(w *vkit.W) {
			extra := map[string][]string{"date": {"12345670101", "123456780101", "1234567890101", "123456-01-01", "1234567-01-01", "12345678-01-01", "123456789-01-01", "00010101", "99991231"}}
			for _, typ := range types {
				nRules := map[string]int{"date": 2, "roman": 2, "sem": 2, "size": 16, "uu": 4}[typ]
				texts := append(append([]string{}, validTexts[typ]...), extra[typ]...)
				for i, a := range texts {
					limits := []int{len(a) - 1, len(a), len(a) + 1}
					for l := 1; l <= 40; l++ {
						limits = append(limits, l)
					}
					for _, limit := range limits {
						if limit <= 0 {
							continue
						}
						for rule := 0; rule < nRules; rule++ {
							c := Case{Kind: "stateless", Type: typ, A: vkit.B(a), B: vkit.B(texts[(i+1)%len(texts)]), Rule: rule, Limit: limit}
							nt := judge(c, w)
							w.EvalRandom(vkit.Hash64(typ, a, strconv.Itoa(rule), strconv.Itoa(limit)), nt)
						}
					}
				}
			}
		})
	})

	r.Phase("stateless: rapid", func() {
		r.Rapid(t, "rapid-stateless", 9, r.Pick(20000, 600000), func(rt *rapid.T, w *vkit.W) vkit.RapidCase {
			typ := rapid.SampledFrom(types).Draw(rt, "type")
			c := Case{Kind: "stateless", Type: typ, A: vkit.B(genInput(rt, typ, "text")), B: vkit.B(genInput(rt, typ, "text")), Rule: rapid.IntRange(0, 15).Draw(rt, "rule")}
			if typ == "size" && rapid.Bool().Draw(rt, "asJSON") {
				c.A = vkit.B(genInput(rt, typ, "json"))
			}
			nt := judge(c, w)
			return vkit.RapidCase{Case: c, Hash: caseHash(c), NT: nt}
		})
	})
}

func minInt(a, b int) int {
	if a < b {
		return a
	}
	return b
}
