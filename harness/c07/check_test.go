// C07: date ordering and arithmetic agree with the calendar.
package c07

import (
	"encoding/json"
	"fmt"
	"strings"
	"sync"
	"testing"
	"time"
	_ "time/tzdata" // embedded zone database: the check must not depend on the machine

	"go.lstv.dev/util/date"
	"pgregory.net/rapid"

	"verifharness/ref"
	"verifharness/vkit"
)

// YMD is a calendar date.
type YMD struct {
	Y int64 `json:"y"`
	M int   `json:"m"`
	D int   `json:"d"`
}

// Case kinds:
//
//	"pair":     A, B - Before/Equal/After/Sub/DaysBetween/IsZero
//	"add":      A + (Years, Months, Days)
//	"adddur":   A + Dur nanoseconds
//	"time":     A -> Time(), Value(), Scan
//	"fromtime": FromTime(time.Unix(Sec, Nsec).In(FixedZone(Off seconds)))
type Case struct {
	Kind   string `json:"kind"`
	A      YMD    `json:"a"`
	B      YMD    `json:"b,omitempty"`
	Years  int    `json:"years,omitempty"`
	Months int    `json:"months,omitempty"`
	Days   int    `json:"days,omitempty"`
	Dur    int64  `json:"dur_ns,omitempty"`
	Sec    int64  `json:"sec,omitempty"`
	Nsec   int64  `json:"nsec,omitempty"`
	Off    int    `json:"zone_offset_s,omitempty"`
	// Zone: "" = fixed zone named "z" with offset Off; "name:<n>" = fixed zone named <n> with offset Off;
	// "tz:<IANA name>" = a time-zone database location (embedded time/tzdata), Off ignored.
	Zone string `json:"zone,omitempty"`
	// Route: how the date values of the case come into being: 0 New, 1 UnmarshalBinary of the seven-byte form, 2 FromTime of a
	// UTC time, 3 the text parser (UnmarshalText; four-digit years, otherwise as 1), 4 New(...).Add(0, 0, 0), 5 json.Unmarshal
	// (as 3), 6 FromTime of a time in a zone 14 hours ahead, 7 / 8 a variable that held another date, overwritten in place by the method form of FromTime / by Scan. Where a value comes from must not matter to what it does. In pair cases
	// the route applies to A; B always comes from New.
	Route int `json:"constructed_via,omitempty"`
}

var tzCache sync.Map

func location(c Case) *time.Location {
	switch {
	case strings.HasPrefix(c.Zone, "tz:"):
		// one *time.Location per zone for the whole process, as programs normally hold them
		if l, ok := tzCache.Load(c.Zone); ok {
			return l.(*time.Location)
		}
		loc, err := time.LoadLocation(c.Zone[3:])
		if err != nil {
			panic("time zone database: " + err.Error())
		}
		l, _ := tzCache.LoadOrStore(c.Zone, loc)
		return l.(*time.Location)
	case strings.HasPrefix(c.Zone, "name:"):
		return time.FixedZone(c.Zone[5:], c.Off)
	}
	return time.FixedZone("z", c.Off)
}

func mk(c Case, w *vkit.W, v YMD) (date.Date, bool) {
	d := date.New(int(v.Y), date.Month(v.M), v.D)
	route := c.Route
	if (route == 3 || route == 5) && (v.Y < 0 || v.Y > 9999) {
		route = 1
	}
	if (route == 2 || route == 6 || route == 7 || route == 8) && (v.Y < -200000000 || v.Y > 200000000) {
		route = 1
	}
	if route == 1 && (v.Y < -999999999 || v.Y > 999999999) {
		route = 0
	}
	var err error
	switch route {
	case 1:
		u := uint32(int32(v.Y))
		d = date.Date{}
		err = d.UnmarshalBinary([]byte{1, byte(u >> 24), byte(u >> 16), byte(u >> 8), byte(u), byte(v.M), byte(v.D)})
	case 2:
		d = date.FromTime(time.Date(int(v.Y), time.Month(v.M), v.D, 23, 59, 59, 999999999, time.UTC))
	case 3:
		d = date.Date{}
		err = d.UnmarshalText([]byte(ref.DateText(v.Y, v.M, v.D, v.D%2 == 0)))
	case 4:
		d = d.Add(0, 0, 0)
	case 5:
		d = date.Date{}
		err = json.Unmarshal([]byte(`"`+ref.DateText(v.Y, v.M, v.D, false)+`"`), &d)
	case 6:
		d = date.FromTime(time.Date(int(v.Y), time.Month(v.M), v.D, 0, 0, 0, 0, time.FixedZone("ahead", 14*3600)))
	case 7, 8:
		// a variable that held another date is given the value in place: through the method form of FromTime, or through Scan
		// (for the zero date with the zero time, which both are documented to turn into the zero date)
		d = date.New(int(v.Y%5000)+2000, date.Month(1+(v.M+5)%12), 1+(v.D+11)%28)
		t := time.Date(int(v.Y), time.Month(v.M), v.D, 12, 0, 0, 0, time.UTC)
		if (v == YMD{1, 1, 1}) {
			t = time.Time{}
		}
		if route == 7 {
			d.FromTime(t)
		} else {
			err = d.Scan(t)
		}
	}
	if err != nil {
		w.Fail(c, "constructor", fmt.Sprintf("construction route %d of %v failed: %v", route, v, err))
		return d, false
	}
	y, m, dd := d.Date()
	if int64(y) != v.Y || int(m) != v.M || dd != v.D || d.Year() != y || d.Month() != m || d.Day() != dd {
		w.Fail(c, "constructor", fmt.Sprintf("New(%d,%d,%d) has components %d-%d-%d (Year/Month/Day: %d-%d-%d)", v.Y, v.M, v.D, y, int(m), dd, d.Year(), int(d.Month()), d.Day()))
		return d, false
	}
	return d, true
}

func (v YMD) ord() int64 { return ref.DaysFromCivil(v.Y, v.M, v.D) }

func is(d date.Date, y int64, m, dd int) bool {
	gy, gm, gd := d.Date()
	return int64(gy) == y && int(gm) == m && gd == dd
}

const maxDurDays = 106751 // floor(MaxInt64 ns / 24h)

func judge(c Case, w *vkit.W) {
	defer func() {
		if p := recover(); p != nil {
			w.Fail(c, "panic", vkit.PanicDetail(p))
		}
	}()
	switch c.Kind {
	case "pair":
		a, ok1 := mk(c, w, c.A)
		cb := c
		cb.Route = 0 // B always comes from New: values of different provenance meet
		b, ok2 := mk(cb, w, c.B)
		if !ok1 || !ok2 {
			return
		}
		oa, ob := c.A.ord(), c.B.ord()
		for _, p := range []struct {
			x, y   date.Date
			ox, oy int64
			nx, ny YMD
		}{{a, b, oa, ob, c.A, c.B}, {b, a, ob, oa, c.B, c.A}} {
			before, equal, after := p.x.Before(p.y), p.x.Equal(p.y), p.x.After(p.y)
			if before != (p.ox < p.oy) || equal != (p.ox == p.oy) || after != (p.ox > p.oy) {
				w.Fail(c, "ordering", fmt.Sprintf("%v vs %v: Before=%v Equal=%v After=%v, day ordinals %d vs %d", p.nx, p.ny, before, equal, after, p.ox, p.oy))
			}
			delta := p.ox - p.oy
			if delta >= -maxDurDays && delta <= maxDurDays {
				if got := p.x.Sub(p.y); got != time.Duration(delta)*24*time.Hour {
					w.Fail(c, "sub", fmt.Sprintf("(%v).Sub(%v) = %v, calendar says %d days", p.nx, p.ny, got, delta))
				}
				if got := p.x.DaysBetween(p.y); int64(got) != delta {
					w.Fail(c, "days-between", fmt.Sprintf("(%v).DaysBetween(%v) = %d, calendar says %d", p.nx, p.ny, got, delta))
				}
			}
		}
		if a.IsZero() != (c.A == YMD{1, 1, 1}) {
			w.Fail(c, "is-zero", fmt.Sprintf("(%v).IsZero() = %v", c.A, a.IsZero()))
		}
	case "add":
		a, ok := mk(c, w, c.A)
		if !ok {
			return
		}
		wy, wm, wd := ref.AddYMD(c.A.Y, c.A.M, c.A.D, int64(c.Years), int64(c.Months), int64(c.Days))
		if got := a.Add(c.Years, c.Months, c.Days); !is(got, wy, wm, wd) {
			gy, gm, gd := got.Date()
			w.Fail(c, "add", fmt.Sprintf("(%v).Add(%d, %d, %d) = %d-%d-%d, the calendar with AddDate-style normalisation gives %d-%d-%d", c.A, c.Years, c.Months, c.Days, gy, int(gm), gd, wy, wm, wd))
		}
	case "adddur":
		a, ok := mk(c, w, c.A)
		if !ok {
			return
		}
		day := int64(24 * time.Hour)
		q := c.Dur / day
		if c.Dur%day != 0 && c.Dur < 0 {
			q--
		}
		wy, wm, wd := ref.CivilFromDays(c.A.ord() + q)
		if got := a.AddDuration(time.Duration(c.Dur)); !is(got, wy, wm, wd) {
			gy, gm, gd := got.Date()
			w.Fail(c, "add-duration", fmt.Sprintf("(%v).AddDuration(%v) = %d-%d-%d, midnight + duration falls on %d-%d-%d", c.A, time.Duration(c.Dur), gy, int(gm), gd, wy, wm, wd))
		}
	case "time":
		a, ok := mk(c, w, c.A)
		if !ok {
			return
		}
		t := a.Time()
		ty, tm, td := t.Date()
		if t.Location() != time.UTC || t.Hour() != 0 || t.Minute() != 0 || t.Second() != 0 || t.Nanosecond() != 0 || int64(ty) != c.A.Y || int(tm) != c.A.M || td != c.A.D || t.Unix() != c.A.ord()*86400 {
			w.Fail(c, "time", fmt.Sprintf("(%v).Time() = %v (location %v, unix %d; expected midnight UTC, unix %d)", c.A, t, t.Location(), t.Unix(), c.A.ord()*86400))
		}
		v, err := a.Value()
		if tv, isTime := v.(time.Time); err != nil || !isTime || !tv.Equal(t) || tv.Location() != time.UTC {
			w.Fail(c, "value", fmt.Sprintf("(%v).Value() = %v, %v", c.A, v, err))
		}
		var s date.Date
		if err := s.Scan(t); err != nil || !s.Equal(a) {
			w.Fail(c, "scan", fmt.Sprintf("Scan(%v) -> %v, %v", t, s, err))
		}
	case "fromtime":
		t := time.Unix(c.Sec, c.Nsec).In(location(c))
		if t.IsZero() {
			return // the statement speaks of non-zero times
		}
		_, off := t.Zone() // the offset in force at that instant in the time's own location
		local := c.Sec + int64(off)
		days := local / 86400
		if local%86400 != 0 && local < 0 {
			days--
		}
		wy, wm, wd := ref.CivilFromDays(days)
		got := date.FromTime(t)
		var viaMethod date.Date
		viaMethod.FromTime(t)
		if !is(got, wy, wm, wd) || !viaMethod.Equal(got) {
			gy, gm, gd := got.Date()
			w.Fail(c, "from-time", fmt.Sprintf("FromTime(%v) = %d-%d-%d (method: %v), the time shows %d-%d-%d in its own location", t, gy, int(gm), gd, viaMethod, wy, wm, wd))
		}
		// Scan is the third way a time.Time becomes a date
		viaScan := date.New(1234, 5, 6)
		if err := viaScan.Scan(t); err != nil || !is(viaScan, wy, wm, wd) {
			gy, gm, gd := viaScan.Date()
			w.Fail(c, "scan", fmt.Sprintf("Scan(%v) -> %d-%d-%d, %v; the time shows %d-%d-%d in its own location", t, gy, int(gm), gd, err, wy, wm, wd))
		}
	default:
		w.Fail(c, "bad-case", "unknown kind "+c.Kind)
	}
}

func civil(o int64) YMD {
	y, m, d := ref.CivilFromDays(o)
	return YMD{y, m, d}
}

// boundarySet: month ends/starts, leap days, century years, years 0/1/9999 and some far dates.
func boundarySet(size int) []YMD {
	var out []YMD
	years := []int64{0, 1, 2, 3, 4, 99, 100, 101, 399, 400, 401, 1000, 1582, 1599, 1600, 1601, 1699, 1700, 1899, 1900, 1901, 1969, 1970, 1971, 1999, 2000, 2001, 2019, 2020, 2021, 2023, 2024, 2038, 2099, 2100, 2101, 2399, 2400, 4000, 9996, 9998, 9999}
	for _, y := range years {
		for m := 1; m <= 12; m++ {
			for _, d := range []int{1, 2, 15, 27, 28, 29, 30, 31} {
				if d <= ref.DaysIn(y, m) {
					out = append(out, YMD{y, m, d})
				}
			}
		}
		if len(out) >= size {
			break
		}
	}
	if len(out) > size {
		// keep a spread: first and last days of months dominate the prefix; thin uniformly instead
		step := float64(len(out)) / float64(size)
		thin := make([]YMD, 0, size)
		for i := 0; i < size; i++ {
			thin = append(thin, out[int(float64(i)*step)])
		}
		out = thin
	}
	return out
}

func crosses(a, b YMD) bool { return a.M != b.M || a.Y != b.Y }

func TestCheck(t *testing.T) {
	r := vkit.Start("C07")
	defer r.Finish(t)
	if r.ReplayCold() {
		return
	}
	if r.Replay != "" {
		var c Case
		if err := r.LoadReplay(&c); err != nil {
			t.Fatalf("replay: %v", err)
		}
		r.Serial(func(w *vkit.W) { judge(c, w); w.Eval(true) })
		return
	}
	r.Rule("Oracle: independent day ordinals (Hinnant's civil-from-days, self-tested against package time). Pair cases: exactly one of Before/Equal/After in ordinal order and mirrored; Sub and DaysBetween equal the ordinal difference within time.Duration's range; IsZero iff 0001-01-01. " +
		"Add: floor-normalise months into years, then day arithmetic on ordinals. AddDuration: ordinal + floor(duration / 24h). Time(): midnight UTC with Unix() = ordinal x 86400; Value(); Scan(time). FromTime: civil date of floor((sec + zone offset) / 86400), zero instants skipped. " +
		"Non-trivial: pairs/steps that cross a month or year boundary. Distinct by construction (enumerations, grids) or by hash (random, rapid).")
	r.Regress(func(raw json.RawMessage, w *vkit.W) error {
		var c Case
		if err := json.Unmarshal(raw, &c); err != nil {
			return err
		}
		judge(c, w)
		w.Eval(true)
		return nil
	})

	total := ref.OrdEnd - ref.Ord0 + 1
	r.Phase(fmt.Sprintf("A: all %d adjacent pairs of years 0000-9999 (both orders) + each date with itself and with the date 1/7/31/365/366 days later", total-1), func() {
		r.Parallel(total-1, 8192, func(w *vkit.W, lo, hi int64) {
			for i := lo; i < hi; i++ {
				a := civil(ref.Ord0 + i)
				b := civil(ref.Ord0 + i + 1)
				c := Case{Kind: "pair", A: a, B: b}
				judge(c, w)
				w.Eval(crosses(a, b))
				if i%16 == 0 {
					for _, step := range []int64{0, 7, 31, 365, 366, 106750, 106751, 106752, 146097} {
						if ref.Ord0+i+step <= ref.OrdEnd {
							c2 := Case{Kind: "pair", A: a, B: civil(ref.Ord0 + i + step)}
							judge(c2, w)
							w.Eval(true)
						}
					}
					judge(Case{Kind: "time", A: a}, w)
					w.Eval(true)
				}
				if crosses(a, b) && a.M == 2 && w.WantSample() {
					w.Sample(c)
				}
			}
		})
	})
	r.Exhaustive("Before/Equal/After/Sub/DaysBetween on every adjacent pair of dates of years 0000-9999, both argument orders")

	bs := boundarySet(r.Pick(4000, 4032))
	nb := int64(len(bs))
	r.Phase(fmt.Sprintf("B: all ordered pairs of a %d-date boundary set (month ends, leap days, century years, years 0/1/9999)", nb), func() {
		r.Parallel(nb*nb, nb, func(w *vkit.W, lo, hi int64) {
			for k := lo; k < hi; k++ {
				i, j := k/nb, k%nb
				if i > j {
					continue // judge covers both orders
				}
				c := Case{Kind: "pair", A: bs[i], B: bs[j]}
				judge(c, w)
				w.Eval(crosses(bs[i], bs[j]))
			}
		})
	})
	r.Exhaustive(fmt.Sprintf("all pairs of the %d-date boundary set", nb))

	// Phase B3: the same relations on values that came into being in other ways than through New.
	r.Phase("B3: all ordered pairs of a 320-date boundary subset, add/time cases, with the values constructed through UnmarshalBinary, FromTime (UTC and +14:00), UnmarshalText, Add(0,0,0), json.Unmarshal", func() {
		sub := boundarySet(320)
		sub = append(sub, YMD{2004, 2, 29}, YMD{2004, 3, 1}, YMD{2004, 12, 31}, YMD{2005, 1, 1}, YMD{2005, 3, 1}, YMD{1, 1, 1}, YMD{1, 1, 2}, YMD{0, 12, 31}, YMD{-1, 3, 1}, YMD{10000, 3, 1}, YMD{123456789, 2, 28})
		ns := int64(len(sub))
		for route := 1; route <= 8; route++ {
			route := route
			r.Parallel(ns*ns, ns, func(w *vkit.W, lo, hi int64) {
				for k := lo; k < hi; k++ {
					i, j := k/ns, k%ns
					if i > j {
						continue
					}
					c := Case{Kind: "pair", A: sub[i], B: sub[j], Route: route}
					judge(c, w)
					w.Eval(true)
					if i == j {
						for _, c2 := range []Case{{Kind: "time", A: sub[i], Route: route}, {Kind: "add", A: sub[i], Months: 1, Route: route}, {Kind: "add", A: sub[i], Years: -1, Days: 366, Route: route}, {Kind: "adddur", A: sub[i], Dur: int64(36 * time.Hour), Route: route}} {
							judge(c2, w)
							w.Eval(true)
						}
					}
				}
			})
		}
	})

	// Phase B4: every day of a few years, constructed through each route, against itself and its neighbours constructed through New.
	r.Phase("B4: every day of the years -1..1, 1899-1901, 1999-2005, 9998-9999 constructed through each route, paired with the same day, the next day and the same day of the next year", func() {
		var days []YMD
		for _, y := range []int64{-1, 0, 1, 1899, 1900, 1901, 1999, 2000, 2001, 2002, 2003, 2004, 2005, 9998, 9999} {
			for m := 1; m <= 12; m++ {
				for d := 1; d <= ref.DaysIn(y, m); d++ {
					days = append(days, YMD{y, m, d})
				}
			}
		}
		r.Parallel(int64(len(days)), 64, func(w *vkit.W, lo, hi int64) {
			for i := lo; i < hi; i++ {
				a := days[i]
				next := civil(a.ord() + 1)
				sameNextYear := YMD{a.Y + 1, a.M, a.D}
				if a.M == 2 && a.D == 29 {
					sameNextYear.D = 28
				}
				for route := 1; route <= 8; route++ {
					for _, b := range []YMD{a, next, sameNextYear} {
						c := Case{Kind: "pair", A: a, B: b, Route: route}
						judge(c, w)
						w.Eval(true)
					}
				}
			}
		})
	})

	// Phase B2: years far outside 0000-9999 (negative, beyond 9999, near the int32 limits) against each other and ordinary dates.
	r.Phase("B2: all ordered pairs of dates in extreme years (-2147483647 .. 2147483646) and ordinary years", func() {
		var pts []YMD
		for _, y := range []int64{-2147483647, -2000000000, -1500000000, -1073741824, -999999999, -20000, -10000, -9999, -401, -400, -399, -1, 0, 1, 1970, 9999, 10000, 20000, 999999999, 1073741824, 1500000000, 2000000000, 2147483646} {
			pts = append(pts, YMD{y, 1, 1}, YMD{y, 12, 31}, YMD{y, 3, 1})
		}
		np := int64(len(pts))
		r.Parallel(np*np, np, func(w *vkit.W, lo, hi int64) {
			for k := lo; k < hi; k++ {
				c := Case{Kind: "pair", A: pts[k/np], B: pts[k%np]}
				judge(c, w)
				w.Eval(true)
			}
		})
	})

	// Add grid
	addBase := boundarySet(r.Pick(600, 4000))
	yearsG := []int{-5000, -400, -101, -4, -1, 0, 1, 3, 100, 400, 5000}
	var daysG []int
	for d := -800; d <= 800; d += r.Pick(37, 7) {
		daysG = append(daysG, d)
	}
	daysG = append(daysG, -366, -365, -31, -30, -29, -28, -1, 0, 1, 28, 29, 30, 31, 59, 60, 365, 366,
		// beyond time.Duration's range when taken as nanoseconds (about 106,751 days), and whole 400-year cycles
		36524, 36525, 106750, 106751, 106752, 106753, 146096, 146097, 146098, 500000, 1000000, -36525, -106751, -106752, -146097, -500000, -1000000)
	r.Phase(fmt.Sprintf("C: Add over %d base dates x %d year steps x months -25..25 and +-{1200..120000} x %d day steps (incl. +-106752, +-146097, +-1000000)", len(addBase), len(yearsG), len(daysG)), func() {
		r.Parallel(int64(len(addBase)), 1, func(w *vkit.W, lo, hi int64) {
			for i := lo; i < hi; i++ {
				for _, yy := range yearsG {
					for mi := -31; mi <= 31; mi++ {
						mm := mi
						if mi < -25 || mi > 25 { // a few large month steps as well
							mm = []int{1200, 4800, 11999, 12000, 12001, 120000}[(mi+62)%6]
							if mi < 0 {
								mm = -mm
							}
						}
						for _, dd := range daysG {
							c := Case{Kind: "add", A: addBase[i], Years: yy, Months: mm, Days: dd}
							judge(c, w)
							w.Eval(mm != 0 || dd != 0)
							if mm == 1 && dd == 0 && addBase[i].D == 31 && w.WantSample() {
								w.Sample(c)
							}
						}
					}
				}
			}
		})
	})

	// Phase C2: single-component steps from every day 27..31 of every month of every year of a window: where a step lands depends
	// on the length of the target month in the target year, whatever the year next to it looks like.
	r.Phase("C2: Add of pure month / year / day steps (-14..14 months, -5..5 years, -3..3 days) from days 27-31 of every month of the years -5..2405 and 9990..9999", func() {
		var ys []int64
		for y := int64(-5); y <= 2405; y++ {
			ys = append(ys, y)
		}
		for y := int64(9990); y <= 9999; y++ {
			ys = append(ys, y)
		}
		r.Parallel(int64(len(ys)), 8, func(w *vkit.W, lo, hi int64) {
			for i := lo; i < hi; i++ {
				y := ys[i]
				for m := 1; m <= 12; m++ {
					for d := 27; d <= ref.DaysIn(y, m); d++ {
						a := YMD{y, m, d}
						for mm := -14; mm <= 14; mm++ {
							c := Case{Kind: "add", A: a, Months: mm}
							judge(c, w)
							w.Eval(mm != 0)
						}
						for yy := -5; yy <= 5; yy++ {
							c := Case{Kind: "add", A: a, Years: yy, Months: int(y+int64(m)+int64(d)) % 3}
							judge(c, w)
							w.Eval(true)
						}
						for dd := -3; dd <= 3; dd++ {
							c := Case{Kind: "add", A: a, Days: dd}
							judge(c, w)
							w.Eval(dd != 0)
						}
					}
				}
			}
		})
	})

	// AddDuration grid
	r.Phase("D: AddDuration over base dates x k*24h + delta (k up to +-100000 days; delta 0, +-1ns, +-1s, 12h, 24h-1ns and negatives)", func() {
		deltas := []int64{0, 1, -1, int64(time.Second), -int64(time.Second), int64(12 * time.Hour), -int64(12 * time.Hour), int64(24*time.Hour) - 1, -(int64(24*time.Hour) - 1), int64(time.Hour), -int64(25 * time.Hour), int64(23*time.Hour + 59*time.Minute)}
		ks := []int64{0, 1, -1, 2, -2, 27, 28, 29, 30, 31, -31, 59, 60, 365, 366, -365, -366, 1461, 36524, 36525, -36524, 100000, -100000, 106750, -106750, 106751, -106751}
		r.Parallel(int64(len(addBase)), 1, func(w *vkit.W, lo, hi int64) {
			for i := lo; i < hi; i++ {
				for _, k := range ks {
					for _, dl := range deltas {
						dur := k*int64(24*time.Hour) + dl
						c := Case{Kind: "adddur", A: addBase[i], Dur: dur}
						judge(c, w)
						w.Eval(dur != 0)
					}
				}
			}
		})
	})

	// FromTime grid
	r.Phase("E: FromTime over fixed-offset zones -12h..+14h in 15-minute steps x instants within 3 s of local and UTC midnights of base dates", func() {
		base := boundarySet(r.Pick(400, 4000))
		r.Parallel(int64(len(base)), 1, func(w *vkit.W, lo, hi int64) {
			for i := lo; i < hi; i++ {
				mid := base[i].ord() * 86400
				for off := -12 * 3600; off <= 14*3600; off += 900 {
					for _, around := range []int64{mid, mid - int64(off)} { // UTC midnight and local midnight
						for ds := int64(-3); ds <= 3; ds++ {
							for _, ns := range []int64{0, 999999999} {
								c := Case{Kind: "fromtime", Sec: around + ds, Nsec: ns, Off: off}
								judge(c, w)
								w.Eval(true)
								if off == -12*3600 && ds == -1 && w.WantSample() {
									w.Sample(c)
								}
							}
						}
					}
				}
			}
		})
	})
	// Phase E2: zones whose name is special ("UTC", "", "Local", "GMT") but whose offset is not zero.
	r.Phase("E2: fixed zones with special names and non-zero offsets", func() {
		base := boundarySet(120)
		r.Parallel(int64(len(base)), 1, func(w *vkit.W, lo, hi int64) {
			for i := lo; i < hi; i++ {
				mid := base[i].ord() * 86400
				for _, name := range []string{"UTC", "", "Local", "GMT", "Z", "utc"} {
					for _, off := range []int{2 * 3600, -5 * 3600, 14 * 3600, -12 * 3600, 1} {
						for _, ds := range []int64{-3601, -1, 0, 1, 3600, 5400} {
							c := Case{Kind: "fromtime", Sec: mid - int64(off) + ds, Off: off, Zone: "name:" + name}
							judge(c, w)
							w.Eval(true)
						}
					}
				}
			}
		})
	})

	// Phase E3: time-zone database locations with daylight saving: consecutive conversions in one location at instants whose
	// offsets differ (the order of the instants is shuffled), near local midnight.
	r.Phase("E3: tz-database locations (DST), instants near local midnight in January and July of many years, shuffled order", func() {
		zones := []string{"Europe/Prague", "America/New_York", "Australia/Lord_Howe", "Asia/Kolkata", "Pacific/Apia", "America/St_Johns", "Asia/Kathmandu", "Africa/Casablanca", "Pacific/Chatham", "Europe/London", "UTC"}
		r.Parallel(int64(len(zones)), 1, func(w *vkit.W, lo, hi int64) {
			for zi := lo; zi < hi; zi++ {
				g := r.Rng("tz", zi)
				for year := int64(1960); year <= 2040; year += 3 {
					var secs []int64
					for _, md := range [][2]int{{1, 15}, {7, 2}, {3, 31}, {10, 28}, {12, 31}, {4, 1}} {
						mid := ref.DaysFromCivil(year, md[0], md[1]) * 86400
						for _, h := range []int64{-14, -12, -6, -2, -1, 0, 1, 2, 6, 11, 13} {
							for _, ds := range []int64{-1800, -1, 0, 1, 1800} {
								secs = append(secs, mid+h*3600+ds)
							}
						}
					}
					for k := len(secs) - 1; k > 0; k-- { // seeded shuffle: January and July instants alternate irregularly
						j := g.Intn(k + 1)
						secs[k], secs[j] = secs[j], secs[k]
					}
					for _, sec := range secs {
						c := Case{Kind: "fromtime", Sec: sec, Zone: "tz:" + zones[zi]}
						judge(c, w)
						w.Eval(true)
					}
				}
			}
		})
	})
	r.Sampled()

	r.ColdPhase(coldFirst)

	r.Phase("F: rapid mixed cases", func() {
		ymd := rapid.Custom(func(rt *rapid.T) YMD {
			y := int64(rapid.IntRange(0, 9999).Draw(rt, "y"))
			if rapid.IntRange(0, 4).Draw(rt, "far") == 0 {
				y = int64(rapid.IntRange(-9999, 19999).Draw(rt, "yFar"))
			}
			m := rapid.IntRange(1, 12).Draw(rt, "m")
			return YMD{y, m, rapid.IntRange(1, ref.DaysIn(y, m)).Draw(rt, "d")}
		})
		r.Rapid(t, "rapid-date-arith", 0, r.Pick(60000, 3000000), func(rt *rapid.T, w *vkit.W) vkit.RapidCase {
			var c Case
			switch rapid.IntRange(0, 4).Draw(rt, "kind") {
			case 0:
				c = Case{Kind: "pair", A: ymd.Draw(rt, "a"), B: ymd.Draw(rt, "b")}
				if rapid.Bool().Draw(rt, "near") {
					c.B = civil(c.A.ord() + int64(rapid.IntRange(-400, 400).Draw(rt, "delta")))
				}
			case 1:
				c = Case{Kind: "add", A: ymd.Draw(rt, "a"), Years: rapid.IntRange(-500, 500).Draw(rt, "years"), Months: rapid.IntRange(-60, 60).Draw(rt, "months"), Days: rapid.OneOf(rapid.IntRange(-2000, 2000), rapid.IntRange(-2000000, 2000000)).Draw(rt, "days")}
			case 2:
				c = Case{Kind: "adddur", A: ymd.Draw(rt, "a"), Dur: rapid.Int64Range(-int64(maxDurDays)*int64(24*time.Hour), int64(maxDurDays)*int64(24*time.Hour)).Draw(rt, "dur")}
				if rapid.Bool().Draw(rt, "small") {
					c.Dur %= int64(72 * time.Hour)
				}
			case 3:
				c = Case{Kind: "time", A: ymd.Draw(rt, "a")}
			default:
				c = Case{Kind: "fromtime", Sec: rapid.Int64Range(-62135596800-86400*366, 253402300799).Draw(rt, "sec"), Nsec: int64(rapid.IntRange(0, 999999999).Draw(rt, "ns")), Off: rapid.IntRange(-12*3600, 14*3600).Draw(rt, "off"),
					Zone: rapid.SampledFrom([]string{"", "", "name:UTC", "name:", "tz:Europe/Prague", "tz:America/New_York", "tz:Australia/Lord_Howe", "tz:Asia/Kolkata"}).Draw(rt, "zone")}
			}
			judge(c, w)
			b, _ := json.Marshal(c)
			return vkit.RapidCase{Case: c, Hash: vkit.Hash64(string(b)), NT: true}
		})
	})
}
