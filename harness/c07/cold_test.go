package c07

import (
	"strings"
	"testing"
	"time"

	"go.lstv.dev/util/date"

	"verifharness/ref"
	"verifharness/vkit"
)

// coldFirst: the call made first in a fresh process.
var coldFirst = map[string]func(){
	"time of the zero date":   func() { _ = date.Date{}.Time() },
	"time of 0001-12-31":      func() { _ = date.New(1, 12, 31).Time() },
	"time of 1970-01-01":      func() { _ = date.New(1970, 1, 1).Time() },
	"time of a leap day":      func() { _ = date.New(2024, 2, 29).Time() },
	"sub of year-1 dates":     func() { _ = date.New(1, 3, 1).Sub(date.Date{}) },
	"days between":            func() { _ = date.New(2000, 3, 1).DaysBetween(date.New(1999, 3, 1)) },
	"add months":              func() { _ = date.New(2001, 1, 31).Add(0, 1, 0) },
	"add to the zero date":    func() { _ = date.Date{}.Add(0, 0, 1) },
	"add duration":            func() { _ = date.New(1, 1, 1).AddDuration(36 * time.Hour) },
	"value of the zero date":  func() { _, _ = date.Date{}.Value() },
	"from time":               func() { _ = date.FromTime(time.Date(2024, 2, 29, 23, 0, 0, 0, time.FixedZone("x", 7200))) },
	"from time year 1":        func() { _ = date.FromTime(time.Date(1, 1, 1, 0, 0, 1, 0, time.UTC)) },
	"scan":                    func() { var d date.Date; _ = d.Scan(time.Date(1, 6, 1, 0, 0, 0, 0, time.UTC)) },
	"before":                  func() { _ = date.New(2000, 1, 1).Before(date.New(2000, 1, 2)) },
	"today":                   func() { _ = date.Today() },
	"unmarshal binary year 1": func() { var d date.Date; _ = d.UnmarshalBinary([]byte{1, 0, 0, 0, 1, 1, 1}) },
	"is zero":                 func() { _ = date.Date{}.IsZero() },
	"new in an extreme year":  func() { _ = date.New(-2147483647, 1, 1).Time() },
	"parse then time":         func() { d, _ := date.DefaultParser("0001-01-01", 0); _ = d.Time() },
	"string of the zero date": func() { _ = date.Date{}.String() },
}

func init() {
	for _, z := range []string{"Pacific/Apia", "America/Sao_Paulo", "America/Havana", "Asia/Beirut", "America/Asuncion", "Africa/Cairo", "Pacific/Kiritimati", "America/Santiago"} {
		coldFirst["tz="+z+"; time of a skipped day"] = func() { _ = date.New(2011, 12, 30).Time() }
	}
}

func TestColdStart(t *testing.T) {
	vkit.ColdMain(t, "C07", coldFirst, func(w *vkit.W) {
		if strings.HasPrefix(vkit.ColdScenario(), "tz=") {
			for _, y := range []int64{1994, 2011, 2013, 2014, 2018, 2019} {
				for m := 1; m <= 12; m++ {
					for d := 1; d <= ref.DaysIn(y, m); d++ {
						a := YMD{y, m, d}
						judge(Case{Kind: "time", A: a}, w)
						judge(Case{Kind: "pair", A: a, B: civil(a.ord() + 1)}, w)
						judge(Case{Kind: "add", A: a, Days: 1}, w)
						judge(Case{Kind: "add", A: a, Months: 1}, w)
						judge(Case{Kind: "adddur", A: a, Dur: int64(24 * time.Hour)}, w)
						judge(Case{Kind: "pair", A: a, B: civil(a.ord() + 1), Route: 3}, w)
					}
				}
			}
		}
		pts := []YMD{{1, 1, 1}, {1, 1, 2}, {1, 12, 31}, {2, 1, 1}, {0, 12, 31}, {-1, 1, 1}, {1969, 12, 31}, {1970, 1, 1}, {1970, 1, 2}, {2000, 2, 29}, {2000, 3, 1}, {2024, 2, 29}, {2100, 2, 28}, {9999, 12, 31}}
		for _, a := range pts {
			judge(Case{Kind: "time", A: a}, w)
			for _, b := range pts {
				judge(Case{Kind: "pair", A: a, B: b}, w)
			}
			judge(Case{Kind: "add", A: a, Months: 1, Days: 1}, w)
			judge(Case{Kind: "adddur", A: a, Dur: int64(25 * time.Hour)}, w)
		}
		judge(Case{Kind: "fromtime", Sec: -62135596800 + 1, Off: 0}, w)
		judge(Case{Kind: "fromtime", Sec: 0, Off: -3600}, w)
	})
}
