package c18

import (
	"runtime/debug"
	"strings"
	"testing"

	"go.lstv.dev/util/date"
	"go.lstv.dev/util/roman"
	"go.lstv.dev/util/sem"
	"go.lstv.dev/util/size"
	"go.lstv.dev/util/uu"

	"verifharness/vkit"
)

// coldScenarios name the call that is made first in a fresh process; afterwards a battery of ordinary cases is judged.
var coldScenarios = []string{
	"sem.Valid(build only)", "sem.Valid(pre-release only)", "sem.Compare(pre-releases)", "sem.DefaultComparePreRelease", "sem.ParseTag", "sem.ParseVersion[[]byte]", "sem.Latest", "sem.String",
	"uu.DefaultParser(rule 2)", "uu.DefaultParser(rule 3, urn)", "uu.DefaultParser(rule 0, upper)", "uu.UnmarshalText", "uu.Format",
	"roman.Valid", "roman.DefaultParser[[]byte]", "roman.UnmarshalText(empty)", "roman.Format(lower)",
	"date.UnmarshalBinary", "date.DefaultParser(basic)", "date.Scan", "date.Format",
	"size.UnmarshalJSON(object)", "size.DefaultParser(text)", "size.New[float32]", "size.PrettyHTML",
	"size: unknown member nested 1,000,000 levels, stack limited to 16 MiB", "size: value member nested 1,000,000 levels, stack limited to 16 MiB", "all packages: 4 MiB inputs, stack limited to 16 MiB",
}

// deepCalls: inputs whose structure is as deep or as long as the disabled limits allow, parsed in a process whose goroutine
// stacks may not exceed 16 MiB (debug.SetMaxStack): stack use that grows with the input is a crash waiting for a large
// enough input, and a stack overflow cannot be recovered from - hence the child process.
func deepCalls(scenario string) {
	debug.SetMaxStack(16 << 20)
	a, b, c, d, e := size.MaxInputLength, sem.MaxInputLength, roman.MaxInputLength, date.MaxInputLength, uu.MaxInputLength
	defer func() {
		size.MaxInputLength, sem.MaxInputLength, roman.MaxInputLength, date.MaxInputLength, uu.MaxInputLength = a, b, c, d, e
	}()
	size.MaxInputLength, sem.MaxInputLength, roman.MaxInputLength, date.MaxInputLength, uu.MaxInputLength = 0, 0, 0, 0, 0
	const depth = 1000000
	switch scenario {
	case "size: unknown member nested 1,000,000 levels, stack limited to 16 MiB":
		for _, nest := range []string{strings.Repeat("[", depth) + strings.Repeat("]", depth), strings.Repeat(`{"a":`, depth) + "1" + strings.Repeat("}", depth)} {
			// totality only: whether such a document is accepted is C12's business (it checks up to 5000 levels)
			_, _ = size.DefaultParser(`{"x":`+nest+`,"value":3,"unit":"KiB"}`, size.RuleEnableJSONObjectForm)
			var u size.Size
			_ = u.UnmarshalJSON([]byte(`{"value":3,"unit":"KiB","x":` + nest + `}`))
		}
	case "size: value member nested 1,000,000 levels, stack limited to 16 MiB":
		_, _ = size.DefaultParser(`{"value":`+strings.Repeat("[", depth)+strings.Repeat("]", depth)+`}`, size.RuleEnableJSONObjectForm|size.RuleEnableJSONStringForm)
		_, _ = size.DefaultParser(strings.Repeat("[", depth), size.RuleEnableJSONObjectForm)
		_, _ = size.DefaultParser(strings.Repeat(`{"value":`, depth), size.RuleEnableJSONObjectForm)
	default:
		const n = 4 << 20
		_, _ = roman.DefaultParser(strings.Repeat("M", n)+"CDXLIV", 0)
		_ = roman.Valid(strings.Repeat("m", n), 0)
		_, _ = roman.DefaultFormatter(nil, 2000000, 0)
		_, _ = sem.Parse("1.2.3-" + strings.Repeat("a.", n/2) + "b")
		_, _ = sem.Compare("1.2.3-"+strings.Repeat("1.", n/2)+"1", "1.2.3-"+strings.Repeat("1.", n/2)+"2")
		_ = sem.Ver{PreRelease: strings.Repeat("a.", n/2) + "b", Build: strings.Repeat("-", n)}.Valid()
		_, _ = date.DefaultParser(strings.Repeat("9", n)+"-01-01", 0)
		_, _ = uu.DefaultParser(strings.Repeat("urn:uuid:", n/9), 0)
		_, _ = size.DefaultParser(strings.Repeat("1 ", n/2)+"kB", 0)
		_, _ = size.DefaultParser(`"`+strings.Repeat("1_", n/2)+`0"`, size.RuleEnableJSONStringForm)
	}
}

func firstCall(scenario string) {
	if strings.Contains(scenario, "stack limited") {
		deepCalls(scenario)
		return
	}
	switch scenario {
	case "sem.Valid(build only)":
		_ = sem.Ver{Major: 1, Build: "b.1"}.Valid()
	case "sem.Valid(pre-release only)":
		_ = sem.Ver{Major: 1, PreRelease: "rc.1"}.Valid()
	case "sem.Compare(pre-releases)":
		_ = sem.Ver{PreRelease: "a.1"}.Compare(sem.Ver{PreRelease: "a.2"})
	case "sem.DefaultComparePreRelease":
		_ = sem.DefaultComparePreRelease("rc1", []byte("rc01"))
	case "sem.ParseTag":
		_, _ = sem.ParseTag("v1.2.3-rc.1+b")
	case "sem.ParseVersion[[]byte]":
		_, _ = sem.ParseVersion([]byte("1.2.3"))
	case "sem.Latest":
		_, _ = sem.Latest("v1.2.3", []byte("1.2.4"))
	case "sem.String":
		_ = sem.Ver{Major: 1}.String()
	case "uu.DefaultParser(rule 2)":
		_, _ = uu.DefaultParser("123e4567-e89b-12d3-a456-426614174000", uu.RuleDisableUpperCaseDigits)
	case "uu.DefaultParser(rule 3, urn)":
		_, _ = uu.DefaultParser("urn:uuid:123e4567-e89b-12d3-a456-426614174000", uu.RuleDisableUpperCaseDigits|uu.RuleDisableURN)
	case "uu.DefaultParser(rule 0, upper)":
		_, _ = uu.DefaultParser([]byte("123E4567-E89B-12D3-A456-426614174000"), 0)
	case "uu.UnmarshalText":
		var id uu.ID
		_ = id.UnmarshalText([]byte("zzzzzzzz-zzzz-zzzz-zzzz-zzzzzzzzzzzz"))
	case "uu.Format":
		_ = uu.ID{Higher: 1, Lower: 2}.URN()
	case "roman.Valid":
		_ = roman.Valid("MCMXCIV", roman.RuleDisableEmptyAsZero)
	case "roman.DefaultParser[[]byte]":
		_, _ = roman.DefaultParser([]byte("mdclxvi"), 0)
	case "roman.UnmarshalText(empty)":
		var n roman.Number
		_ = n.UnmarshalText(nil)
	case "roman.Format(lower)":
		_, _ = roman.DefaultFormatter(nil, 1994, roman.FormatLowerCase|roman.FormatLong)
	case "date.UnmarshalBinary":
		var d date.Date
		_ = d.UnmarshalBinary([]byte{1, 0, 0, 7, 230, 2, 29})
	case "date.DefaultParser(basic)":
		_, _ = date.DefaultParser("20240229", date.RuleDisableBasic)
	case "date.Scan":
		var d date.Date
		_ = d.Scan("x")
	case "date.Format":
		_ = date.New(2024, 2, 29).String()
	case "size.UnmarshalJSON(object)":
		var s size.Size
		_ = s.UnmarshalJSON([]byte(`{"unit":"KiB","value":3}`))
	case "size.DefaultParser(text)":
		_, _ = size.DefaultParser([]byte("1_000 kB "), size.RuleDisableUnit)
	case "size.New[float32]":
		_, _ = size.New(float32(1.5), "B")
	case "size.PrettyHTML":
		_ = size.Size(1234567).PrettyHTML()
	default:
		panic("unknown cold scenario " + scenario)
	}
}

// coldBattery: ordinary inputs of every package, judged after the first call.
func coldBattery(w *vkit.W) {
	for _, pkg := range pkgs {
		for i, v := range valid[pkg] {
			other := valid[pkg][(i+1)%len(valid[pkg])]
			for _, rule := range []int{0, 1, 2, 3, 6} {
				judge(Case{Pkg: pkg, A: vkit.B(v), B: vkit.B(other), Rule: rule, Limit: -1}, w)
				judge(Case{Pkg: pkg, A: vkit.B(v + "\xc2"), B: vkit.B("é" + other), Rule: rule, Limit: -1}, w)
			}
		}
	}
}

// TestColdStart is only meaningful in a child process started by vkit.RunCold.
func TestColdStart(t *testing.T) {
	scenario := vkit.ColdScenario()
	if scenario == "" {
		t.Skip("not a cold-start child")
	}
	r := vkit.Start("C18")
	w := r.NewW()
	c := map[string]string{"first_call": scenario}
	w.Guard(c, func() { firstCall(scenario) })
	coldBattery(w)
	vkit.ColdReport(t, w)
}
