// C18: parsers are total and enforce the configured input limit first.
package c18

import (
	"bytes"
	"encoding/json"
	"errors"
	"fmt"
	"math"
	"runtime/metrics"
	"strconv"
	"strings"
	"testing"
	"time"

	"go.lstv.dev/util/date"
	"go.lstv.dev/util/roman"
	"go.lstv.dev/util/sem"
	"go.lstv.dev/util/size"
	"go.lstv.dev/util/uu"
	"pgregory.net/rapid"

	"verifharness/vkit"
)

// Case: two byte strings and a rule word fed to every public entry point of one package.
// Limit: -1 keeps the package's default MaxInputLength, otherwise the value to set (0 disables the limit).
type Case struct {
	Pkg   string `json:"pkg"` // date | roman | sem | size | uu
	A     vkit.B `json:"a"`
	B     vkit.B `json:"b,omitempty"` // second operand of the two-argument sem helpers; second content of equal length for the message test
	Rule  int    `json:"rule"`
	Limit int    `json:"max_input_length"`
	// KeysSet/Keys: size.MaxObjectKeys is set to Keys for the case (0 disables that limit); serial phases only.
	KeysSet bool `json:"max_object_keys_set,omitempty"`
	Keys    int  `json:"max_object_keys,omitempty"`
}

type (
	dS string
	dB []byte
)

var defaults = map[string]int{"date": 10, "roman": 128, "sem": 1024, "size": 128, "uu": 45}

func limitPtr(pkg string) *int {
	switch pkg {
	case "date":
		return &date.MaxInputLength
	case "roman":
		return &roman.MaxInputLength
	case "sem":
		return &sem.MaxInputLength
	case "size":
		return &size.MaxInputLength
	case "uu":
		return &uu.MaxInputLength
	}
	panic("pkg " + pkg)
}

func tooLongErr(pkg string) error {
	switch pkg {
	case "date":
		return date.ErrInputTooLong
	case "roman":
		return roman.ErrInputTooLong
	case "sem":
		return sem.ErrInputTooLong
	case "size":
		return size.ErrInputTooLong
	default:
		return uu.ErrInputTooLong
	}
}

func setLimit(pkg string, n int) func() {
	p := limitPtr(pkg)
	old := *p
	if n >= 0 {
		*p = n
	}
	return func() { *p = old }
}

// result of one parser call, reduced to what the limit contract talks about
type res struct {
	name string
	zero bool
	err  error
}

// parseCalls invokes every single-input parsing/validating entry point of the package on in.
func parseCalls(pkg string, in []byte, rule int) []res {
	s := string(in)
	var out []res
	add := func(name string, zero bool, err error) { out = append(out, res{name, zero, err}) }
	switch pkg {
	case "date":
		d, err := date.DefaultParser(s, date.Rule(rule))
		add("DefaultParser[string]", d == date.Date{}, err)
		d, err = date.DefaultParser(in, date.Rule(rule))
		add("DefaultParser[[]byte]", d == date.Date{}, err)
		d, err = date.DefaultParser(dS(s), date.Rule(rule))
		add("DefaultParser[derived string]", d == date.Date{}, err)
		d, err = date.DefaultParser(dB(in), date.Rule(rule))
		add("DefaultParser[derived []byte]", d == date.Date{}, err)
		var u date.Date
		err = u.UnmarshalText(in)
		add("UnmarshalText", u == date.Date{}, err)
	case "roman":
		n, err := roman.DefaultParser(s, roman.Rule(rule))
		add("DefaultParser[string]", n == 0, err)
		n, err = roman.DefaultParser(in, roman.Rule(rule))
		add("DefaultParser[[]byte]", n == 0, err)
		add("Valid[string]", true, roman.Valid(s, roman.Rule(rule)))
		add("Valid[[]byte]", true, roman.Valid(in, roman.Rule(rule)))
		add("Valid[derived string]", true, roman.Valid(dS(s), roman.Rule(rule)))
		add("Valid[derived []byte]", true, roman.Valid(dB(in), roman.Rule(rule)))
		n, err = roman.DefaultParser(dS(s), roman.Rule(rule))
		add("DefaultParser[derived string]", n == 0, err)
		var u roman.Number
		err = u.UnmarshalText(in)
		add("UnmarshalText", u == 0, err)
	case "sem":
		z := sem.Ver{}
		v, err := sem.DefaultParser(s, sem.Rule(rule))
		add("DefaultParser[string]", v == z, err)
		v, err = sem.DefaultParser(in, sem.Rule(rule))
		add("DefaultParser[[]byte]", v == z, err)
		v, err = sem.Parse(s)
		add("Parse[string]", v == z, err)
		v, err = sem.Parse(in)
		add("Parse[[]byte]", v == z, err)
		v, err = sem.ParseVersion(s)
		add("ParseVersion[string]", v == z, err)
		v, err = sem.ParseVersion(in)
		add("ParseVersion[[]byte]", v == z, err)
		v, err = sem.ParseTag(s)
		add("ParseTag[string]", v == z, err)
		v, err = sem.ParseTag(in)
		add("ParseTag[[]byte]", v == z, err)
		v, err = sem.Parse(dS(s))
		add("Parse[derived string]", v == z, err)
		v, err = sem.ParseVersion(dB(in))
		add("ParseVersion[derived []byte]", v == z, err)
		var u sem.Ver
		err = u.UnmarshalText(in)
		add("UnmarshalText", u == z, err)
	case "size":
		n, err := size.DefaultParser(s, size.Rule(rule))
		add("DefaultParser[string]", n == 0, err)
		n, err = size.DefaultParser(in, size.Rule(rule))
		add("DefaultParser[[]byte]", n == 0, err)
		n, err = size.DefaultParser(dS(s), size.Rule(rule))
		add("DefaultParser[derived string]", n == 0, err)
		n, err = size.DefaultParser(dB(in), size.Rule(rule))
		add("DefaultParser[derived []byte]", n == 0, err)
		var u size.Size
		err = u.UnmarshalText(in)
		add("UnmarshalText", u == 0, err)
		u = 0
		err = u.UnmarshalJSON(in)
		add("UnmarshalJSON", u == 0, err)
	case "uu":
		id, err := uu.DefaultParser(s, uu.Rule(rule))
		add("DefaultParser[string]", id == uu.ID{}, err)
		id, err = uu.DefaultParser(in, uu.Rule(rule))
		add("DefaultParser[[]byte]", id == uu.ID{}, err)
		id, err = uu.DefaultParser(dS(s), uu.Rule(rule))
		add("DefaultParser[derived string]", id == uu.ID{}, err)
		id, err = uu.DefaultParser(dB(in), uu.Rule(rule))
		add("DefaultParser[derived []byte]", id == uu.ID{}, err)
		var u uu.ID
		err = u.UnmarshalText(in)
		add("UnmarshalText", u == uu.ID{}, err)
	}
	return out
}

// otherCalls invokes the remaining entry points (comparators, helpers, binary/scan/json paths); only totality is judged,
// plus the limit contract of the two-argument sem helpers.
func otherCalls(c Case, w *vkit.W, limit int) {
	a, b := []byte(c.A), []byte(c.B)
	sa, sb := string(a), string(b)
	switch c.Pkg {
	case "date":
		var d date.Date
		_ = d.UnmarshalBinary(a)
		// Scan is not documented to read text; if it does, text longer than the limit must not get through
		for _, src := range []any{sa, a} {
			keep := d
			if err := d.Scan(src); err == nil && limit != 0 && len(a) > limit {
				w.Fail(c, "limit-not-enforced", fmt.Sprintf("date.Scan(%T of %d bytes) with MaxInputLength=%d returned no error (receiver %v -> %v)", src, len(a), limit, keep, d))
			}
		}
		_ = d.Scan(nil)
		_ = d.Scan(c.Rule)
		_ = d.Scan(time.Unix(int64(c.Rule), 0))
		tm := time.Unix(int64(c.Rule), int64(len(a)))
		for _, src := range []any{&tm, (*time.Time)(nil), (*date.Date)(nil), d, &d, (*string)(nil), &sa, (*[]byte)(nil), []any{tm}, map[string]any{}, error(nil), int64(c.Rule), uint8(c.Rule), 1.5, true, struct{}{}, time.Duration(c.Rule), (func())(nil), make(chan int)} {
			_ = d.Scan(src)
		}
		_ = json.Unmarshal(a, &d)
		_ = d.String()
		_, _ = d.MarshalBinary()
	case "roman":
		var n roman.Number
		_ = json.Unmarshal(a, &n)
	case "sem":
		over := func(x []byte) bool { return limit != 0 && len(x) > limit }
		chk := func(name string, err error) {
			// the first operand is parsed first; if it is within the limit and valid, the second decides
			if over(a) && !errors.Is(err, sem.ErrInputTooLong) {
				w.Fail(c, "limit-not-enforced", fmt.Sprintf("sem.%s: first operand has %d bytes (limit %d) but the error is %v", name, len(a), limit, err))
			}
			if !over(a) && over(b) {
				// the one-argument parser of the same form says whether the first operand stands in the way
				var aErr error
				switch {
				case strings.HasSuffix(name, "Version"):
					_, aErr = sem.ParseVersion(sa)
				case strings.HasSuffix(name, "Tag"):
					_, aErr = sem.ParseTag(sa)
				default:
					_, aErr = sem.Parse(sa)
				}
				if aErr == nil && !errors.Is(err, sem.ErrInputTooLong) {
					w.Fail(c, "limit-not-enforced", fmt.Sprintf("sem.%s: the first operand %q is fine, the second has %d bytes (limit %d) but the error is %v", name, sa, len(b), limit, err))
				}
				if aErr == nil && err != nil && len(b) >= 12 && strings.Contains(err.Error(), string(b[:12])) {
					w.Fail(c, "too-long-message-reproduces-input", fmt.Sprintf("sem.%s: the message for an over-long second operand contains it: %.200q", name, err.Error()))
				}
			}
			if !over(a) && !over(b) && errors.Is(err, sem.ErrInputTooLong) {
				w.Fail(c, "limit-spurious", fmt.Sprintf("sem.%s: operands have %d and %d bytes (limit %d) but ErrInputTooLong was reported", name, len(a), len(b), limit))
			}
		}
		_, err := sem.Compare(sa, b)
		chk("Compare", err)
		_, err = sem.CompareVersion[string, string](sa, sb)
		chk("CompareVersion", err)
		_, err = sem.CompareTag(a, sb)
		chk("CompareTag", err)
		_, err = sem.Latest(a, b)
		chk("Latest", err)
		_, err = sem.LatestVersion(sa, sb)
		chk("LatestVersion", err)
		_, err = sem.LatestTag(sa, b)
		chk("LatestTag", err)
		_ = sem.DefaultComparePreRelease(sa, sb)
		_ = sem.DefaultComparePreRelease(a, sb)
		_ = sem.DefaultComparePreRelease(sa, b)
		_ = sem.DefaultComparePreRelease(b, a)
		_ = sem.DefaultComparePreRelease(sa, sa)
		va := sem.Ver{Major: uint64(c.Rule), PreRelease: sa, Build: sb}
		vb := sem.Ver{Major: uint64(c.Rule), PreRelease: sb, Build: sa}
		_ = va.Compare(vb)
		_ = vb.Compare(va)
		_ = va.Compare(va)
		_ = va.Latest(vb)
		_ = va.Valid()
		_ = vb.Valid()
		_ = va.String()
		_ = va.StringTag()
		_, _ = va.MarshalText()
		_ = va.IsZero()
		var u sem.Ver
		_ = json.Unmarshal(a, &u)
	case "size":
		var s size.Size
		_ = json.Unmarshal(a, &s)
		var doc struct {
			S size.Size
			L []size.Size
		}
		_ = json.Unmarshal(a, &doc)
	case "uu":
		var id uu.ID
		_ = json.Unmarshal(a, &id)
	}
}

func judge(c Case, w *vkit.W) {
	defer func() {
		if p := recover(); p != nil {
			w.Fail(c, "panic", vkit.PanicDetail(p))
		}
	}()
	limit := c.Limit
	if limit < 0 {
		limit = defaults[c.Pkg]
	}
	if c.KeysSet {
		oldKeys := size.MaxObjectKeys
		size.MaxObjectKeys = c.Keys
		defer func() { size.MaxObjectKeys = oldKeys }()
	}
	a := []byte(c.A)
	tl := tooLongErr(c.Pkg)
	over := limit != 0 && len(a) > limit
	ra := parseCalls(c.Pkg, a, c.Rule)
	var rb []res
	if len(c.B) == len(c.A) && c.B != c.A {
		rb = parseCalls(c.Pkg, []byte(c.B), c.Rule)
	}
	for i, r := range ra {
		isTL := errors.Is(r.err, tl)
		if c.Pkg == "size" && r.name == "UnmarshalText" && false {
			continue
		}
		switch {
		case over && !isTL:
			w.Fail(c, "limit-not-enforced", fmt.Sprintf("%s.%s: input of %d bytes with MaxInputLength=%d: error is %v (want the package's ErrInputTooLong)", c.Pkg, r.name, len(a), limit, r.err))
		case over && !r.zero:
			w.Fail(c, "nonzero-result-with-error", fmt.Sprintf("%s.%s: over-long input gave a non-zero result", c.Pkg, r.name))
		case !over && isTL:
			w.Fail(c, "limit-spurious", fmt.Sprintf("%s.%s: input of %d bytes with MaxInputLength=%d rejected as too long", c.Pkg, r.name, len(a), limit))
		}
		if over && isTL && rb != nil && rb[i].err != nil && r.err.Error() != rb[i].err.Error() {
			w.Fail(c, "too-long-message-depends-on-content", fmt.Sprintf("%s.%s: two different inputs of %d bytes give different too-long messages: %q vs %q", c.Pkg, r.name, len(a), r.err.Error(), rb[i].err.Error()))
		}
		if over && isTL && len(a) >= 12 {
			if msg := r.err.Error(); strings.Contains(msg, string(a[:12])) || strings.Contains(msg, strconv.Quote(string(a[:12]))[1:11]) {
				w.Fail(c, "too-long-message-reproduces-input", fmt.Sprintf("%s.%s: the too-long message contains the input: %.200q", c.Pkg, r.name, msg))
			}
		}
	}
	otherCalls(c, w, limit)
	// the limit is the program's setting: no library call changes it
	if cur := *limitPtr(c.Pkg); cur != limit {
		w.Fail(c, "limit-not-enforced", fmt.Sprintf("%s.MaxInputLength was %d when the calls of this case began and is %d afterwards: the library changed the configured limit itself", c.Pkg, limit, cur))
		*limitPtr(c.Pkg) = limit
	}
}

// ---- allocation guard (single-threaded tiers only) ---------------------------------------------------------------------

var allocSample = []metrics.Sample{{Name: "/gc/heap/allocs:bytes"}}

func allocBytes() uint64 {
	metrics.Read(allocSample)
	return allocSample[0].Value.Uint64()
}

func judgeWithAllocGuard(c Case, w *vkit.W) {
	before := allocBytes()
	judge(c, w)
	grown := allocBytes() - before
	budget := uint64(len(c.A)+len(c.B))*4096 + 32<<20 // generous: dozens of calls per case, each may copy the input a few times
	if grown > budget {
		w.Fail(c, "runaway-allocation", fmt.Sprintf("%s: %d bytes allocated for inputs of %d+%d bytes (budget %d)", c.Pkg, grown, len(c.A), len(c.B), budget))
	}
}

// ---- hostile input generation ---------------------------------------------------------------------------------------------

var valid = map[string][]string{
	"date":  {"2022-08-07", "20220807", "0001-01-01", "9999-12-31", "2024-02-29", "12345-01-01", "999999999-12-31", "1234567890101"},
	"roman": {"", "I", "IV", "MCMXCIV", "mdclxvi", "MMMMMMMMMMMMMMMMMMMM", "DCCCCLXXXXVIIII", "iX"},
	"sem":   {"1.2.3", "v1.2.3", "0.0.0", "1.0.0-alpha.1", "1.0.0-rc.1+build.5", "18446744073709551615.0.0", "v2.0.0+001", "1.0.0-a01", "1.0.0-0.3.7", "1.0.0-x-y-z.--"},
	"size":  {"10", "20KiB", "1 000 kB", "1_000", `"1 KiB"`, `{"value":1,"unit":"KiB"}`, `{"unit":"B","value":0,"x":[1,{"y":null}]}`, "18446744073709551615", " 7 EiB "},
	"uu":    {"00000000-0000-0000-0000-000000000000", "urn:uuid:123e4567-e89b-12d3-a456-426614174000", "123E4567-E89B-12D3-A456-426614174000", "ffffffff-ffff-4fff-bfff-ffffffffffff"},
}

var hostile = []string{"\x00", "\xff", "\xc2", "\xc3", "\xe2\x80", "\xf0\x9f\x98", "\xc3\x28", "é", "ééé", "éééé", "日本", "\U0001F600", "\u00a0", "\u2028", "ſ", "K", "İ", "\n", "\r\n", "\t", " ", "-", ".", "+", "v", "0", "9", "M", "{", "}", "[", "]", "\"", "\\", ":", ",", "e", "E", "_", "/", "%s", "%d", "\x7f", "\x80", "\xed\xa0\x80", "\xf4\x90\x80\x80"}

// hostileInput builds an input from a PRNG: valid text, edits, multi-byte runes at arbitrary offsets, runs, padding to a target length.
func hostileInput(g *vkit.Rng, pkg string, limit int) []byte {
	vs := valid[pkg]
	var b []byte
	switch g.Intn(8) {
	case 0:
		n := g.Intn(24)
		b = make([]byte, n)
		for i := range b {
			b[i] = byte(g.U64())
		}
	case 1:
		for k := g.Intn(6); k >= 0; k-- {
			b = append(b, hostile[g.Intn(len(hostile))]...)
		}
	default:
		b = []byte(vs[g.Intn(len(vs))])
	}
	for e := g.Intn(4); e > 0; e-- {
		pos := g.Intn(len(b) + 1)
		switch g.Intn(5) {
		case 0:
			h := hostile[g.Intn(len(hostile))]
			b = append(b[:pos], append([]byte(h), b[pos:]...)...)
		case 1:
			if pos < len(b) {
				b[pos] = byte(g.U64())
			}
		case 2:
			if pos < len(b) {
				b = append(b[:pos], b[pos+1:]...)
			}
		case 3:
			if pos < len(b) {
				b = append(b[:pos], append([]byte{b[pos]}, b[pos:]...)...)
			}
		default:
			other := []byte(vs[g.Intn(len(vs))])
			b = append(b[:pos], append(other, b[pos:]...)...)
		}
	}
	if limit > 0 && g.Intn(3) == 0 {
		// steer the length to the limit +-1 or beyond by padding with a byte the grammar tends to ignore or repeat
		target := limit + int(g.Range(-1, 2))
		if g.Intn(4) == 0 {
			target = limit*2 + g.Intn(limit*8+1)
		}
		pads := []byte{' ', '0', 'M', 'a', '9', '_', '\n', 0, 0xff, '-', '.'}
		p := pads[g.Intn(len(pads))]
		front := g.Bool()
		b = padTo(b, target, p, front)
	}
	return b
}

func padTo(b []byte, target int, p byte, front bool) []byte {
	if len(b) >= target {
		return b
	}
	pad := make([]byte, target-len(b))
	for i := range pad {
		pad[i] = p
	}
	if front {
		return append(pad, b...)
	}
	return append(b, pad...)
}

var pkgs = []string{"date", "roman", "sem", "size", "uu"}

func nontrivial(c Case, limit int) bool {
	if limit > 0 && len(c.A) >= limit-1 && len(c.A) <= limit+1 {
		return true
	}
	for i := 0; i < len(c.A); i++ {
		if c.A[i] >= 0x80 || c.A[i] == 0 {
			return true
		}
	}
	return false
}

func TestCheck(t *testing.T) {
	r := vkit.Start("C18")
	defer r.Finish(t)
	if r.ReplayCold() {
		return
	}
	if r.Replay != "" {
		var c Case
		if err := r.LoadReplay(&c); err != nil {
			t.Fatalf("replay: %v", err)
		}
		defer setLimit(c.Pkg, c.Limit)()
		r.Serial(func(w *vkit.W) { judgeWithAllocGuard(c, w); w.Eval(true) })
		return
	}
	r.Rule("A case feeds two byte strings and a rule word to every public entry point of one package (DefaultParser on string and []byte, Valid, Parse*, Compare*, Latest*, DefaultComparePreRelease in all type mixes, Ver.Compare/Valid/Latest on arbitrary field strings, UnmarshalText/JSON/Binary, Scan(any), encoding/json paths) under a MaxInputLength setting. " +
		"Oracle: no panic (recovered, reported with stack); len > limit != 0 => the package's ErrInputTooLong and a zero result, with a message that is identical for two different contents of equal length and does not contain the input; len <= limit or limit == 0 => never ErrInputTooLong; allocation per case within 4 KiB x input length + 32 MiB (single-threaded tiers). " +
		"Non-trivial: inputs containing a byte >= 0x80 or NUL, or whose length is within 1 of the limit. Distinct by hash.")
	r.Regress(func(raw json.RawMessage, w *vkit.W) error {
		var c Case
		if err := json.Unmarshal(raw, &c); err != nil {
			return err
		}
		defer setLimit(c.Pkg, c.Limit)()
		judgeWithAllocGuard(c, w)
		w.Eval(true)
		return nil
	})
	r.Sampled()

	// Phase A: hostile inputs under the default limits, in parallel (globals untouched).
	nA := int64(r.Pick(400000, 20000000))
	r.Phase(fmt.Sprintf("A: %d seeded hostile inputs x 5 packages, default limits", nA), func() {
		r.Parallel(nA, 2048, func(w *vkit.W, lo, hi int64) {
			for i := lo; i < hi; i++ {
				g := r.Rng("hostile", i)
				pkg := pkgs[i%5]
				c := Case{Pkg: pkg, Limit: -1, Rule: int(int32(g.U64())) >> uint(g.Intn(32))}
				c.A = vkit.B(hostileInput(g, pkg, defaults[pkg]))
				if g.Intn(3) == 0 && len(c.A) > 0 {
					// second content of equal length, different bytes
					bb := []byte(c.A)
					for k := range bb {
						bb[k] ^= byte(1 + g.Intn(3))
					}
					c.B = vkit.B(bb)
				} else {
					c.B = vkit.B(hostileInput(g, pkg, defaults[pkg]))
				}
				judge(c, w)
				w.EvalRandom(vkit.Hash64(pkg, string(c.A), string(c.B), strconv.Itoa(c.Rule)), nontrivial(c, defaults[pkg]))
				if w.WantSample() && len(c.A) > 3 && len(c.A) < 40 && nontrivial(c, defaults[pkg]) {
					w.Sample(c)
				}
			}
		})
	})

	// Phase B: limit matrix (package globals are set sequentially; no worker runs meanwhile).
	r.Phase("B: limit matrix: MaxInputLength in {0, 1, default, default+1} x lengths {limit-1, limit, limit+1, 10x} x contents", func() {
		// each package has its own MaxInputLength, so the five packages can run side by side
		r.Parallel(int64(len(pkgs)), 1, func(w *vkit.W, plo, phi int64) {
			for _, pkg := range pkgs[plo:phi] {
				for _, lim := range []int{0, 1, defaults[pkg], defaults[pkg] + 1, 7, math.MaxInt, math.MaxInt32} {
					restore := setLimit(pkg, lim)
					base := lim
					if base == 0 || base > 1<<20 { // no limit, or a practically unlimited one: lengths around the default limit
						base = defaults[pkg]
					}
					for _, n := range []int{base - 1, base, base + 1, base * 10, base*10 + 1} {
						if n < 0 {
							continue
						}
						for vi, v := range valid[pkg] {
							for pi, pad := range []byte{' ', '0', 'x', 'M', 0xC3, '\n', '9', 'a'} {
								if n > 2000 && lim == 0 && pi > 2 {
									continue // long inputs with the limit disabled are parsed in full: keep that corner small
								}
								for _, front := range []bool{false, true} {
									a := padTo([]byte(v), n, pad, front)
									if len(a) > n {
										a = a[:n]
									}
									b := make([]byte, len(a))
									for k := range b {
										b[k] = "zyxw"[k%4]
									}
									for rule := 0; rule < 4; rule++ {
										rw := rule
										if pkg == "size" {
											rw = []int{0, 6, 1, 15}[rule]
										}
										c := Case{Pkg: pkg, A: vkit.B(a), B: vkit.B(b), Rule: rw, Limit: lim}
										judge(c, w)
										w.EvalRandom(vkit.Hash64(pkg, string(a), strconv.Itoa(rw), strconv.Itoa(lim)), true)
									}
								}
							}
							_ = vi
						}
					}
					restore()
				}
			}
		})
	})

	// Phase B6: the two-argument helpers with operands of different lengths: only one of them beyond the limit.
	r.Phase("B6: sem two-argument helpers with only the first / only the second operand beyond MaxInputLength in {1024, 10, 40, 2000}", func() {
		shorts := []string{"1.2.3", "v1.2.3", "0.0.0-a", "v9.9.9+b", "1.2", "x"}
		for _, lim := range []int{1024, 10, 40, 2000} {
			restore := setLimit("sem", lim)
			r.Serial(func(w *vkit.W) {
				for _, short := range shorts {
					for _, n := range []int{lim + 1, lim + 2, lim * 3} {
						for _, long := range []string{"1.2.3-" + strings.Repeat("a", n), "v1.2.3+" + strings.Repeat("b.", n/2) + "b", strings.Repeat("z", n), "1.2.3-" + strings.Repeat("é", n/2)} {
							for _, c := range []Case{{Pkg: "sem", A: vkit.B(short), B: vkit.B(long), Limit: lim}, {Pkg: "sem", A: vkit.B(long), B: vkit.B(short), Limit: lim}, {Pkg: "sem", A: vkit.B(long), B: vkit.B(long), Limit: lim}} {
								w.Guard(c, func() { otherCalls(c, w, lim) })
								w.EvalRandom(vkit.Hash64("B6", string(c.A), string(c.B), strconv.Itoa(lim)), true)
							}
						}
					}
				}
			})
			restore()
		}
	})

	// Phase B7: Size.UnmarshalJSON / UnmarshalText under every DefaultRule word with empty, blank and broken inputs (totality).
	r.Phase("B7: size.UnmarshalJSON / UnmarshalText / json.Unmarshal under every DefaultRule subset (and undefined bits) with nil, empty, blank, broken and valid inputs", func() {
		old := size.DefaultRule
		defer func() { size.DefaultRule = old }()
		inputs := [][]byte{nil, {}, []byte(" "), []byte("\n"), []byte("x"), []byte(`"`), []byte("{"), []byte("["), []byte("}"), []byte("null"), []byte("0"), []byte(`""`), []byte(`"1kB"`), []byte(`{"value":1,"unit":"kB"}`), []byte("1 kB"), []byte("\x00"), []byte("\xff"), []byte(`{"value":`), []byte(`{}`)}
		r.Serial(func(w *vkit.W) {
			for rule := 0; rule <= 18; rule++ {
				rw := rule
				if rule > 15 {
					rw = []int{0xffff, 0x10, 0xfff0}[rule-16]
				}
				size.DefaultRule = size.Rule(rw)
				for _, in := range inputs {
					c := Case{Pkg: "size", A: vkit.B(in), Rule: rw, Limit: -1}
					w.Guard(c, func() {
						var s size.Size
						_ = s.UnmarshalJSON(in)
						_ = s.UnmarshalText(in)
						_ = json.Unmarshal(in, &s)
						_ = json.Unmarshal(append(append([]byte(`{"S":`), in...), '}'), &struct{ S size.Size }{})
					})
					w.EvalRandom(vkit.Hash64("B7", string(in), strconv.Itoa(rw)), true)
				}
			}
		})
	})

	// Phase B8: every valid text followed or preceded by a token of a neighbouring notation (JSON literals, separators, a second value).
	r.Phase("B8: every valid text with a JSON literal, separator or second value behind / in front of it x every rule word, default and disabled limits", func() {
		tokens := []string{" null", "null", " true", " false", " 0", " -1", " []", " {}", " [null]", ` ""`, ` "x"`, " nil", ",", ";", ":", "\n2", "\x00", " \x00", "//", "/**/", "#", " NaN", " 1e999", "\ufeff", " null null",
			" 14:12:55", "T14:12:55Z", " 14:12:55.123456", "T14:12:55+02:00", " 00:00:00", " 14:12", "T00:00:00.000Z", " 12:00:00 +0000 UTC"} // a time of day behind a date
		r.Parallel(int64(len(pkgs)), 1, func(w *vkit.W, plo, phi int64) {
			for _, pkg := range pkgs[plo:phi] {
				for _, lim := range []int{-1, 0} {
					restore := setLimit(pkg, lim)
					nRules := 4
					if pkg == "size" {
						nRules = 16
					}
					for _, v := range valid[pkg] {
						for _, tok := range tokens {
							for _, text := range []string{v + tok, strings.TrimSpace(tok) + " " + v, v + tok + tok} {
								for rule := 0; rule < nRules; rule++ {
									c := Case{Pkg: pkg, A: vkit.B(text), B: vkit.B(v), Rule: rule, Limit: lim}
									judge(c, w)
									w.EvalRandom(vkit.Hash64("B8", pkg, text, strconv.Itoa(rule), strconv.Itoa(lim)), true)
								}
							}
						}
					}
					restore()
				}
			}
		})
	})

	// Phase B11: the size object form under every kind of MaxObjectKeys setting: objects with 0..40, 100 and 1000 members (known,
	// unknown, repeated, empty keys; short enough for the default input limit where they can be), each setting of the key limit
	// (disabled, small, the default, just above it, large, the largest int), default and disabled input limits.
	r.Phase("B11: size JSON objects with 0..40, 100, 1000 members x MaxObjectKeys in {0, 1, 2, 15, 16, 17, 18, 32, 33, 64, 1000, MaxInt} x rule words x default and disabled input limit", func() {
		r.Serial(func(w *vkit.W) {
			counts := []int{100, 1000}
			for n := 0; n <= 40; n++ {
				counts = append(counts, n)
			}
			for _, n := range counts {
				var docs []string
				for _, style := range []int{0, 1, 2, 3} {
					var sb strings.Builder
					sb.WriteByte('{')
					for i := 0; i < n; i++ {
						if i > 0 {
							sb.WriteByte(',')
						}
						switch {
						case style == 0: // empty keys: the shortest members there are
							sb.WriteString(`"":0`)
						case style == 1 && i == n-1:
							sb.WriteString(`"value":3`)
						case style == 1:
							sb.WriteString(`"` + strconv.Itoa(i%10) + `":0`)
						case style == 2 && i%2 == 0:
							sb.WriteString(`"unit":"B"`)
						case style == 2:
							sb.WriteString(`"value":1`)
						default:
							sb.WriteString(`"k` + strconv.Itoa(i) + `":{"a":[` + strconv.Itoa(i) + `]}`)
						}
					}
					sb.WriteByte('}')
					docs = append(docs, sb.String())
				}
				for _, doc := range docs {
					for _, keys := range []int{0, 1, 2, 15, 16, 17, 18, 32, 33, 64, 1000, math.MaxInt} {
						for _, lim := range []int{-1, 0} {
							restore := setLimit("size", lim)
							for _, rule := range []int{0, 2, 3, 6, 7, 15} {
								c := Case{Pkg: "size", A: vkit.B(doc), Rule: rule, Limit: lim, KeysSet: true, Keys: keys}
								judge(c, w)
								w.EvalRandom(vkit.Hash64("B11", doc, strconv.Itoa(rule), strconv.Itoa(lim), strconv.Itoa(keys)), true)
							}
							restore()
						}
					}
				}
			}
		})
	})

	// Phase B9: seven-byte binary date bodies on a year ladder (both signs, out to the int32 limits) x months 0-13 x days 0-32,
	// plus every version byte: totality of UnmarshalBinary on structured input.
	r.Phase("B9: binary date bodies: years +-(2^k - 1, 2^k, 2^k + 1) and 400-year neighbours x months 0-13 x days 0-32 x version bytes 0-2", func() {
		var ys []int64
		for k := uint(0); k <= 31; k++ {
			for _, dlt := range []int64{-1, 0, 1} {
				ys = append(ys, 1<<k+dlt, -(1<<k + dlt))
			}
		}
		ys = append(ys, 0, -1, -399, -400, -401, -1600, -2000, 399, 400, 401)
		r.Parallel(int64(len(ys)), 8, func(w *vkit.W, lo, hi int64) {
			for i := lo; i < hi; i++ {
				u := uint32(int32(ys[i]))
				for m := 0; m <= 13; m++ {
					for d := 0; d <= 32; d++ {
						for ver := 0; ver <= 2; ver++ {
							body := []byte{byte(ver), byte(u >> 24), byte(u >> 16), byte(u >> 8), byte(u), byte(m), byte(d)}
							c := Case{Pkg: "date", A: vkit.B(body), Limit: -1}
							w.Guard(c, func() {
								var dt date.Date
								_ = dt.UnmarshalBinary(body)
								_ = dt.String()
								_, _ = dt.MarshalBinary()
							})
						}
						w.EvalRandom(vkit.HashU(uint64(u), uint64(m*64+d), 91), true)
					}
				}
			}
		})
	})

	// Phase B10: the package-level Parser functions are replaced by functions that fail in ways of their own (a plain error, a
	// parse error of the other instantiation, a nil-pointer error value, a panic is not among them): the Unmarshal methods that
	// go through them return normally.
	r.Phase("B10: UnmarshalText / UnmarshalJSON / json.Unmarshal while the package-level Parser fails with a plain error, a foreign parse error, a typed-nil error", func() {
		od, or, os, oz, ou := date.Parser, roman.Parser, sem.Parser, size.Parser, uu.Parser
		defer func() { date.Parser, roman.Parser, sem.Parser, size.Parser, uu.Parser = od, or, os, oz, ou }()
		plain := errors.New("custom parser says no")
		for kind := 0; kind < 3; kind++ {
			kind := kind
			date.Parser = func(in []byte, r date.Rule) (date.Date, error) {
				switch kind {
				case 1:
					_, err := date.DefaultParser(string(in)+"x", r)
					return date.Date{}, err
				case 2:
					return date.Date{}, (*date.ParseError[[]byte])(nil)
				}
				return date.Date{}, plain
			}
			roman.Parser = func(in []byte, r roman.Rule) (roman.Number, error) {
				if kind == 1 {
					_, err := roman.DefaultParser(string(in)+"?", r)
					return 0, err
				}
				return 0, plain
			}
			sem.Parser = func(in []byte, r sem.Rule) (sem.Ver, error) {
				if kind == 1 {
					_, err := sem.DefaultParser(string(in)+" ", r)
					return sem.Ver{}, err
				}
				return sem.Ver{}, plain
			}
			size.Parser = func(in []byte, r size.Rule) (size.Size, error) {
				if kind == 1 {
					_, err := size.DefaultParser(string(in)+"?", r)
					return 0, err
				}
				return 0, plain
			}
			uu.Parser = func(in []byte, r uu.Rule) (uu.ID, error) {
				if kind == 1 {
					_, err := uu.DefaultParser(string(in)+"?", r)
					return uu.ID{}, err
				}
				return uu.ID{}, plain
			}
			r.Serial(func(w *vkit.W) {
				for _, pkg := range pkgs {
					for _, v := range append(append([]string{}, valid[pkg]...), "", "x", strings.Repeat("9", 2000)) {
						c := Case{Pkg: pkg, A: vkit.B(v), Rule: kind, Limit: -1}
						w.Guard(c, func() {
							in := []byte(v)
							q, _ := json.Marshal(v)
							switch pkg {
							case "date":
								var d date.Date
								_ = d.UnmarshalText(in)
								_ = json.Unmarshal(q, &d)
							case "roman":
								var n roman.Number
								_ = n.UnmarshalText(in)
								_ = json.Unmarshal(q, &n)
							case "sem":
								var s sem.Ver
								_ = s.UnmarshalText(in)
								_ = json.Unmarshal(q, &s)
							case "size":
								var s size.Size
								_ = s.UnmarshalText(in)
								_ = s.UnmarshalJSON(in)
								_ = json.Unmarshal(q, &s)
							case "uu":
								var id uu.ID
								_ = id.UnmarshalText(in)
								_ = json.Unmarshal(q, &id)
							}
						})
						w.EvalRandom(vkit.Hash64("B10", pkg, v, strconv.Itoa(kind)), true)
					}
				}
			})
		}
	})

	// Phase B2: the limit is a setting, not a property of the text: the same text is parsed again after MaxInputLength was
	// lowered, raised and disabled (a parser that remembers earlier results must still apply the current limit first).
	r.Phase("B2: histories - the same valid text re-parsed while MaxInputLength is changed between the calls", func() {
		r.Parallel(int64(len(pkgs)), 1, func(w *vkit.W, plo, phi int64) {
			for _, pkg := range pkgs[plo:phi] {
				texts := append([]string{}, valid[pkg]...)
				for _, v := range valid[pkg] {
					texts = append(texts, " "+v, v+" ", "0"+v, v+v)
				}
				for round := 0; round < 3; round++ {
					for _, v := range texts {
						n := len(v)
						for _, lim := range []int{0, n, n - 1, n + 1, 1, defaults[pkg], n - 1, 0, n / 2, n} {
							if lim < 0 {
								continue
							}
							restore := setLimit(pkg, lim)
							for _, rule := range []int{0, 6, 1} {
								c := Case{Pkg: pkg, A: vkit.B(v), B: vkit.B(v), Rule: rule, Limit: lim}
								judge(c, w)
								w.EvalRandom(vkit.Hash64(pkg, v, strconv.Itoa(lim), strconv.Itoa(rule), strconv.Itoa(round)), true)
							}
							restore()
						}
					}
				}
			}
		})
	})

	// Phase B3: every single byte value inserted at every position of (and appended to) every valid text, default limits.
	r.Phase("B3: every byte value 0..255 inserted at every position of every valid text x 3 rule words", func() {
		r.Parallel(int64(len(pkgs)), 1, func(w *vkit.W, plo, phi int64) {
			for _, pkg := range pkgs[plo:phi] {
				for _, v := range valid[pkg] {
					for pos := 0; pos <= len(v); pos++ {
						for bv := 0; bv < 256; bv++ {
							a := v[:pos] + string([]byte{byte(bv)}) + v[pos:]
							for _, rule := range []int{0, 6, -1} {
								c := Case{Pkg: pkg, A: vkit.B(a), B: vkit.B(v), Rule: rule, Limit: -1}
								judge(c, w)
								w.EvalRandom(vkit.Hash64(pkg, a, strconv.Itoa(rule)), nontrivial(c, defaults[pkg]))
							}
						}
					}
				}
			}
		})
	})

	// Phase B3b: short numbers that stand for astronomically large or small quantities (exponents, long zero runs) in every size
	// form: the work done must not follow the quantity. A call that does not come back leaves this check inconclusive (time limit).
	r.Phase("B3b: size numbers with huge exponents and zero mantissas (0e99999999999999, 1e-99999999, ...) as text, JSON number, JSON string and object value x rule words", func() {
		r.Serial(func(w *vkit.W) {
			var nums []string
			for _, m := range []string{"0", "1", "0.0", "00", "18446744073709551615", "1.5", "-0"} {
				for _, e := range []string{"e99999999999999", "E+99999999999999", "e-99999999999999", "e18446744073709551616", "e2147483648", "e9223372036854775807", "e1000000", "e19", "e20", "e-1", "e"} {
					nums = append(nums, m+e)
				}
			}
			for _, n := range nums {
				for _, a := range []string{n, n + " kB", "\"" + n + "\"", "\"" + n + " KiB\"", "{\"value\":" + n + ",\"unit\":\"KiB\"}", "{\"value\":\"" + n + "\",\"unit\":\"B\"}", " " + n + " "} {
					for _, rule := range []int{0, 2, 4, 6, 14, -1} {
						c := Case{Pkg: "size", A: vkit.B(a), B: vkit.B("1 kB"), Rule: rule, Limit: -1}
						judge(c, w)
						w.EvalRandom(vkit.Hash64("B3b", a, strconv.Itoa(rule)), true)
					}
				}
			}
		})
	})

	// Phase B4: runs of every single byte value (lengths around typical buffer sizes), default limits and limit disabled.
	r.Phase("B4: runs of each of the 256 byte values, lengths {1,2,3,9,10,11,36,45,63,64,65,66,100,127,128,129,255,256,257,1023,1024,1025}, default and disabled limits", func() {
		r.Parallel(int64(len(pkgs)), 1, func(w *vkit.W, plo, phi int64) {
			for _, pkg := range pkgs[plo:phi] {
				for _, lim := range []int{-1, 0} {
					restore := setLimit(pkg, lim)
					for bv := 0; bv < 256; bv++ {
						for _, n := range []int{1, 2, 3, 9, 10, 11, 36, 45, 63, 64, 65, 66, 100, 127, 128, 129, 255, 256, 257, 1023, 1024, 1025} {
							a := bytes.Repeat([]byte{byte(bv)}, n)
							c := Case{Pkg: pkg, A: vkit.B(a), B: vkit.B(a[:n/2]), Rule: []int{0, 6, -1}[bv%3], Limit: lim}
							judge(c, w)
							w.EvalRandom(vkit.Hash64(pkg, string(a), strconv.Itoa(lim)), true)
							if n >= 3 && (pkg == "size" || bv%16 == 0) {
								// the same run as the content of a JSON string / behind a valid start
								q := append(append([]byte{'"', '1'}, a[:n-3]...), '"')
								c = Case{Pkg: pkg, A: vkit.B(q), B: vkit.B(a[:n/2]), Rule: 6, Limit: lim}
								judge(c, w)
								w.EvalRandom(vkit.Hash64(pkg, string(q), strconv.Itoa(lim)), true)
							}
						}
					}
					restore()
				}
			}
		})
	})

	// Phase B5: the first library calls of a fresh process (lazily built state): every scenario in its own child process.
	r.Phase(fmt.Sprintf("B5: %d cold-start scenarios, each in a fresh process", len(coldScenarios)), func() {
		r.Serial(func(w *vkit.W) {
			for _, sc := range coldScenarios {
				r.RunCold(w, sc, false)
				w.EvalRandom(vkit.Hash64("cold", sc), true)
			}
		})
	})

	// Phase C: very long runs with the limit disabled (linear work expected), single-threaded with the allocation guard.
	r.Phase("C: runs of one symbol and nesting bombs up to 1 MiB with the limit disabled", func() {
		r.Serial(func(w *vkit.W) {
			sizes := []int{4096, 65536, r.Pick(262144, 1<<20)}
			for _, pkg := range pkgs {
				restore := setLimit(pkg, 0)
				for _, n := range sizes {
					for _, unit := range []string{"M", "9", "a", " ", "-", ".", "1.", "[", "{\"a\":", "\"", "é", "\x00", "i", "0-", "_"} {
						a := []byte(strings.Repeat(unit, n/len(unit)))
						c := Case{Pkg: pkg, A: vkit.B(a), B: vkit.B(a[:len(a)/2]), Rule: 6, Limit: 0}
						judgeWithAllocGuard(c, w)
						w.EvalRandom(vkit.Hash64(pkg, unit, strconv.Itoa(n)), true)
					}
				}
				restore()
			}
		})
	})

	// Phase D: rapid (shrinks a failing input to a minimal one); draws the limit as well.
	r.Phase("D: rapid hostile inputs with drawn limits", func() {
		r.Rapid(t, "rapid-hostile", 0, r.Pick(60000, 3000000), func(rt *rapid.T, w *vkit.W) vkit.RapidCase {
			pkg := rapid.SampledFrom(pkgs).Draw(rt, "pkg")
			lim := rapid.SampledFrom([]int{-1, -1, -1, 0, 1, 7, defaults[pkg] + 1}).Draw(rt, "limit")
			piece := rapid.OneOf(
				rapid.SampledFrom(valid[pkg]),
				rapid.SampledFrom(hostile),
				rapid.StringMatching(`[0-9a-fA-FMDCLXVIvurnid:.+\-_ ]{0,12}`),
				rapid.Map(rapid.SliceOfN(rapid.Byte(), 0, 6), func(b []byte) string { return string(b) }),
			)
			gen := func(label string) []byte {
				parts := rapid.SliceOfN(piece, 0, 5).Draw(rt, label)
				b := []byte(strings.Join(parts, ""))
				if rapid.IntRange(0, 5).Draw(rt, label+"Pad") == 0 {
					eff := lim
					if eff < 0 {
						eff = defaults[pkg]
					}
					target := eff + rapid.IntRange(-1, 3).Draw(rt, label+"Delta")
					p := rapid.SampledFrom([]byte{' ', '0', 'M', 'a', '_', 0, '\n'}).Draw(rt, label+"PadByte")
					for len(b) < target {
						b = append(b, p)
					}
				}
				return b
			}
			c := Case{Pkg: pkg, A: vkit.B(gen("a")), B: vkit.B(gen("b")), Rule: rapid.OneOf(rapid.IntRange(0, 15), rapid.Int()).Draw(rt, "rule"), Limit: lim}
			restore := setLimit(pkg, lim)
			defer restore()
			judgeWithAllocGuard(c, w)
			eff := lim
			if eff < 0 {
				eff = defaults[pkg]
			}
			return vkit.RapidCase{Case: c, Hash: vkit.Hash64(pkg, string(c.A), string(c.B), strconv.Itoa(c.Rule), strconv.Itoa(lim)), NT: nontrivial(c, eff)}
		})
	})

}
