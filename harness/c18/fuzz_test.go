package c18

import (
	"testing"

	"verifharness/vkit"
)

// Native coverage-guided fuzz targets (thorough tier; driven by ./run C18 thorough). One per package: the fuzzer's bytes
// are decoded into (a, b, rule) and judged by the same judge as the generated cases (totality + limit contract under the
// default MaxInputLength). A failing input is written as a JSON replay file for ./run C18 --replay.

func fuzzJudge(t *testing.T, pkg string, a, b []byte, rule int) {
	if len(a) > 64<<10 || len(b) > 64<<10 {
		return
	}
	w := vkit.FuzzW("C18")
	c := Case{Pkg: pkg, A: vkit.B(a), B: vkit.B(b), Rule: rule, Limit: -1}
	judge(c, w)
	vkit.FuzzReport(t, "C18", w, c)
}

func addSeeds(f *testing.F, pkg string) {
	for i, v := range valid[pkg] {
		f.Add([]byte(v), []byte(valid[pkg][(i+1)%len(valid[pkg])]), i)
	}
	for _, h := range hostile {
		f.Add([]byte(h), []byte(h+h), 0)
		f.Add([]byte(valid[pkg][0]+h), []byte(h+valid[pkg][len(valid[pkg])-1]), 6)
	}
	f.Add([]byte("ééé"), []byte("éééé"), 0)
	f.Add([]byte("1.0.0-rc.1"), []byte("1.0.0-r.12345"), 0)
	f.Add([]byte("v1.0.0-beta.2"), []byte("1.0.0-b.20000"), 1)
}

func FuzzDate(f *testing.F) {
	addSeeds(f, "date")
	f.Fuzz(func(t *testing.T, a, b []byte, rule int) { fuzzJudge(t, "date", a, b, rule) })
}

func FuzzRoman(f *testing.F) {
	addSeeds(f, "roman")
	f.Fuzz(func(t *testing.T, a, b []byte, rule int) { fuzzJudge(t, "roman", a, b, rule) })
}

func FuzzSem(f *testing.F) {
	addSeeds(f, "sem")
	f.Fuzz(func(t *testing.T, a, b []byte, rule int) { fuzzJudge(t, "sem", a, b, rule) })
}

func FuzzSize(f *testing.F) {
	addSeeds(f, "size")
	f.Fuzz(func(t *testing.T, a, b []byte, rule int) { fuzzJudge(t, "size", a, b, rule) })
}

func FuzzUU(f *testing.F) {
	addSeeds(f, "uu")
	f.Fuzz(func(t *testing.T, a, b []byte, rule int) { fuzzJudge(t, "uu", a, b, rule) })
}
