package c19

import (
	"testing"

	"go.lstv.dev/util/uu"

	"verifharness/vkit"
)

// In a fresh process the generator's very first use comes from the given configuration (all goroutines released together).
var coldConfigs = map[string]Case{
	"first use: 64 goroutines, GOMAXPROCS 16": {Goroutines: 64, Draws: 200, Procs: 16, Yield: []uint64{0}},
	"first use: 16 goroutines, GOMAXPROCS 4":  {Goroutines: 16, Draws: 500, Procs: 4, Yield: []uint64{0, ^uint64(0)}},
	"first use: 2 goroutines, GOMAXPROCS 2":   {Goroutines: 2, Draws: 2000, Procs: 2, Yield: []uint64{0x5555555555555555}},
	"first use: 64 goroutines, GOMAXPROCS 1":  {Goroutines: 64, Draws: 100, Procs: 1, Yield: []uint64{^uint64(0)}},
	"first use: one draw, then 32 goroutines": {Goroutines: 32, Draws: 300, Procs: 8, Yield: []uint64{0}},
}

var coldFirst = func() map[string]func() {
	m := map[string]func(){}
	for name := range coldConfigs {
		m[name] = func() {}
	}
	return m
}()

func TestColdStart(t *testing.T) {
	vkit.ColdMain(t, "C19", coldFirst, func(w *vkit.W) {
		name := vkit.ColdScenario()
		if name == "first use: one draw, then 32 goroutines" {
			_ = uu.RandomID()
		}
		st := newState()
		execute(coldConfigs[name], w, st)
		execute(Case{Goroutines: 8, Draws: 1000, Procs: 8, Yield: []uint64{0}}, w, st)
	})
}
