// C19: random UUIDs are always version 4 / variant 1 and generation is thread-safe. Built and run with -race (see ./run).
package c19

import (
	"encoding/json"
	"fmt"
	"runtime"
	"slices"
	"sync"
	"testing"

	"go.lstv.dev/util/uu"
	"pgregory.net/rapid"

	"verifharness/vkit"
)

// Case is a concurrency configuration: Goroutines workers, each drawing Draws IDs, under GOMAXPROCS Procs, released together
// by a start barrier; worker g yields (runtime.Gosched) before draw i when bit (i mod 64) of Yield[g mod len(Yield)] is set.
type Case struct {
	Goroutines int      `json:"goroutines"`
	Draws      int      `json:"draws_per_goroutine"`
	Procs      int      `json:"gomaxprocs"`
	Yield      []uint64 `json:"yield_masks"`
}

type bits struct {
	orHi, orLo   uint64
	andHi, andLo uint64
	n            int64
}

type state struct {
	mu   sync.Mutex
	seen map[uu.ID]struct{}
	b    bits
}

func newState() *state {
	return &state{seen: map[uu.ID]struct{}{}, b: bits{andHi: ^uint64(0), andLo: ^uint64(0)}}
}

// execute runs the configuration and judges every drawn ID; duplicates are searched across the whole run (st).
func execute(c Case, w *vkit.W, st *state) {
	defer func() {
		if p := recover(); p != nil {
			w.Fail(c, "panic", vkit.PanicDetail(p))
		}
	}()
	if c.Goroutines < 1 || c.Draws < 1 || c.Procs < 1 || len(c.Yield) == 0 {
		w.Fail(c, "bad-case", "empty configuration")
		return
	}
	old := runtime.GOMAXPROCS(c.Procs)
	defer runtime.GOMAXPROCS(old)
	results := make([][]uu.ID, c.Goroutines)
	panics := make([]string, c.Goroutines)
	var start, done sync.WaitGroup
	start.Add(1)
	for g := 0; g < c.Goroutines; g++ {
		done.Add(1)
		go func(g int) {
			defer done.Done()
			defer func() {
				if p := recover(); p != nil {
					panics[g] = vkit.PanicDetail(p)
				}
			}()
			ids := make([]uu.ID, 0, c.Draws)
			mask := c.Yield[g%len(c.Yield)]
			start.Wait()
			for i := 0; i < c.Draws; i++ {
				if mask>>(uint(i)%64)&1 == 1 {
					runtime.Gosched()
				}
				ids = append(ids, uu.RandomID())
			}
			results[g] = ids
		}(g)
	}
	start.Done()
	done.Wait()
	for g, p := range panics {
		if p != "" {
			w.Fail(c, "panic-in-generator", fmt.Sprintf("goroutine %d: %s", g, p))
		}
	}
	st.mu.Lock()
	defer st.mu.Unlock()
	local := bits{andHi: ^uint64(0), andLo: ^uint64(0)} // the same bit statistics, for this configuration alone
	for g, ids := range results {
		for i, id := range ids {
			local.orHi |= id.Higher
			local.orLo |= id.Lower
			local.andHi &= id.Higher
			local.andLo &= id.Lower
			local.n++
			if id.Version() != 4 || id.Higher>>12&0xf != 4 {
				w.Fail(c, "version", fmt.Sprintf("goroutine %d draw %d: %s has version %d (accessor %d)", g, i, id, id.Higher>>12&0xf, id.Version()))
			}
			if id.Variant() != 1 || id.Lower>>62 != 2 {
				w.Fail(c, "variant", fmt.Sprintf("goroutine %d draw %d: %s has variant bits %02b (accessor %d)", g, i, id, id.Lower>>62, id.Variant()))
			}
			if _, dup := st.seen[id]; dup {
				w.Fail(c, "duplicate", fmt.Sprintf("goroutine %d draw %d: %s was already generated in this run", g, i, id))
			}
			st.seen[id] = struct{}{}
			st.b.orHi |= id.Higher
			st.b.orLo |= id.Lower
			st.b.andHi &= id.Higher
			st.b.andLo &= id.Lower
			st.b.n++
		}
	}
	// "each of the remaining 122 bits taking both values across draws" holds under every configuration, not only over the sum of
	// all of them: with 512 or more draws a free bit that kept one value is no accident (chance below 2^-500 per bit).
	if local.n >= 512 {
		if never1, never0 := local.stuckBits(); len(never1)+len(never0) > 0 {
			w.Fail(c, "stuck-bit-in-configuration", fmt.Sprintf("%d draws under GOMAXPROCS %d from %d goroutines: never 1: %v; never 0: %v", local.n, c.Procs, c.Goroutines, never1, never0))
		}
	}
}

const (
	fixedHi = uint64(0xf) << 12 // version nibble
	fixedLo = uint64(3) << 62   // variant bits
)

// stuckBits lists the free bit positions (of 122) that never took value 1 or never took value 0.
func (b bits) stuckBits() (never1, never0 []string) {
	for k := 0; k < 64; k++ {
		if fixedHi>>uint(k)&1 == 0 {
			if b.orHi>>uint(k)&1 == 0 {
				never1 = append(never1, fmt.Sprintf("Higher bit %d", k))
			}
			if b.andHi>>uint(k)&1 == 1 {
				never0 = append(never0, fmt.Sprintf("Higher bit %d", k))
			}
		}
		if fixedLo>>uint(k)&1 == 0 {
			if b.orLo>>uint(k)&1 == 0 {
				never1 = append(never1, fmt.Sprintf("Lower bit %d", k))
			}
			if b.andLo>>uint(k)&1 == 1 {
				never0 = append(never0, fmt.Sprintf("Lower bit %d", k))
			}
		}
	}
	return
}

func genConfig(g *vkit.Rng, i int64, perConfig int) Case {
	c := Case{Goroutines: 1 + g.Intn(64), Procs: 1 + g.Intn(16)}
	if i%5 == 4 {
		c.Procs = 1 + g.Intn(64)
	}
	switch i % 6 {
	case 0: // also the very first configuration of the process: the generator's first use comes from several goroutines at once
		c.Goroutines, c.Procs = 2+g.Intn(3), 2+g.Intn(15)
	case 1:
		c.Goroutines = 1
	case 2:
		c.Goroutines, c.Procs = 64, 16
		if i%12 == 2 { // beyond the usual: more runnable goroutines than any wait queue bound, more Ps than cores
			c.Goroutines, c.Procs = 200+g.Intn(400), 17+g.Intn(48)
		}
	case 3:
		c.Procs = 1
	}
	c.Draws = perConfig/c.Goroutines + 1
	for k := 0; k < 1+g.Intn(4); k++ {
		m := g.U64()
		switch g.Intn(4) {
		case 0:
			m = 0
		case 1:
			m = ^uint64(0)
		case 2:
			m &= g.U64() & g.U64()
		}
		c.Yield = append(c.Yield, m)
	}
	return c
}

func TestCheck(t *testing.T) {
	r := vkit.Start("C19")
	defer r.Finish(t)
	st := newState()
	if r.ReplayCold() {
		return
	}
	if r.Replay != "" {
		var c Case
		if err := r.LoadReplay(&c); err != nil {
			t.Fatalf("replay: %v", err)
		}
		for rep := 0; rep < 20; rep++ { // schedules are not reproducible: repeat the configuration
			ok := t.Run(fmt.Sprintf("replay-%d", rep), func(*testing.T) {
				r.Serial(func(w *vkit.W) { execute(c, w, st); w.Eval(true) })
			})
			if !ok {
				r.Serial(func(w *vkit.W) {
					w.Fail(c, "data-race", "the race detector reported a data race while this configuration ran (see the WARNING: DATA RACE block in the output)")
				})
				break
			}
		}
		return
	}
	r.Rule("A case is a concurrency configuration (1-64 goroutines, occasionally 200-600, released by a barrier; draws per goroutine; GOMAXPROCS 1-16, occasionally up to 64; per-goroutine yield masks), executed in its own subtest under the race detector. " +
		"Oracle: every ID has version nibble 4 and variant bits 10 (checked on the raw bits and through the accessors); no ID repeats within the whole run; across the run each of the 122 remaining bit positions takes both values; any race-detector report while a configuration runs fails that configuration. " +
		"Non-trivial: configurations with >= 2 goroutines and GOMAXPROCS >= 2. Distinct by configuration (hash).")
	r.Assume("schedules are sampled, not enumerated; the race detector's happens-before analysis reports an unsynchronised access pair whenever both accesses execute in one run")
	r.Sampled()

	nConf := int64(r.Pick(200, 3000))
	perConfig := r.Pick(8000, 10000)
	r.Phase(fmt.Sprintf("A: %d seeded configurations, >= %d draws each, one subtest per configuration (race attribution)", nConf, perConfig), func() {
		for i := int64(0); i < nConf; i++ {
			c := genConfig(r.Rng("config", i), i, perConfig)
			ok := t.Run(fmt.Sprintf("config-%d", i), func(*testing.T) {
				r.Serial(func(sw *vkit.W) {
					execute(c, sw, st)
					b, _ := json.Marshal(c)
					sw.EvalRandom(vkit.Hash64(string(b)), c.Goroutines >= 2 && c.Procs >= 2)
					sw.ClassN("ids_drawn", int64(c.Goroutines*c.Draws))
					if c.Goroutines >= 2 && c.Procs >= 2 {
						sw.Class("configs_multi_goroutine_multi_proc")
					}
					if sw.WantSample() && i < 6 {
						sw.Sample(c)
					}
				})
			})
			if !ok {
				r.Serial(func(sw *vkit.W) {
					sw.Fail(c, "data-race", "the race detector reported a data race while this configuration ran (see the WARNING: DATA RACE block in the output)")
				})
				break // later configurations would only repeat the report
			}
		}
	})

	r.ColdPhase(coldFirst)

	r.Phase("A1: 6,000,000 consecutive draws from one goroutine: version and variant of every one (no duplicate search)", func() {
		r.Serial(func(w *vkit.W) {
			const n = 6000000
			for i := 0; i < n; i++ {
				id := uu.RandomID()
				if id.Higher>>12&0xf != 4 || id.Lower>>62 != 2 {
					w.Fail(Case{Goroutines: 1, Draws: n, Procs: runtime.GOMAXPROCS(0), Yield: []uint64{0}}, "variant", fmt.Sprintf("draw %d of one goroutine: %v has version nibble %x and variant bits %02b", i, id, id.Higher>>12&0xf, id.Lower>>62))
					break
				}
			}
			w.EvalRandom(vkit.HashU(n, 2), false)
			w.ClassN("ids_drawn", n)
		})
	})

	if r.Thorough() {
		// a long run from one goroutine: 80 million draws, duplicates found exactly by sorting the 128-bit values
		nLong := 80_000_000
		r.Phase(fmt.Sprintf("A2: one goroutine, %d consecutive draws, exact duplicate search by sorting", nLong), func() {
			r.Serial(func(w *vkit.W) {
				ids := make([][2]uint64, nLong)
				for i := range ids {
					id := uu.RandomID()
					ids[i] = [2]uint64{id.Higher, id.Lower}
					if id.Higher>>12&0xf != 4 || id.Lower>>62 != 2 {
						w.Fail(Case{Goroutines: 1, Draws: nLong, Procs: runtime.GOMAXPROCS(0), Yield: []uint64{0}}, "version", fmt.Sprintf("draw %d: %v", i, id))
					}
				}
				slices.SortFunc(ids, func(a, b [2]uint64) int {
					if a[0] != b[0] {
						if a[0] < b[0] {
							return -1
						}
						return 1
					}
					if a[1] < b[1] {
						return -1
					}
					if a[1] > b[1] {
						return 1
					}
					return 0
				})
				dups := 0
				for i := 1; i < len(ids); i++ {
					if ids[i] == ids[i-1] {
						dups++
						if dups == 1 {
							w.Fail(Case{Goroutines: 1, Draws: nLong, Procs: runtime.GOMAXPROCS(0), Yield: []uint64{0}}, "duplicate", fmt.Sprintf("within %d consecutive draws the ID %v occurs more than once", nLong, uu.ID{Higher: ids[i][0], Lower: ids[i][1]}))
						}
					}
				}
				w.EvalRandom(vkit.HashU(uint64(nLong), 1), false)
				w.ClassN("ids_drawn", int64(nLong))
			})
		})
	}

	r.Phase("B: rapid configurations (bit-field invariants with shrinking)", func() {
		r.Rapid(t, "rapid-configs", 0, r.Pick(60, 1500), func(rt *rapid.T, w *vkit.W) vkit.RapidCase {
			c := Case{
				Goroutines: rapid.IntRange(1, 64).Draw(rt, "goroutines"),
				Procs:      rapid.IntRange(1, 16).Draw(rt, "gomaxprocs"),
				Yield:      rapid.SliceOfN(rapid.Uint64(), 1, 4).Draw(rt, "yield"),
			}
			c.Draws = rapid.IntRange(1000, 3000).Draw(rt, "total")/c.Goroutines + 1
			execute(c, w, st)
			b, _ := json.Marshal(c)
			w.ClassN("ids_drawn", int64(c.Goroutines*c.Draws))
			return vkit.RapidCase{Case: c, Hash: vkit.Hash64(string(b)), NT: c.Goroutines >= 2 && c.Procs >= 2}
		})
	})

	r.Serial(func(w *vkit.W) {
		never1, never0 := st.b.stuckBits()
		r.Extra("ids_checked_for_duplicates_and_bit_coverage", st.b.n)
		if st.b.n >= 1000 && (len(never1) > 0 || len(never0) > 0) {
			w.Fail(map[string]any{"draws": st.b.n, "never_one": never1, "never_zero": never0}, "bit-never-varies",
				fmt.Sprintf("over %d draws these free bit positions never took value 1: %v; never took value 0: %v (chance of a false alarm below 122 x 2^-999)", st.b.n, never1, never0))
		}
	})
}
