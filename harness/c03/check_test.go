// C03: SemVer text is accepted exactly per the 2.0.0 grammar and round-trips; Valid <=> round-trip.
package c03

import (
	"encoding/json"
	"errors"
	"fmt"
	"math"
	"strconv"
	"strings"
	"testing"

	"go.lstv.dev/util/sem"
	"pgregory.net/rapid"

	"verifharness/ref"
	"verifharness/vkit"
)

// Case kinds: "text" (judge Text through every parser entry point) and "ver" (Valid <=> round-trip of a Ver value).
type Case struct {
	Kind  string `json:"kind"`
	Text  vkit.B `json:"text,omitempty"`
	Major uint64 `json:"major,omitempty"`
	Minor uint64 `json:"minor,omitempty"`
	Patch uint64 `json:"patch,omitempty"`
	Pre   vkit.B `json:"pre,omitempty"`
	Build vkit.B `json:"build,omitempty"`
	// Limit: sem.MaxInputLength for the case: 0 = package default (1024), -1 = disabled, n > 0 = n.
	Limit int `json:"max_input_length,omitempty"`
	// Hooks: before the case is judged, custom package-level Formatter and Parser functions are installed, used and removed.
	Hooks bool `json:"after_custom_hooks,omitempty"`
}

// pokeWithCustomHooks: the package-level Formatter and Parser are settings; what was produced under one setting must not be
// handed out under the next.
func pokeWithCustomHooks(text string) {
	oldF, oldP := sem.Formatter, sem.Parser
	defer func() { sem.Formatter, sem.Parser = oldF, oldP }()
	sem.Formatter = func(buf []byte, v sem.Ver, f sem.Format) ([]byte, error) {
		return append(buf, fmt.Sprintf("custom<%d,%s>", v.Major, v.Build)...), nil
	}
	sem.Parser = func(input []byte, r sem.Rule) (sem.Ver, error) { return sem.Ver{Major: 666, PreRelease: "hook"}, nil }
	v, _ := sem.DefaultParser(text, 0)
	_, _ = v.String(), v.StringTag()
	_ = fmt.Sprintf("%s %v %t", v, v, v)
	_, _ = v.MarshalText()
	var u sem.Ver
	_ = u.UnmarshalText([]byte(text))
	_, _ = sem.Parse(text)
	_, _ = sem.ParseTag(text)
	_, _ = sem.Compare(text, text)
	// second stage: a Formatter that fails (after writing something), used once, before the defaults come back
	sem.Formatter = func(buf []byte, v sem.Ver, f sem.Format) ([]byte, error) {
		return append(buf, "part"...), errors.New("formatter refused")
	}
	_, _ = v.String(), v.StringTag()
	_ = fmt.Sprintf("%s %t", v, v)
	_, _ = v.MarshalText()
}

func setLimit(l int) func() {
	old := sem.MaxInputLength
	switch {
	case l < 0:
		sem.MaxInputLength = 0
	case l > 0:
		sem.MaxInputLength = l
	}
	return func() { sem.MaxInputLength = old }
}

type verdict struct {
	ok         bool
	ver        sem.Ver
	grammar    bool // the text after an optional v is grammar-valid
	hasV       bool
	overflow   [3]bool
	tooLong    bool
	restricted bool // rejected only because of the v rule of the entry point
}

func oracle(text, form string) verdict {
	var v verdict
	if text == "" {
		return v
	}
	if sem.MaxInputLength != 0 && len(text) > sem.MaxInputLength {
		v.tooLong = true
		return v
	}
	body := text
	if text[0] == 'v' {
		v.hasV = true
		body = text[1:]
	}
	p, ok := ref.ParseSemVer(body)
	if !ok {
		return v
	}
	v.grammar = true
	ma, ok1 := ref.FitsU64(p.Major)
	mi, ok2 := ref.FitsU64(p.Minor)
	pa, ok3 := ref.FitsU64(p.Patch)
	v.overflow = [3]bool{!ok1, !ok2, !ok3}
	if (form == "version" && v.hasV) || (form == "tag" && !v.hasV) {
		v.restricted = true
		return v
	}
	if !ok1 || !ok2 || !ok3 {
		return v
	}
	v.ok = true
	v.ver = sem.Ver{Major: ma, Minor: mi, Patch: pa, PreRelease: p.Pre, Build: p.Build}
	return v
}

func typed(err error) bool {
	switch err.(type) {
	case nil:
		return false
	case *sem.ParseError[string], *sem.ParseError[[]byte]:
		return true
	}
	var a *sem.ParseError[string]
	var b *sem.ParseError[[]byte]
	var c *sem.ParseError[namedS]
	var d *sem.ParseError[namedB]
	return errors.As(err, &a) || errors.As(err, &b) || errors.As(err, &c) || errors.As(err, &d)
}

// sameInstantiation reports whether the ParseError found in err is instantiated with the entry point's input type.
func sameInstantiation(entryName string, err error) bool {
	var a *sem.ParseError[string]
	var b *sem.ParseError[[]byte]
	var c *sem.ParseError[namedS]
	var d *sem.ParseError[namedB]
	switch {
	case strings.Contains(entryName, "[string]"):
		return errors.As(err, &a)
	case strings.Contains(entryName, "[[]byte]"), entryName == "UnmarshalText":
		return errors.As(err, &b)
	case strings.Contains(entryName, "[named string]"):
		return errors.As(err, &c)
	case strings.Contains(entryName, "[named []byte]"):
		return errors.As(err, &d)
	}
	return true
}

type entry struct {
	name, form string
	bytes      bool // the input is handed over in the worker's reused byte buffer
	call       func(text string, w *vkit.W) (sem.Ver, error)
}

type (
	namedS string
	namedB []byte
)

var entries = []entry{
	{"Parse[string]", "any", false, func(s string, _ *vkit.W) (sem.Ver, error) { return sem.Parse(s) }},
	{"Parse[[]byte]", "any", true, func(s string, w *vkit.W) (sem.Ver, error) { return sem.Parse(w.Scratch(s)) }},
	{"ParseVersion[string]", "version", false, func(s string, _ *vkit.W) (sem.Ver, error) { return sem.ParseVersion(s) }},
	{"ParseVersion[[]byte]", "version", true, func(s string, w *vkit.W) (sem.Ver, error) { return sem.ParseVersion(w.Scratch(s)) }},
	{"ParseTag[string]", "tag", false, func(s string, _ *vkit.W) (sem.Ver, error) { return sem.ParseTag(s) }},
	{"ParseTag[[]byte]", "tag", true, func(s string, w *vkit.W) (sem.Ver, error) { return sem.ParseTag(w.Scratch(s)) }},
	{"DefaultParser[string](0)", "any", false, func(s string, _ *vkit.W) (sem.Ver, error) { return sem.DefaultParser(s, 0) }},
	{"DefaultParser[[]byte](0)", "any", true, func(s string, w *vkit.W) (sem.Ver, error) { return sem.DefaultParser(w.Scratch(s), 0) }},
	{"DefaultParser[string](RuleDisableTag)", "version", false, func(s string, _ *vkit.W) (sem.Ver, error) { return sem.DefaultParser(s, sem.RuleDisableTag) }},
	{"DefaultParser[[]byte](RuleDisableTag)", "version", true, func(s string, w *vkit.W) (sem.Ver, error) { return sem.DefaultParser(w.Scratch(s), sem.RuleDisableTag) }},
	{"DefaultParser[string](RuleDisableTag|undefined bits)", "version", false, func(s string, _ *vkit.W) (sem.Ver, error) { return sem.DefaultParser(s, sem.RuleDisableTag|1<<8|1<<1) }},
	{"DefaultParser[[]byte](all bits)", "version", true, func(s string, w *vkit.W) (sem.Ver, error) { return sem.DefaultParser(w.Scratch(s), ^sem.Rule(0)) }},
	{"DefaultParser[string](undefined bits only)", "any", false, func(s string, _ *vkit.W) (sem.Ver, error) { return sem.DefaultParser(s, ^sem.RuleDisableTag) }},
	{"Parse[named string]", "any", false, func(s string, _ *vkit.W) (sem.Ver, error) { return sem.Parse(namedS(s)) }},
	{"ParseTag[named []byte]", "tag", true, func(s string, w *vkit.W) (sem.Ver, error) { return sem.ParseTag(namedB(w.Scratch(s))) }},
	{"DefaultParser[named []byte](RuleDisableTag)", "version", true, func(s string, w *vkit.W) (sem.Ver, error) {
		return sem.DefaultParser(namedB(w.Scratch(s)), sem.RuleDisableTag)
	}},
	{"UnmarshalText", "any", true, func(s string, w *vkit.W) (sem.Ver, error) {
		v := sem.Ver{Major: 7, Minor: 7, Patch: 7, PreRelease: "sentinel", Build: "sentinel"}
		keep := v
		err := v.UnmarshalText(w.Scratch(s))
		if err != nil {
			if v != keep {
				return v, fmt.Errorf("receiver changed on error: %w", errReceiver)
			}
			return sem.Ver{}, err
		}
		return v, nil
	}},
}

var errReceiver = errors.New("receiver changed")

var entriesReversed = func() []entry {
	out := make([]entry, len(entries))
	for i, e := range entries {
		out[len(entries)-1-i] = e
	}
	return out
}()

func judgeText(c Case, w *vkit.W) (accepted bool) {
	text := string(c.Text)
	order := entries
	if w.Flip() { // the order of the entry points alternates
		order = entriesReversed
	}
	for _, e := range order {
		v := oracle(text, e.form)
		got, err := e.call(text, w)
		if e.bytes && err == nil {
			// the caller reuses its buffer: the returned value must not change with it
			before := got
			before.PreRelease, before.Build = strings.Clone(got.PreRelease), strings.Clone(got.Build)
			w.Scratch(strings.Repeat("\xaa", len(text)))
			if got != before {
				w.Fail(c, "value-aliases-input", fmt.Sprintf("%s(%q): after the caller overwrote its buffer the returned value changed from %+v to %+v", e.name, text, before, got))
				got = before
			}
		}
		if errors.Is(err, errReceiver) {
			w.Fail(c, "receiver-changed-on-error", fmt.Sprintf("%s(%q): %v; receiver now %+v", e.name, text, err, got))
			continue
		}
		if v.ok {
			accepted = true
			if err != nil {
				w.Fail(c, "valid-text-rejected", fmt.Sprintf("%s(%q): grammar-valid for this entry point, library error %v", e.name, text, err))
				continue
			}
			if got != v.ver {
				w.Fail(c, "fields-differ", fmt.Sprintf("%s(%q) = %+v, grammar says %+v", e.name, text, got, v.ver))
				continue
			}
			back := got.String()
			if v.hasV {
				back = got.StringTag()
			}
			if back != text {
				w.Fail(c, "format-does-not-reproduce-input", fmt.Sprintf("%s(%q) formats back as %q", e.name, text, back))
			}
			continue
		}
		if err == nil {
			w.Fail(c, "invalid-text-accepted", fmt.Sprintf("%s(%q) = %+v, but the text is not valid for this entry point (grammar=%v v-prefix=%v overflow=%v tooLong=%v)", e.name, text, got, v.grammar, v.hasV, v.overflow, v.tooLong))
			continue
		}
		if got != (sem.Ver{}) {
			w.Fail(c, "nonzero-result-with-error", fmt.Sprintf("%s(%q): error %v with result %+v", e.name, text, err, got))
		}
		if !typed(err) {
			w.Fail(c, "error-not-typed", fmt.Sprintf("%s(%q): %T %v is not a *sem.ParseError", e.name, text, err, err))
		} else if !sameInstantiation(e.name, err) {
			// informational only: the statement says "a typed parse error", not which instantiation of ParseError[T]
			w.Class("info_error_instantiation_differs_from_input_type")
		}
		if errors.Is(err, sem.ErrInputTooLong) != v.tooLong {
			w.Fail(c, "input-too-long-mismatch", fmt.Sprintf("%s(%q): len %d, ErrInputTooLong=%v", e.name, text, len(text), !v.tooLong))
		}
		// documented sentinels when their condition is the only fault
		noOverflow := !v.overflow[0] && !v.overflow[1] && !v.overflow[2]
		switch {
		case v.restricted && v.grammar && noOverflow && e.form == "version":
			if !errors.Is(err, sem.ErrTagFormNotAllowed) {
				w.Fail(c, "sentinel-missing", fmt.Sprintf("%s(%q): a valid tag where tags are not allowed must give ErrTagFormNotAllowed, got %v", e.name, text, err))
			}
		case v.restricted && v.grammar && noOverflow && e.form == "tag":
			if !errors.Is(err, sem.ErrExpectedTagForm) {
				w.Fail(c, "sentinel-missing", fmt.Sprintf("%s(%q): a valid version where a tag is required must give ErrExpectedTagForm, got %v", e.name, text, err))
			}
		case !v.restricted && v.grammar && !noOverflow:
			okS := (v.overflow[0] && errors.Is(err, sem.ErrInvalidMajor)) || (v.overflow[1] && errors.Is(err, sem.ErrInvalidMinor)) || (v.overflow[2] && errors.Is(err, sem.ErrInvalidPatch))
			if !okS {
				w.Fail(c, "sentinel-missing", fmt.Sprintf("%s(%q): overflowing components %v must give the matching ErrInvalidMajor/Minor/Patch, got %v", e.name, text, v.overflow, err))
			}
		}
		if errors.Is(err, sem.ErrTagFormNotAllowed) && !(v.hasV && e.form == "version") {
			w.Fail(c, "sentinel-spurious", fmt.Sprintf("%s(%q): ErrTagFormNotAllowed although the text has no v prefix or tags are allowed", e.name, text))
		}
		if errors.Is(err, sem.ErrExpectedTagForm) && !(!v.hasV && e.form == "tag") {
			w.Fail(c, "sentinel-spurious", fmt.Sprintf("%s(%q): ErrExpectedTagForm although the text has a v prefix or plain versions are allowed", e.name, text))
		}
	}
	return accepted
}

func judgeVer(c Case, w *vkit.W) {
	v := sem.Ver{Major: c.Major, Minor: c.Minor, Patch: c.Patch, PreRelease: string(c.Pre), Build: string(c.Build)}
	verr := v.Valid()
	text := v.String()
	if sem.MaxInputLength != 0 && len(text) > sem.MaxInputLength {
		return // precondition of the statement's link: the text must be parseable at all
	}
	tagFits := sem.MaxInputLength == 0 || len(text)+1 <= sem.MaxInputLength
	back, perr := sem.Parse(text)
	roundTrips := perr == nil && back == v
	if (verr == nil) != roundTrips {
		w.Fail(c, "valid-iff-round-trip", fmt.Sprintf("Ver%+v: Valid() = %v, but Parse(%q) = %+v, %v (round-trips: %v)", v, verr, text, back, perr, roundTrips))
	}
	// the oracle's own opinion of the fields
	wantValid := (v.PreRelease == "" || ref.ValidPreRelease(v.PreRelease)) && (v.Build == "" || ref.ValidBuild(v.Build))
	if (verr == nil) != wantValid {
		w.Fail(c, "valid-disagrees-with-grammar", fmt.Sprintf("Ver%+v: Valid() = %v, grammar says valid=%v", v, verr, wantValid))
	}
	if verr != nil {
		pre := v.PreRelease != "" && !ref.ValidPreRelease(v.PreRelease)
		if pre && !errors.Is(verr, sem.ErrInvalidPreRelease) && !errors.Is(verr, sem.ErrInvalidBuild) {
			w.Fail(c, "valid-error-not-documented", fmt.Sprintf("Ver%+v: Valid() = %v", v, verr))
		}
	}
	// the receiver is a setting too: a variable that already holds this very value (valid or not) reads its own text like any other
	for _, own := range []string{text, v.StringTag()} {
		if own != text && !tagFits {
			continue
		}
		want, werr := sem.Parse(own)
		recv := v
		uerr := recv.UnmarshalText([]byte(own))
		if (uerr == nil) != (werr == nil) || (uerr == nil && recv != want) {
			w.Fail(c, "unmarshal-into-own-value", fmt.Sprintf("Ver%+v.UnmarshalText(%q) = %v (receiver then %+v), but Parse of the same text = %+v, %v", v, own, uerr, recv, want, werr))
		}
	}
	if tag, perr := sem.ParseTag(v.StringTag()); tagFits && (perr == nil && tag == v) != roundTrips {
		w.Fail(c, "valid-iff-round-trip", fmt.Sprintf("Ver%+v: tag form %q parses to %+v, %v but plain form round-trips=%v", v, v.StringTag(), tag, perr, roundTrips))
	}
}

func judge(c Case, w *vkit.W) (accepted bool) {
	defer func() {
		if p := recover(); p != nil {
			w.Fail(c, "panic", vkit.PanicDetail(p))
		}
	}()
	if c.Hooks {
		if c.Kind == "text" {
			pokeWithCustomHooks(string(c.Text))
		} else {
			pokeWithCustomHooks(sem.Ver{Major: c.Major, Minor: c.Minor, Patch: c.Patch, PreRelease: string(c.Pre), Build: string(c.Build)}.String())
		}
	}
	switch c.Kind {
	case "text":
		return judgeText(c, w)
	case "ver":
		judgeVer(c, w)
	default:
		w.Fail(c, "bad-case", "unknown kind")
	}
	return false
}

var alphabet = []byte("019aZ-.+v")

func nearValid(s string) bool {
	return len(s) > 0 && (s[0] == 'v' || s[0] >= '0' && s[0] <= '9') && strings.Count(s, ".") >= 2
}

func TestCheck(t *testing.T) {
	r := vkit.Start("C03")
	defer r.Finish(t)
	if r.ReplayCold() {
		return
	}
	if r.Replay != "" {
		var c Case
		if err := r.LoadReplay(&c); err != nil {
			t.Fatalf("replay: %v", err)
		}
		defer setLimit(c.Limit)()
		r.Serial(func(w *vkit.W) { judge(c, w); w.Eval(true) })
		return
	}
	r.Rule("Text cases go through Parse, ParseVersion, ParseTag, DefaultParser(0), DefaultParser(RuleDisableTag) on string and []byte and Ver.UnmarshalText, judged by a hand-written BNF recogniser + math/big (accept => exact fields and byte-for-byte re-formatting; reject => zero Ver, *sem.ParseError, documented sentinel when its condition is the only fault). " +
		"Ver cases check Valid() == nil <=> Parse(String()) returns an equal value, and Valid against the grammar. " +
		"Non-trivial: texts accepted by at least one entry point, or rejected texts that start with a digit or v and contain >= 2 dots (near-valid); all Ver cases. Distinct by construction (enumeration) or by hash (rapid).")
	r.Regress(func(raw json.RawMessage, w *vkit.W) error {
		var c Case
		if err := json.Unmarshal(raw, &c); err != nil {
			return err
		}
		defer setLimit(c.Limit)()
		judge(c, w)
		w.Eval(true)
		return nil
	})

	r.Phase(fmt.Sprintf("W: %d conventional special texts (null, nil, latest, HEAD, v, ...) x limits through every entry point", len(ref.ConventionalTexts)), func() {
		for _, lim := range []int{0, -1, 5, math.MaxInt, math.MaxInt - 1, 1 << 31, 1 << 32} {
			restore := setLimit(lim)
			r.Serial(func(w *vkit.W) {
				for _, text := range append(append([]string{}, ref.ConventionalTexts...), ref.Wrapped("1.2.3", "v1.2.3-rc.1+b")...) {
					judge(Case{Kind: "text", Text: vkit.B(text), Limit: lim}, w)
					w.EvalRandom(vkit.Hash64("W", text, strconv.Itoa(lim)), true)
				}
			})
			restore()
		}
	})

	r.Phase("W2: every entry point again right after custom package-level Formatter/Parser functions were installed, used and removed", func() {
		r.Serial(func(w *vkit.W) {
			for _, text := range []string{"1.2.3", "v1.2.3", "0.0.0", "v0.0.0-0", "1.2.3-rc.1+build.5", "v10.20.30-alpha.beta+exp.sha.5114f85", "18446744073709551615.0.0", "1.0.0+21AF26D3----117B344092BD", "1.2", "v1.2.3-01", "1.2.3-", "", "x",
				"1.0.0-099999999999999999999", "1.0.0-0018446744073709551616", "1.0.0-a.000000000000000000000000000001", "1.0.0-018446744073709551615", "1.0.0+099999999999999999999", "1.0.0-99999999999999999999"} {
				for i := 0; i < 3; i++ {
					judge(Case{Kind: "text", Text: vkit.B(text), Hooks: true}, w)
					w.EvalRandom(vkit.Hash64("W2", text, strconv.Itoa(i)), true)
				}
			}
			for _, n := range []int{1016, 1017, 1018, 1019, 1020} { // texts exactly at, just below and just above the default limit
				for _, v := range []Case{{Kind: "ver", Major: 1, Minor: 2, Patch: 3, Pre: vkit.B(strings.Repeat("a", n))}, {Kind: "ver", Major: 1, Minor: 2, Patch: 3, Build: vkit.B(strings.Repeat("b", n))}, {Kind: "ver", Major: 1, Minor: 2, Patch: 3, Pre: vkit.B(strings.Repeat("a", n/2)), Build: vkit.B(strings.Repeat("b", n-n/2-1))}} {
					judge(v, w)
					w.EvalRandom(vkit.Hash64("W2l", strconv.Itoa(n), strconv.Itoa(len(v.Pre)), strconv.Itoa(len(v.Build))), true)
				}
			}
			for _, v := range []Case{{Kind: "ver", Major: 1, Pre: "rc.1", Build: "b"}, {Kind: "ver", Major: 1, Pre: "01"}, {Kind: "ver", Patch: 7, Build: "é"}, {Kind: "ver"}} {
				v.Hooks = true
				judge(v, w)
				w.EvalRandom(vkit.Hash64("W2v", string(v.Pre), string(v.Build)), true)
			}
		})
	})

	// Phase W3: a text comes back after N other distinct texts have been parsed (N on a ladder around the powers of two): whatever
	// the library remembers about earlier inputs, the answer for a text depends on that text only.
	r.Phase("W3: a text parsed, then N distinct other texts (N = 1..200000 on a ladder around powers of two), then the same text again", func() {
		r.Serial(func(w *vkit.W) {
			filler := 0
			for li, n := range []int{1, 2, 3, 31, 32, 33, 63, 64, 65, 127, 128, 129, 255, 256, 257, 511, 512, 513, 1023, 1024, 1025, 2047, 2048, 2049, 4096, 8192, 65536, 200000} {
				x := "9.8." + strconv.Itoa(li) + "-rc." + strconv.Itoa(n) + "+b"
				y := "v9.8." + strconv.Itoa(li) + "-rc." + strconv.Itoa(n)
				judge(Case{Kind: "text", Text: vkit.B(x)}, w)
				judge(Case{Kind: "text", Text: vkit.B(y)}, w)
				for k := 0; k < n; k++ {
					filler++
					t := "1." + strconv.Itoa(filler%97) + "." + strconv.Itoa(filler)
					if filler%2 == 0 {
						_, _ = sem.Parse(t)
					} else {
						_, _ = sem.ParseTag([]byte("v" + t))
					}
				}
				judge(Case{Kind: "text", Text: vkit.B(x)}, w)
				judge(Case{Kind: "text", Text: vkit.B(y)}, w)
				w.EvalRandom(vkit.Hash64("W3", x), true)
			}
		})
	})

	L := r.Pick(7, 9)
	r.Phase(fmt.Sprintf("A: every string over {0,1,9,a,Z,-,.,+,v} up to length %d x 17 entry points", L), func() {
		for n := 0; n <= L; n++ {
			total := int64(1)
			for i := 0; i < n; i++ {
				total *= int64(len(alphabet))
			}
			n := n
			r.Parallel(total, 2048, func(w *vkit.W, lo, hi int64) {
				buf := make([]byte, n)
				for i := lo; i < hi; i++ {
					x := i
					for k := n - 1; k >= 0; k-- {
						buf[k] = alphabet[x%int64(len(alphabet))]
						x /= int64(len(alphabet))
					}
					c := Case{Kind: "text", Text: vkit.B(buf)}
					acc := judge(c, w)
					w.Eval(acc || nearValid(string(buf)))
					if acc {
						w.Class("A_accepted_texts")
						if n == L && w.WantSample() && strings.ContainsAny(string(buf), "-+") {
							w.Sample(c)
						}
					}
				}
			})
		}
	})
	r.Exhaustive(fmt.Sprintf("every string over {0,1,9,a,Z,-,.,+,v} of length 0..%d through all 17 parser entry points", L))

	// Phase A2: every one-byte substitution and insertion (all 256 byte values) in every accepted text of the length<=7 universe
	// and in a set of longer accepted texts: characters outside the enumeration alphabet next to valid structure.
	r.Phase("A2: all one-byte substitutions/insertions (256 values) of accepted texts", func() {
		var accepted []string
		var rec func(prefix []byte, depth int)
		rec = func(prefix []byte, depth int) {
			if len(prefix) >= 5 {
				if v := oracle(string(prefix), "any"); v.ok {
					accepted = append(accepted, string(prefix))
				}
			}
			if depth == 0 {
				return
			}
			for _, ch := range alphabet {
				rec(append(prefix, ch), depth-1)
			}
		}
		rec(nil, r.Pick(6, 7))
		accepted = append(accepted, "1.2.3-alpha.1+build.5", "v10.20.30-rc.1", "1.0.0-0a.b-c+d.0", "18446744073709551615.0.0", "v0.0.0+0")
		r.Extra("A2_base_texts", len(accepted))
		r.Parallel(int64(len(accepted)), 4, func(w *vkit.W, lo, hi int64) {
			for i := lo; i < hi; i++ {
				base := accepted[i]
				for pos := 0; pos <= len(base); pos++ {
					for bv := 0; bv < 256; bv++ {
						if pos < len(base) && byte(bv) != base[pos] {
							m := base[:pos] + string([]byte{byte(bv)}) + base[pos+1:]
							judge(Case{Kind: "text", Text: vkit.B(m)}, w)
							w.EvalRandom(vkit.Hash64(m), true)
						}
						m := base[:pos] + string([]byte{byte(bv)}) + base[pos:]
						judge(Case{Kind: "text", Text: vkit.B(m)}, w)
						w.EvalRandom(vkit.Hash64(m), true)
					}
				}
			}
		})
	})

	// Phase A3: runes that case folding or byte truncation could confuse with identifier characters, inserted into accepted texts.
	r.Phase("A3: confusable runes (Unicode folds of ASCII letters, runes whose low byte is an identifier character, full-width forms) inserted into accepted texts", func() {
		bases := []string{"1.2.3-alpha.1+build.5", "v1.0.0-rc.1", "1.0.0+k", "0.0.0-s", "1.0.0-a-b", "v2.0.0-0.3.7+x"}
		runes := ref.ConfusableRunes("0123456789abcdefghijklmnopqrstuvwxyzABCDEFGHIJKLMNOPQRSTUVWXYZ-.+v")
		r.Extra("A3_runes", len(runes))
		r.Parallel(int64(len(runes)), 16, func(w *vkit.W, lo, hi int64) {
			for i := lo; i < hi; i++ {
				for _, base := range bases {
					for pos := 0; pos <= len(base); pos++ {
						m := base[:pos] + string(runes[i]) + base[pos:]
						judge(Case{Kind: "text", Text: vkit.B(m)}, w)
						w.EvalRandom(vkit.Hash64(m), true)
						if pos < len(base) {
							m = base[:pos] + string(runes[i]) + base[pos+1:]
							judge(Case{Kind: "text", Text: vkit.B(m)}, w)
							w.EvalRandom(vkit.Hash64(m), true)
						}
					}
				}
			}
		})
	})

	// Phase A3b: several separators replaced at once by the same byte (every byte value): both core dots, all dots, dash and plus.
	r.Phase("A3b: every subset of two or more separators of an accepted text replaced by one and the same byte (256 values)", func() {
		bases := []string{"1.2.3", "v10.20.30", "1.2.3-a.b+c.d", "v1.0.0-rc.1+b", "0.0.0-0.0+0.0"}
		r.Parallel(256, 8, func(w *vkit.W, lo, hi int64) {
			for v := lo; v < hi; v++ {
				for _, base := range bases {
					var pos []int
					for i := 0; i < len(base); i++ {
						if base[i] == '.' || base[i] == '-' || base[i] == '+' {
							pos = append(pos, i)
						}
					}
					for mask := 3; mask < 1<<uint(len(pos)); mask++ {
						if mask&(mask-1) == 0 {
							continue
						}
						b := []byte(base)
						for k, q := range pos {
							if mask>>uint(k)&1 == 1 {
								b[q] = byte(v)
							}
						}
						judge(Case{Kind: "text", Text: vkit.B(b)}, w)
						w.EvalRandom(vkit.Hash64("A3b", string(b)), true)
					}
				}
			}
		})
	})

	// Phase A4: MaxInputLength is a setting. Long versions (around 1024, 2048 and 4096 bytes) under the default, a raised and a
	// disabled limit; pairs that differ only far behind the default limit must parse to different values.
	for _, lim := range []int{0, -1, 2100, 64} {
		lim := lim
		r.Phase(fmt.Sprintf("A4: long versions around the buffer-size boundaries, MaxInputLength setting %d (0 = default 1024, -1 = disabled)", lim), func() {
			defer setLimit(lim)()
			var texts []string
			ns := []int{50, 57, 58, 59, 63, 64, 65, 127, 128, 129, 255, 256, 257, 511, 512, 513, 1017, 1018, 1019, 1020, 1023, 1024, 1025, 1026, 1100, 2047, 2048, 2049, 2094, 2095, 2096, 4095, 4096, 4097}
			if lim == -1 {
				ns = append(ns, 32767, 32768, 65520, 65535, 65536, 65537, 70000, 131072, 1<<20+1) // beyond what 15, 16 and 17 bits can index
			}
			for _, n := range ns {
				for _, shape := range []int{0, 1, 2, 3} {
					var t string
					switch shape {
					case 0:
						t = "1.0.0-" + strings.Repeat("a", n)
					case 1:
						t = "v1.0.0-" + strings.Repeat("a", n/2) + "+" + strings.Repeat("b", n-n/2)
					case 2:
						t = "1.0.0-" + strings.Repeat("a.", n/2) + "z"
					default:
						t = "1.0.0-" + strings.Repeat("a", n) + "Z" // differs from shape 0 only in its last byte
					}
					texts = append(texts, t, t+" ", t+"+", t+".0")
				}
			}
			r.Parallel(int64(len(texts)), 8, func(w *vkit.W, lo, hi int64) {
				for i := lo; i < hi; i++ {
					c := Case{Kind: "text", Text: vkit.B(texts[i]), Limit: lim}
					acc := judge(c, w)
					w.EvalRandom(vkit.Hash64(texts[i], strconv.Itoa(lim)), true)
					if acc {
						w.Class("A4_accepted_long_texts")
					}
				}
			})
		})
	}

	// Phase A5: very many distinct valid versions in one process (a parser that remembers earlier inputs by a digest would
	// confuse two of them sooner or later).
	nMany := int64(r.Pick(20000000, 200000000))
	r.Phase(fmt.Sprintf("A5: %d distinct valid versions through Parse[string] / ParseTag[[]byte] in one process", nMany), func() {
		r.Parallel(nMany, 8192, func(w *vkit.W, lo, hi int64) {
			buf := make([]byte, 0, 48)
			for i := lo; i < hi; i++ {
				ma, mi, pa := uint64(i%211), uint64(i/211%307), uint64(i/(211*307))
				buf = strconv.AppendUint(buf[:0], ma, 10)
				buf = append(buf, '.')
				buf = strconv.AppendUint(buf, mi, 10)
				buf = append(buf, '.')
				buf = strconv.AppendUint(buf, pa, 10)
				text := string(buf)
				want := sem.Ver{Major: ma, Minor: mi, Patch: pa}
				got, err := sem.Parse(text)
				if err != nil || got != want {
					w.Fail(Case{Kind: "text", Text: vkit.B(text)}, "fields-differ", fmt.Sprintf("Parse(%q) = %+v, %v (after very many other versions were parsed in this process)", text, got, err))
				}
				if i%4 == 0 {
					got, err = sem.ParseTag(w.Scratch("v" + text))
					if err != nil || got != want {
						w.Fail(Case{Kind: "text", Text: vkit.B("v" + text)}, "fields-differ", fmt.Sprintf("ParseTag(%q) = %+v, %v", "v"+text, got, err))
					}
				}
				w.Eval(true)
			}
		})
	})

	r.Phase(fmt.Sprintf("A6: %d cold-start scenarios", len(coldScenarios)), func() {
		r.Serial(func(w *vkit.W) {
			for _, sc := range coldScenarios {
				r.RunCold(w, sc, false)
				w.EvalRandom(vkit.Hash64("cold", sc), true)
			}
		})
	})

	r.Phase("B: rapid grammar-generated versions with long numbers, long identifier lists, length near MaxInputLength, 0-2 edits", func() {
		r.Rapid(t, "rapid-grammar", 0, r.Pick(20000, 1500000), func(rt *rapid.T, w *vkit.W) vkit.RapidCase {
			text := genVersionText(rt)
			c := Case{Kind: "text", Text: vkit.B(text)}
			acc := judge(c, w)
			if acc {
				w.Class("B_accepted")
			}
			if len(text) > sem.MaxInputLength {
				w.Class("B_over_limit")
			}
			return vkit.RapidCase{Case: c, Hash: vkit.Hash64(text), NT: acc || nearValid(text)}
		})
	})

	r.Phase("C0: Ver values with numeric identifiers at and beyond 64 bits, with and without leading zeros, in either field and position", func() {
		r.Serial(func(w *vkit.W) {
			nums := []string{"0", "00", "01", "18446744073709551615", "18446744073709551616", "018446744073709551615", "018446744073709551616", "099999999999999999999", "99999999999999999999999", "000000000000000000000000", "9223372036854775808", "09223372036854775808"}
			for _, n := range nums {
				for _, shape := range []string{"%s", "rc.%s", "%s.rc", "a.%s.b", "%s.%s"} {
					f := strings.ReplaceAll(shape, "%s", n)
					for _, c := range []Case{{Kind: "ver", Major: 1, Pre: vkit.B(f)}, {Kind: "ver", Major: 1, Build: vkit.B(f)}, {Kind: "ver", Pre: vkit.B(f), Build: vkit.B(f)}} {
						judge(c, w)
						w.EvalRandom(vkit.Hash64("c0", string(c.Pre), string(c.Build)), true)
					}
				}
			}
		})
	})

	r.Phase("C: rapid Ver values (valid, one edit from valid, arbitrary bytes): Valid <=> round-trip", func() {
		r.Rapid(t, "rapid-ver", 1, r.Pick(20000, 1000000), func(rt *rapid.T, w *vkit.W) vkit.RapidCase {
			field := func(label string) string {
				switch rapid.IntRange(0, 4).Draw(rt, label+"Kind") {
				case 0:
					return ""
				case 1, 2:
					ids := rapid.SliceOfN(rapid.OneOf(rapid.StringMatching(`[0-9a-zA-Z-]{1,5}`), rapid.StringMatching(`0[0-9]{0,3}`), rapid.StringMatching(`[1-9][0-9]{0,20}`), rapid.StringMatching(`0[0-9]{18,26}`), rapid.SampledFrom([]string{"018446744073709551615", "018446744073709551616", "099999999999999999999", "000000000000000000000000", "18446744073709551616", "99999999999999999999999"})), 1, 4).Draw(rt, label+"Ids")
					s := strings.Join(ids, ".")
					if rapid.IntRange(0, 3).Draw(rt, label+"Edit") == 0 && len(s) > 0 {
						pos := rapid.IntRange(0, len(s)-1).Draw(rt, label+"Pos")
						s = s[:pos] + string(rapid.SampledFrom([]byte(".+-_ 0\n\x00\xc3")).Draw(rt, label+"Sym")) + s[pos+1:]
					}
					return s
				case 3:
					return rapid.SampledFrom([]string{"a+b", "a-b", "+", "-", ".", "a.", ".a", "a..b", "01", "0", "00", "1.01", "a b", "é", "a\n", "\n", "v", "+b", "-+-"}).Draw(rt, label+"Odd")
				default:
					return string(rapid.SliceOfN(rapid.Byte(), 0, 6).Draw(rt, label+"Bytes"))
				}
			}
			comp := rapid.OneOf(rapid.Uint64(), rapid.SampledFrom([]uint64{0, 1, 10, ^uint64(0)}))
			c := Case{Kind: "ver", Major: comp.Draw(rt, "major"), Minor: comp.Draw(rt, "minor"), Patch: comp.Draw(rt, "patch"), Pre: vkit.B(field("pre")), Build: vkit.B(field("build"))}
			judge(c, w)
			if (c.Pre == "" || ref.ValidPreRelease(string(c.Pre))) && (c.Build == "" || ref.ValidBuild(string(c.Build))) {
				w.Class("C_valid_values")
			} else {
				w.Class("C_invalid_values")
			}
			return vkit.RapidCase{Case: c, Hash: vkit.Hash64(string(c.Pre), string(c.Build), fmt.Sprint(c.Major, c.Minor, c.Patch)), NT: true}
		})
	})
}

// genVersionText builds a grammar-shaped text: optional v, three numbers of 1-25 digits (biased to 2^64-1, 2^64, leading
// zeros), pre-release and build identifier lists, total length sometimes steered to MaxInputLength +-2, then 0-2 edits.
func genVersionText(rt *rapid.T) string {
	num := rapid.OneOf(
		rapid.StringMatching(`[1-9][0-9]{0,24}`),
		rapid.SampledFrom([]string{"2097152", "2097151", "4294967296", "4294967295", "9223372036854775807", "0", "1", "18446744073709551615", "18446744073709551616", "18446744073709551614", "99999999999999999999", "100000000000000000000", "00", "01", "9223372036854775808"}),
	)
	ident := rapid.OneOf(rapid.StringMatching(`[0-9a-zA-Z-]{1,8}`), rapid.StringMatching(`[1-9][0-9]{0,24}`), rapid.SampledFrom([]string{"0", "00", "01", "-", "--", "a", "alpha", "rc", "001a"}))
	var b strings.Builder
	if rapid.IntRange(0, 2).Draw(rt, "v") == 0 {
		b.WriteByte('v')
	}
	b.WriteString(num.Draw(rt, "major"))
	b.WriteByte('.')
	b.WriteString(num.Draw(rt, "minor"))
	b.WriteByte('.')
	b.WriteString(num.Draw(rt, "patch"))
	if rapid.Bool().Draw(rt, "hasPre") {
		b.WriteByte('-')
		b.WriteString(strings.Join(rapid.SliceOfN(ident, 1, 40).Draw(rt, "pre"), "."))
	}
	if rapid.Bool().Draw(rt, "hasBuild") {
		b.WriteByte('+')
		b.WriteString(strings.Join(rapid.SliceOfN(ident, 1, 40).Draw(rt, "build"), "."))
	}
	s := b.String()
	if rapid.IntRange(0, 5).Draw(rt, "steerLength") == 0 {
		target := sem.MaxInputLength + rapid.IntRange(-2, 2).Draw(rt, "delta")
		if len(s) < target {
			sep := "-"
			if strings.ContainsAny(s, "-+") {
				sep = "."
			}
			pad := target - len(s) - 1
			if pad > 0 {
				s += sep + strings.Repeat("a", pad)
			}
		}
	}
	edits := rapid.IntRange(0, 2).Draw(rt, "edits")
	for e := 0; e < edits && len(s) > 0; e++ {
		pos := rapid.IntRange(0, len(s)-1).Draw(rt, "pos")
		switch rapid.IntRange(0, 4).Draw(rt, "editKind") {
		case 0:
			s = s[:pos] + string(rapid.SampledFrom(alphabet).Draw(rt, "sym")) + s[pos+1:]
		case 1:
			s = s[:pos] + s[pos+1:]
		case 2:
			s = s[:pos] + string(rapid.SampledFrom(alphabet).Draw(rt, "ins")) + s[pos:]
		case 3:
			s = s[:pos] + string([]byte{rapid.Byte().Draw(rt, "byte")}) + s[pos+1:]
		default:
			s = s[:pos] + rapid.SampledFrom([]string{"é", "\n", " ", "Ⅴ", "０"}).Draw(rt, "rune") + s[pos:]
		}
	}
	return s
}
