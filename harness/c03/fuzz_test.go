package c03

import (
	"testing"

	"verifharness/vkit"
)

// FuzzSemText: differential fuzzing of all eleven parser entry points against the BNF recogniser (thorough tier).
func FuzzSemText(f *testing.F) {
	for _, s := range []string{"1.2.3", "v1.2.3", "0.0.0", "1.0.0-alpha.1", "1.0.0-rc.1+build.5", "18446744073709551615.0.0", "18446744073709551616.0.0", "v2.0.0+001", "1.0.0-a01", "1.0.0-0.3.7", "1.0.0-x-y-z.--", "01.0.0", "1.0.0-01", "1.0.0+", "1.0", "vv1.0.0", "1.0.0-é"} {
		f.Add([]byte(s))
	}
	f.Fuzz(func(t *testing.T, in []byte) {
		if len(in) > 4096 {
			return
		}
		w := vkit.FuzzW("C03")
		c := Case{Kind: "text", Text: vkit.B(in)}
		judge(c, w)
		vkit.FuzzReport(t, "C03", w, c)
	})
}

// FuzzSemVer: Valid <=> round-trip on arbitrary field strings.
func FuzzSemVer(f *testing.F) {
	f.Add(uint64(1), uint64(2), uint64(3), []byte("alpha.1"), []byte("001"))
	f.Add(uint64(0), uint64(0), uint64(0), []byte(""), []byte(""))
	f.Add(^uint64(0), uint64(0), uint64(1), []byte("a+b"), []byte("-"))
	f.Add(uint64(1), uint64(0), uint64(0), []byte("01"), []byte("a..b"))
	f.Fuzz(func(t *testing.T, ma, mi, pa uint64, pre, build []byte) {
		if len(pre)+len(build) > 900 {
			return
		}
		w := vkit.FuzzW("C03")
		c := Case{Kind: "ver", Major: ma, Minor: mi, Patch: pa, Pre: vkit.B(pre), Build: vkit.B(build)}
		judge(c, w)
		vkit.FuzzReport(t, "C03", w, c)
	})
}
