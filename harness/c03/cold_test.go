package c03

import (
	"strconv"
	"strings"
	"testing"

	"go.lstv.dev/util/sem"

	"verifharness/vkit"
)

var coldScenarios = []string{"valid build only", "valid pre only", "parse tag", "parse version bytes", "default parser rule 1", "unmarshal text invalid", "compare pre-release", "format only", "first parses under MaxInputLength 3", "first parses under MaxInputLength 5", "first parses under MaxInputLength 13", "first parses under MaxInputLength 0"}

func coldFirst(scenario string) {
	if strings.HasPrefix(scenario, "first parses under MaxInputLength ") {
		// the limit is a setting: the process starts parsing under another one, which is then put back
		lim, _ := strconv.Atoi(strings.TrimPrefix(scenario, "first parses under MaxInputLength "))
		old := sem.MaxInputLength
		sem.MaxInputLength = lim
		_, _ = sem.Parse("v1.2.3-rc.1+b")
		_, _ = sem.ParseVersion([]byte("1.2.3"))
		var v sem.Ver
		_ = v.UnmarshalText([]byte("1.0.0-alpha.1"))
		sem.MaxInputLength = old
		return
	}
	switch scenario {
	case "valid build only":
		_ = sem.Ver{Major: 1, Build: "001"}.Valid()
	case "valid pre only":
		_ = sem.Ver{Major: 1, PreRelease: "rc.1"}.Valid()
	case "parse tag":
		_, _ = sem.ParseTag("v1.2.3-rc.1+b")
	case "parse version bytes":
		_, _ = sem.ParseVersion([]byte("18446744073709551616.0.0"))
	case "default parser rule 1":
		_, _ = sem.DefaultParser("v1.2.3", sem.RuleDisableTag)
	case "unmarshal text invalid":
		var v sem.Ver
		_ = v.UnmarshalText([]byte("1.2"))
	case "compare pre-release":
		_ = sem.DefaultComparePreRelease("a.1", "a.01")
	case "format only":
		_ = sem.Ver{Major: 1, PreRelease: "x"}.StringTag()
	default:
		panic("unknown cold scenario " + scenario)
	}
}

func TestColdStart(t *testing.T) {
	scenario := vkit.ColdScenario()
	if scenario == "" {
		t.Skip("not a cold-start child")
	}
	r := vkit.Start("C03")
	w := r.NewW()
	w.Guard(map[string]string{"first_call": scenario}, func() { coldFirst(scenario) })
	for _, tx := range []string{"v1.2.3-rc.1+b", "1.2", "1.2.3", "v1.2.3", "1.0.0-alpha.1+build.5", "v2.0.0+001", "1.0.0-01", "1.0.0+", "01.0.0", "18446744073709551615.0.0", "18446744073709551616.0.0", "", "v", "1.0.0-a_b", "1.0.0+a_b"} {
		judge(Case{Kind: "text", Text: vkit.B(tx)}, w)
	}
	for _, v := range []Case{{Kind: "ver", Major: 1, Build: "001"}, {Kind: "ver", Major: 1, Pre: "01"}, {Kind: "ver", Pre: "a.b", Build: "c+d"}, {Kind: "ver", Major: 3, Pre: "rc.1", Build: "x-y"}} {
		judge(v, w)
	}
	vkit.ColdReport(t, w)
}
