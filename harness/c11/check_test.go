// C11: the date binary encoding is stable, strict and lossless.
package c11

import (
	"bytes"
	"encoding/json"
	"errors"
	"fmt"
	"strconv"
	"testing"

	"go.lstv.dev/util/date"
	"pgregory.net/rapid"

	"verifharness/ref"
	"verifharness/vkit"
)

// Case is either a date to marshal and restore (Kind "date") or raw bytes to unmarshal (Kind "bytes").
type Case struct {
	Kind string `json:"kind"`
	Y    int64  `json:"y,omitempty"`
	M    int    `json:"m,omitempty"`
	D    int    `json:"d,omitempty"`
	Data vkit.B `json:"data,omitempty"`
	// Watch: the case runs while a package-level Formatter is installed that records every date the library hands to it
	// (and then formats it like the default one); the error of a rejected body is turned into text meanwhile.
	Watch bool `json:"recording_formatter,omitempty"`
}

var sentinel = date.New(1234, 5, 6)

func encode(y int64, m, d int) []byte {
	u := uint32(int32(y))
	return []byte{1, byte(u >> 24), byte(u >> 16), byte(u >> 8), byte(u), byte(m), byte(d)}
}

func judge(c Case, w *vkit.W) {
	defer func() {
		if p := recover(); p != nil {
			w.Fail(c, "panic", vkit.PanicDetail(p))
		}
	}()
	if c.Watch {
		old := date.Formatter
		var seen []date.Date
		date.Formatter = func(buf []byte, d date.Date, f date.Format) ([]byte, error) {
			seen = append(seen, d)
			return date.DefaultFormatter(buf, d, f)
		}
		defer func() {
			date.Formatter = old
			for _, d := range seen {
				if y, m, dd := d.Date(); !ref.ValidYMD(int64(y), int(m), dd) {
					w.Fail(c, "non-date-handed-to-formatter", fmt.Sprintf("while %v was unmarshalled (and its error printed) the package-level Formatter was handed a value with Date() = %d, %d, %d, which is not a calendar date", []byte(c.Data), y, int(m), dd))
					break
				}
			}
		}()
		var probe date.Date
		if err := probe.UnmarshalBinary([]byte(c.Data)); err != nil {
			_ = err.Error()
			_ = fmt.Sprintf("%v %s %+v", err, err, errors.Unwrap(err))
		}
	}
	switch c.Kind {
	case "date":
		// the date value is built without the parser: New goes through time.Date, which is exact for existing days
		dt := date.New(int(c.Y), date.Month(c.M), c.D)
		if gy, gm, gd := dt.Date(); int64(gy) != c.Y || int(gm) != c.M || gd != c.D {
			w.Fail(c, "constructor", fmt.Sprintf("New(%d,%d,%d).Date() = %d-%d-%d", c.Y, c.M, c.D, gy, int(gm), gd))
			return
		}
		want := encode(c.Y, c.M, c.D)
		b, err := dt.MarshalBinary()
		if err != nil {
			w.Fail(c, "marshal-error", fmt.Sprintf("MarshalBinary(%d-%d-%d) error %v", c.Y, c.M, c.D, err))
		}
		if !bytes.Equal(b, want) {
			w.Fail(c, "layout", fmt.Sprintf("MarshalBinary(%d-%d-%d) = %v, want %v (version 1, big-endian int32 year, month, day)", c.Y, c.M, c.D, b, want))
		}
		// the result belongs to the caller: scribbling over it must not influence later calls
		for i := range b {
			b[i] ^= 0xFF
		}
		b2, err := dt.MarshalBinary()
		if err != nil || !bytes.Equal(b2, want) {
			w.Fail(c, "marshal-result-shared", fmt.Sprintf("MarshalBinary(%d-%d-%d) after the caller overwrote an earlier result = %v, %v; want %v", c.Y, c.M, c.D, b2, err, want))
		} else {
			// kept as returned until the next date has been marshalled; its storage (with any spare capacity) is then reused by the caller
			w.RetainBytes(c, "MarshalBinary", b2, string(want))
		}
		back := sentinel
		if err := back.UnmarshalBinary(want); err != nil {
			w.Fail(c, "valid-body-rejected", fmt.Sprintf("UnmarshalBinary(%v) (= %d-%d-%d) error %v", want, c.Y, c.M, c.D, err))
		} else if !back.Equal(dt) || !dt.Equal(back) {
			gy, gm, gd := back.Date()
			w.Fail(c, "round-trip-differs", fmt.Sprintf("UnmarshalBinary(%v) = %d-%d-%d, want %d-%d-%d", want, gy, int(gm), gd, c.Y, c.M, c.D))
		}
	case "bytes":
		// the input is a window of a larger caller buffer: neither the window nor the bytes behind it may be written
		data := w.Scratch(string(c.Data))
		snapshot := append([]byte{}, data...)
		// what the receiver held before is not part of the input: the outcome must be the same for a receiver that already holds
		// the zero date, an unrelated date, the very date the bytes name, or the same month and day in another year
		for _, prior := range receivers(snapshot) {
			if prior.Equal(sentinel) {
				continue
			}
			alt, ref0 := prior, sentinel
			errAlt, errRef := alt.UnmarshalBinary(data), ref0.UnmarshalBinary(data)
			if (errAlt == nil) != (errRef == nil) || (errAlt != nil && errAlt.Error() != errRef.Error()) {
				w.Fail(c, "outcome-depends-on-receiver", fmt.Sprintf("UnmarshalBinary(%v) into a receiver holding %v: %v; into a receiver holding %v: %v", snapshot, prior, errAlt, sentinel, errRef))
			} else if errAlt == nil && !alt.Equal(ref0) {
				w.Fail(c, "outcome-depends-on-receiver", fmt.Sprintf("UnmarshalBinary(%v) gives %v in a receiver that held %v and %v in one that held %v", snapshot, alt, prior, ref0, sentinel))
			} else if errAlt != nil && !alt.Equal(prior) {
				w.Fail(c, "receiver-changed-on-error", fmt.Sprintf("UnmarshalBinary(%v): error %v but the receiver changed from %v to %v", snapshot, errAlt, prior, alt))
			}
		}
		got := sentinel
		err := got.UnmarshalBinary(data)
		if err != nil {
			// the error belongs to the caller as well: it is read again after the input buffer has been reused for the next case
			describe := func() string {
				return fmt.Sprintf("%s | length=%v version=%v date=%v", err.Error(), errors.Is(err, date.ErrInvalidLength), errors.Is(err, date.ErrUnsupportedVersion), errors.Is(err, date.ErrInvalidDate))
			}
			w.RetainFunc(c, "UnmarshalBinary error", describe, describe())
		}
		if !bytes.Equal(data, snapshot) {
			w.Fail(c, "input-modified", fmt.Sprintf("UnmarshalBinary changed its input %v -> %v", snapshot, data))
		}
		if tail := data[len(data) : len(data)+8]; !bytes.Equal(tail, []byte{0xEE, 0xEE, 0xEE, 0xEE, 0xEE, 0xEE, 0xEE, 0xEE}) {
			w.Fail(c, "wrote-behind-input", fmt.Sprintf("UnmarshalBinary(%v) wrote behind the slice it was given (the caller's buffer continues there): %v", snapshot, tail))
			w.Scratch("")
		}
		wantLen := len(data) == 7
		wantVer := len(data) > 0 && data[0] == 1
		if !wantLen || !wantVer {
			if err == nil {
				w.Fail(c, "malformed-accepted", fmt.Sprintf("UnmarshalBinary(%v) (len %d) returned no error; value %v", data, len(data), got))
				return
			}
			isLen, isVer := errors.Is(err, date.ErrInvalidLength), errors.Is(err, date.ErrUnsupportedVersion)
			okErr := (!wantLen && isLen) || (len(data) > 0 && !wantVer && isVer)
			if !okErr {
				w.Fail(c, "wrong-error", fmt.Sprintf("UnmarshalBinary(%v) (len %d): error %v is not the documented one (ErrInvalidLength for a wrong length, ErrUnsupportedVersion for a wrong version)", data, len(data), err))
			}
			if !got.Equal(sentinel) {
				w.Fail(c, "receiver-changed-on-error", fmt.Sprintf("UnmarshalBinary(%v): error %v but receiver became %v", data, err, got))
			}
			return
		}
		y := int64(int32(uint32(data[1])<<24 | uint32(data[2])<<16 | uint32(data[3])<<8 | uint32(data[4])))
		m, d := int(data[5]), int(data[6])
		real := ref.ValidYMD(y, m, d)
		if err == nil {
			gy, gm, gd := got.Date()
			if !real {
				w.Fail(c, "non-date-decoded", fmt.Sprintf("UnmarshalBinary(%v): wire fields %d-%d-%d are not a calendar date, yet no error; value prints %q (Date() = %d-%d-%d)", data, y, m, d, got.String(), gy, int(gm), gd))
				return
			}
			if int64(gy) != y || int(gm) != m || gd != d {
				w.Fail(c, "round-trip-differs", fmt.Sprintf("UnmarshalBinary(%v) = %d-%d-%d, wire fields are %d-%d-%d", data, gy, int(gm), gd, y, m, d))
			}
			if !ref.ValidYMD(int64(gy), int(gm), gd) {
				w.Fail(c, "non-date-decoded", fmt.Sprintf("UnmarshalBinary(%v) yields %d-%d-%d, not a calendar date", data, gy, int(gm), gd))
			}
			return
		}
		if real {
			w.Fail(c, "valid-body-rejected", fmt.Sprintf("UnmarshalBinary(%v) (= %d-%d-%d, a real date) error %v", data, y, m, d, err))
		}
		if errors.Is(err, date.ErrInvalidLength) || errors.Is(err, date.ErrUnsupportedVersion) {
			w.Fail(c, "wrong-error", fmt.Sprintf("UnmarshalBinary(%v): length and version are right, error %v claims otherwise", data, err))
		}
		if !got.Equal(sentinel) {
			w.Fail(c, "receiver-changed-on-error", fmt.Sprintf("UnmarshalBinary(%v): error %v but receiver became %v", data, err, got))
		}
	default:
		w.Fail(c, "bad-case", "unknown kind "+c.Kind)
	}
}

// receivers returns prior receiver values related to the bytes about to be decoded.
func receivers(data []byte) []date.Date {
	out := []date.Date{{}}
	if len(data) < 7 {
		return out
	}
	y := int64(int32(uint32(data[1])<<24 | uint32(data[2])<<16 | uint32(data[3])<<8 | uint32(data[4])))
	m, d := int(data[5]), int(data[6])
	for _, yy := range []int64{y, 2000, y + 1, y - 1, y / 4 * 4} {
		if yy >= -999999999 && yy <= 999999999 && ref.ValidYMD(yy, m, d) {
			out = append(out, date.New(int(yy), date.Month(m), d))
		}
	}
	if m >= 1 && m <= 12 {
		out = append(out, date.New(int(y%10000), date.Month(m), 1))
	}
	return out
}

func TestCheck(t *testing.T) {
	r := vkit.Start("C11")
	defer r.Finish(t)
	if r.ReplayCold() {
		return
	}
	if r.Replay != "" {
		var c Case
		if err := r.LoadReplay(&c); err != nil {
			t.Fatalf("replay: %v", err)
		}
		r.Serial(func(w *vkit.W) { judge(c, w); w.Eval(true) })
		return
	}
	r.Rule("Cases are dates (marshal, compare with an independent encoder, unmarshal, compare) or raw byte strings (unmarshal, judged by length/version/calendar validity of the wire fields). " +
		"Non-trivial: dates other than the two the unit tests use; byte strings with correct length and version, or off by exactly one property. Distinct by construction (sweeps) or by hash (random).")
	r.Regress(func(raw json.RawMessage, w *vkit.W) error {
		var c Case
		if err := json.Unmarshal(raw, &c); err != nil {
			return err
		}
		judge(c, w)
		w.Eval(true)
		return nil
	})

	lo, hi := ref.DaysFromCivil(-400, 1, 1), ref.DaysFromCivil(9999, 12, 31)
	r.Phase("A: every date of years -400..9999", func() {
		r.Parallel(hi-lo+1, 8192, func(w *vkit.W, a, b int64) {
			for i := a; i < b; i++ {
				y, m, d := ref.CivilFromDays(lo + i)
				c := Case{Kind: "date", Y: y, M: m, D: d}
				judge(c, w)
				w.Eval(true)
				if m == 2 && d == 29 && y%400 == 0 && w.WantSample() {
					w.Sample(c)
				}
			}
		})
	})
	r.Exhaustive("round-trip and byte layout of every date of years -400..9999")

	r.Phase("A2: for every year -400..9999: every month x day bytes {0,1,28,29,30,31,32} and months {0,13} (calendar validity at every year's month ends)", func() {
		r.Parallel(10400, 64, func(w *vkit.W, a, b int64) {
			for i := a; i < b; i++ {
				y := i - 400
				for m := 0; m <= 13; m++ {
					for _, d := range []int{0, 1, 28, 29, 30, 31, 32} {
						judge(Case{Kind: "bytes", Data: vkit.B(encode(y, m, d))}, w)
						w.Eval(true)
					}
				}
			}
		})
	})
	r.Exhaustive("UnmarshalBinary on month-end / out-of-range day bytes for every year -400..9999")

	years := []int64{2100, 1700, 1800, 2200, 2300, 2400, 100, 200, 300, 400, -100, -300, 2022, 2024, 2000, 1900, 0, 1, -1, -4, -100, -400, 9999, 2147483647, -2147483648, 999999999, -999999999, 65536, 16777216, -16777217}
	{
		g := r.Rng("years", 0)
		for len(years) < r.Pick(100, 1000) {
			years = append(years, int64(int32(g.U64())))
		}
	}
	r.Phase(fmt.Sprintf("B: all 65,536 (month byte, day byte) pairs for %d years", len(years)), func() {
		r.Parallel(int64(len(years))*256, 8, func(w *vkit.W, a, b int64) {
			for i := a; i < b; i++ {
				y := years[i/256]
				m := int(i % 256)
				for d := 0; d < 256; d++ {
					c := Case{Kind: "bytes", Data: vkit.B(encode(y, m, d))}
					judge(c, w)
					w.Eval(true)
					if m == 13 && d == 32 && w.WantSample() {
						w.Sample(c)
					}
				}
			}
		})
	})
	r.Exhaustive(fmt.Sprintf("UnmarshalBinary on all 65,536 month/day byte pairs for %d years (incl. int32 extremes)", len(years)))

	r.Phase("C: all 256 version bytes, all lengths 0..16, on valid and invalid bodies", func() {
		r.Serial(func(w *vkit.W) {
			bodies := [][]byte{encode(2022, 8, 7), encode(-5, 2, 28), encode(2022, 13, 32), encode(2021, 2, 29)}
			for _, body := range bodies {
				for v := 0; v < 256; v++ {
					b := append([]byte{}, body...)
					b[0] = byte(v)
					judge(Case{Kind: "bytes", Data: vkit.B(b)}, w)
					w.Eval(true)
				}
				for n := 0; n <= 16; n++ {
					for _, fill := range []byte{0, 1, 7, 0xff} {
						b := make([]byte, n)
						for i := range b {
							if i < len(body) {
								b[i] = body[i]
							} else {
								b[i] = fill
							}
						}
						c := Case{Kind: "bytes", Data: vkit.B(b)}
						judge(c, w)
						w.EvalRandom(vkit.Hash64(string(b)), true)
						b2 := append([]byte{}, b...)
						if len(b2) > 0 {
							b2[0] = 2 // wrong version and (mostly) wrong length at once
							judge(Case{Kind: "bytes", Data: vkit.B(b2)}, w)
							w.EvalRandom(vkit.Hash64(string(b2)), true)
						}
					}
				}
			}
			judge(Case{Kind: "bytes", Data: ""}, w)
			w.Eval(true)
			// texts that other entry points of the package understand are not binary encodings
			for _, tx := range []string{"20020807", "2002-08-07", "0001-01-01", "1234567", "2002087", "1-01-01", "12345-01-01", "\"2002-08-07\"", "2002-8-7", "20020807\n", "\x012002-08-07", "\x0120020807", "\x01002002", "1\x00\x00\x07\xe6\x08\x07"} {
				judge(Case{Kind: "bytes", Data: vkit.B(tx)}, w)
				w.EvalRandom(vkit.Hash64("text", tx), true)
			}
		})
	})

	r.Phase("C2: all lengths 0..1200 and lengths 7 + k*256, 7 + k*65536 with a valid first record (version 1, real date)", func() {
		r.Serial(func(w *vkit.W) {
			body := encode(2022, 8, 7)
			lens := []int{}
			for n := 0; n <= 1200; n++ {
				lens = append(lens, n)
			}
			for k := 1; k <= 300; k++ {
				lens = append(lens, 7+k*256)
			}
			lens = append(lens, 7+65536, 7+2*65536, 7+1<<24, 65535, 65536, 65543)
			for _, n := range lens {
				for _, fill := range []byte{0, 1, 7} {
					b := bytes.Repeat([]byte{fill}, n)
					copy(b, body)
					judge(Case{Kind: "bytes", Data: vkit.B(b)}, w)
					w.EvalRandom(vkit.HashU(uint64(n), uint64(fill), 77), true)
				}
			}
		})
	})

	// Phase C3: consecutive decodes of years that agree in their low 8/16/24/28/... bits (a memo or table keyed by a
	// truncated year would confuse them): 29 February of year y and of y +- 2^k, in both orders.
	r.Phase("C3: alternating decodes of 29 February for years y and y +- 2^k (k = 2..30)", func() {
		r.Serial(func(w *vkit.W) {
			for _, y := range []int64{1900, 2000, 2023, 2024, 2100, -100, 0, 4, 268437356, 100, 1} {
				for k := uint(2); k <= 30; k++ {
					for _, sign := range []int64{1, -1} {
						z := y + sign*(int64(1)<<k)
						if z > 2147483647 || z < -2147483648 {
							continue
						}
						for _, seq := range [][]int64{{y, z, y, z}, {z, y, z, y}, {z, z, y}, {y, y, z}} {
							for _, yy := range seq {
								for _, d := range []int{28, 29, 30} {
									judge(Case{Kind: "bytes", Data: vkit.B(encode(yy, 2, d))}, w)
									w.EvalRandom(vkit.HashU(uint64(yy), uint64(d), uint64(k), uint64(y)), true)
								}
							}
						}
					}
				}
			}
		})
	})

	nRand := int64(r.Pick(3000000, 40000000))
	// Phase C4: years on a ladder: +-(2^k - 1, 2^k, 2^k + 1) for k = 0..29 and +-999,999,999: every month end, the 29th-31st of every
	// month and the first of the month, as bytes (validity) and as dates (round trip).
	r.Phase("C4: years +-(2^k - 1, 2^k, 2^k + 1), k = 0..29, and +-999,999,999: days 1, 28-32 of months 0-13 as bytes; every real one also as a date", func() {
		var ys []int64
		for k := uint(0); k < 30; k++ {
			for _, dlt := range []int64{-1, 0, 1} {
				ys = append(ys, 1<<k+dlt, -(1<<k + dlt))
			}
		}
		ys = append(ys, 999999999, -999999999, 999999998, -999999998)
		for _, y := range append([]int64{}, ys...) { // the century years next to every ladder year (leap only every fourth of them)
			c := y / 100 * 100
			for _, yy := range []int64{c, c + 100, c - 100, c + 200} {
				if yy >= -999999999 && yy <= 999999999 {
					ys = append(ys, yy)
				}
			}
		}
		r.Parallel(int64(len(ys)), 4, func(w *vkit.W, lo, hi int64) {
			for i := lo; i < hi; i++ {
				y := ys[i]
				for m := 0; m <= 13; m++ {
					for _, d := range []int{0, 1, 15, 28, 29, 30, 31, 32} {
						judge(Case{Kind: "bytes", Data: vkit.B(encode(y, m, d))}, w)
						w.EvalRandom(vkit.HashU(uint64(y), uint64(m*64+d), 41), true)
						if ref.ValidYMD(y, m, d) {
							judge(Case{Kind: "date", Y: y, M: m, D: d}, w)
							w.EvalRandom(vkit.HashU(uint64(y), uint64(m*64+d), 42), true)
						}
					}
				}
			}
		})
	})

	// Phase C5: the text parser's MaxInputLength is no input of the binary form: dates and bodies under limits 1..7, 0 and huge.
	r.Phase("FH: every month and day byte (0..255 x 0..255) for five years as bodies while a recording Formatter is installed: the library hands only calendar dates to the caller's Formatter", func() {
		r.Serial(func(w *vkit.W) {
			for _, y := range []int64{2002, 2024, 0, -400, 999999999} {
				for m := 0; m < 256; m++ {
					for d := 0; d < 256; d++ {
						if m > 14 && d > 33 && (m*7+d)%61 != 0 {
							continue
						}
						judge(Case{Kind: "bytes", Data: vkit.B(encode(y, m, d)), Watch: true}, w)
						w.EvalRandom(vkit.Hash64("FH", strconv.Itoa(int(y)), strconv.Itoa(m), strconv.Itoa(d)), true)
					}
				}
			}
		})
	})

	r.Phase("C5: dates and bodies while the text parser's MaxInputLength is 1, 2, 6, 7, 8, 0, MaxInt", func() {
		old := date.MaxInputLength
		defer func() { date.MaxInputLength = old }()
		for _, lim := range []int{1, 2, 6, 7, 8, 0, int(^uint(0) >> 1)} {
			date.MaxInputLength = lim
			r.Serial(func(w *vkit.W) {
				for _, y := range []int64{-400, -1, 0, 1, 2024, 9999, 123456789} {
					for _, md := range [][2]int{{1, 1}, {2, 28}, {2, 29}, {2, 30}, {12, 31}, {13, 1}, {6, 31}} {
						judge(Case{Kind: "bytes", Data: vkit.B(encode(y, md[0], md[1]))}, w)
						if ref.ValidYMD(y, md[0], md[1]) {
							judge(Case{Kind: "date", Y: y, M: md[0], D: md[1]}, w)
						}
						w.EvalRandom(vkit.HashU(uint64(y), uint64(md[0]*64+md[1]), uint64(lim), 55), true)
					}
				}
				judge(Case{Kind: "bytes", Data: ""}, w)
				judge(Case{Kind: "bytes", Data: vkit.B(append(encode(2024, 2, 29), 1, 2, 3))}, w)
			})
		}
	})

	r.Phase(fmt.Sprintf("D: %d seeded random dates out to +-999,999,999 and random 7-byte bodies", nRand), func() {
		r.Parallel(nRand, 4096, func(w *vkit.W, a, b int64) {
			for i := a; i < b; i++ {
				g := r.Rng("rand", i)
				if i%2 == 0 {
					y := g.Range(-999999999, 999999999)
					if i%6 == 0 {
						y = g.Range(-40000, 40000)
					}
					m := 1 + g.Intn(12)
					d := 1 + g.Intn(ref.DaysIn(y, m))
					if i%8 == 0 {
						m, d = 2, ref.DaysIn(y, 2)
					}
					judge(Case{Kind: "date", Y: y, M: m, D: d}, w)
					w.EvalRandom(vkit.HashU(uint64(y), uint64(m), uint64(d)), true)
				} else {
					u := g.U64()
					body := []byte{1, byte(u >> 56), byte(u >> 48), byte(u >> 40), byte(u >> 32), byte(u>>8) % 16, byte(u) % 36}
					if i%16 == 1 {
						body[5], body[6] = byte(u>>8), byte(u)
					}
					if i%32 == 3 {
						body[0] = byte(u >> 16)
					}
					judge(Case{Kind: "bytes", Data: vkit.B(body)}, w)
					w.EvalRandom(vkit.Hash64(string(body)), true)
				}
			}
		})
	})
	r.Sampled()

	r.ColdPhase(coldFirst)

	r.Phase("E: rapid byte strings and dates", func() {
		r.Rapid(t, "rapid-binary", 0, r.Pick(20000, 300000), func(rt *rapid.T, w *vkit.W) vkit.RapidCase {
			var c Case
			if rapid.Bool().Draw(rt, "asDate") {
				y := int64(rapid.Int32Range(-999999999, 999999999).Draw(rt, "y"))
				m := rapid.IntRange(1, 12).Draw(rt, "m")
				c = Case{Kind: "date", Y: y, M: m, D: rapid.IntRange(1, ref.DaysIn(y, m)).Draw(rt, "d")}
			} else {
				n := rapid.SampledFrom([]int{7, 7, 7, 7, 0, 1, 6, 8, 14}).Draw(rt, "len")
				b := make([]byte, n)
				for i := range b {
					b[i] = rapid.Byte().Draw(rt, "b")
				}
				if n > 0 && rapid.IntRange(0, 9).Draw(rt, "fixVersion") > 0 {
					b[0] = 1
				}
				if n == 7 && rapid.Bool().Draw(rt, "plausible") {
					b[5] = byte(rapid.IntRange(0, 14).Draw(rt, "mm"))
					b[6] = byte(rapid.IntRange(0, 33).Draw(rt, "dd"))
				}
				c = Case{Kind: "bytes", Data: vkit.B(b)}
			}
			judge(c, w)
			return vkit.RapidCase{Case: c, Hash: vkit.Hash64(c.Kind, string(c.Data), fmt.Sprint(c.Y, c.M, c.D)), NT: true}
		})
	})
}
