package c11

import (
	"strings"
	"testing"
	_ "time/tzdata"

	"go.lstv.dev/util/date"

	"verifharness/ref"
	"verifharness/vkit"
)

var coldFirst = map[string]func(){
	"unmarshal valid":       func() { var d date.Date; _ = d.UnmarshalBinary(encode(2024, 2, 29)) },
	"unmarshal invalid day": func() { var d date.Date; _ = d.UnmarshalBinary(encode(2023, 2, 29)) },
	"unmarshal short":       func() { var d date.Date; _ = d.UnmarshalBinary([]byte{1, 0}) },
	"unmarshal version":     func() { var d date.Date; _ = d.UnmarshalBinary([]byte{2, 0, 0, 7, 232, 2, 29}) },
	"marshal":               func() { _, _ = date.New(2024, 2, 29).MarshalBinary() },
	"marshal negative":      func() { _, _ = date.New(-400, 12, 31).MarshalBinary() },
	"parse text":            func() { _, _ = date.DefaultParser("2024-02-29", 0) },
	"format":                func() { _ = date.New(1, 1, 1).String() },
}

func init() {
	// the same first calls in processes whose local zone skips a calendar day (Apia, Kiritimati) or starts summer time at midnight
	for _, z := range []string{"Pacific/Apia", "America/Sao_Paulo", "America/Havana", "Asia/Beirut", "America/Asuncion", "Africa/Cairo", "Pacific/Kiritimati", "America/Santiago"} {
		z := z
		coldFirst["tz="+z+"; unmarshal valid"] = func() { var d date.Date; _ = d.UnmarshalBinary(encode(2011, 12, 30)) }
	}
}

func TestColdStart(t *testing.T) {
	vkit.ColdMain(t, "C11", coldFirst, func(w *vkit.W) {
		if strings.HasPrefix(vkit.ColdScenario(), "tz=") {
			for _, y := range []int64{1994, 2011, 2013, 2014, 2018, 2019} {
				for m := 1; m <= 12; m++ {
					for d := 1; d <= 31; d++ {
						judge(Case{Kind: "bytes", Data: vkit.B(encode(y, m, d))}, w)
						if ref.ValidYMD(y, m, d) {
							judge(Case{Kind: "date", Y: y, M: m, D: d}, w)
						}
					}
				}
			}
		}
		for _, y := range []int64{-999999999, -400, -1, 0, 1, 1900, 2000, 2023, 2024, 9999, 999999999} {
			for _, md := range [][2]int{{1, 1}, {2, 28}, {2, 29}, {2, 30}, {4, 31}, {12, 31}, {13, 1}, {0, 1}, {1, 0}, {6, 30}} {
				judge(Case{Kind: "bytes", Data: vkit.B(encode(y, md[0], md[1]))}, w)
				if md[0] >= 1 && md[0] <= 12 && md[1] >= 1 && md[1] <= 28 {
					judge(Case{Kind: "date", Y: y, M: md[0], D: md[1]}, w)
				}
			}
		}
		judge(Case{Kind: "bytes", Data: ""}, w)
		judge(Case{Kind: "bytes", Data: vkit.B([]byte{1, 0})}, w)
		judge(Case{Kind: "bytes", Data: vkit.B([]byte{2, 0, 0, 7, 232, 2, 29})}, w)
		judge(Case{Kind: "bytes", Data: vkit.B(append(encode(2024, 2, 29), 0))}, w)
		judge(Case{Kind: "bytes", Data: vkit.B(encode(2024, 2, 29)[:6])}, w)
	})
}
