// Package vkit is the shared machinery of the util property checks:
// run bookkeeping (evaluations, distinct non-trivial cases, class histogram, samples),
// failure bucketing with minimal replay files, known-findings, evidence writer,
// a parallel enumerator, seed plumbing and the rapid bridge.
package vkit

import (
	"encoding/json"
	"flag"
	"fmt"
	"os"
	"path/filepath"
	"runtime"
	"runtime/debug"
	"sort"
	"strconv"
	"strings"
	"sync"
	"sync/atomic"
	"testing"
	"time"
)

// Failure is one violated oracle rule on one case.
type Failure struct {
	Class  string `json:"class"`
	Detail string `json:"detail"`
}

type failRec struct {
	caseJSON []byte
	detail   string
	count    int64
}

// Run collects everything one invocation of a check observes.
type Run struct {
	ID     string
	Tier   string
	Seed   int64
	Replay string // path of a replay file, "" in normal runs

	start time.Time
	mu    sync.Mutex

	evals         int64
	ntEnum        int64 // distinct by construction (enumerations)
	ntSet         *hashSet
	classes       map[string]int64
	samples       []any
	fails         map[string]*failRec
	known         map[string]string // key -> description (from KNOWN_FINDINGS.txt, "known:" lines for this property)
	knownHit      map[string]int64
	scopes        []string // finite spaces enumerated completely
	allExhaustive bool
	rules         []string
	assume        []string
	extra         map[string]any
	phases        []map[string]any
	inconclusive  []string
	early         map[string]*failRec // first failure of each class, noted the moment it happens (for the watchdog)
	finished      bool
}

func verifDir() string {
	if d := os.Getenv("VERIF_DIR"); d != "" {
		return d
	}
	return "/verif"
}

// Start creates the run for property id from the environment the driver sets.
func Start(id string) *Run {
	seed, _ := strconv.ParseInt(os.Getenv("VERIF_SEED"), 10, 64)
	tier := os.Getenv("VERIF_TIER")
	if tier != "thorough" {
		tier = "quick"
	}
	r := &Run{
		ID: id, Tier: tier, Seed: seed, Replay: os.Getenv("VERIF_REPLAY"),
		start:         time.Now(),
		ntSet:         newHashSet(4 << 20),
		classes:       map[string]int64{},
		fails:         map[string]*failRec{},
		known:         map[string]string{},
		knownHit:      map[string]int64{},
		extra:         map[string]any{},
		allExhaustive: true,
	}
	r.loadKnown()
	// the checks allocate millions of short-lived error values; memory is plentiful, GC time is not
	debug.SetGCPercent(800)
	if f := flag.Lookup("test.timeout"); f != nil && r.Replay == "" && os.Getenv("VERIF_COLD") == "" {
		if d, err := time.ParseDuration(f.Value.String()); err == nil && d > 2*time.Minute {
			go r.watchdog(d - 45*time.Second)
		}
	}
	return r
}

// watchdog: shortly before go test's own time limit kills the process (and with it everything recorded so far), the
// violations found up to then are reported. A library call that never returns would otherwise turn a run that has already
// seen violations into an inconclusive one. Running out of time is itself never reported as a violation.
func (r *Run) watchdog(after time.Duration) {
	time.Sleep(after)
	r.mu.Lock()
	if r.finished {
		r.mu.Unlock()
		return
	}
	for class, f := range r.early {
		if r.fails[class] == nil {
			r.fails[class] = f
		}
	}
	n := r.reportViolations()
	fmt.Printf("INCONCLUSIVE-PART property=%s the run did not finish within its time limit (after %s): a call that does not return, or a machine that is too slow; %d violation classes recorded before that are reported above\n", r.ID, after, n)
	os.Exit(3)
}

// reportViolations writes the replay files and prints the VIOLATION lines of everything in r.fails (r.mu held).
func (r *Run) reportViolations() int {
	_, violations := r.violationLines()
	return len(violations)
}

// Thorough reports whether the thorough tier was requested.
func (r *Run) Thorough() bool { return r.Tier == "thorough" }

// Pick returns q in the quick tier and t in the thorough tier.
func (r *Run) Pick(q, t int) int {
	if r.Thorough() {
		return t
	}
	return q
}

func (r *Run) loadKnown() {
	b, err := os.ReadFile(filepath.Join(verifDir(), "KNOWN_FINDINGS.txt"))
	if err != nil {
		return
	}
	for _, line := range strings.Split(string(b), "\n") {
		line = strings.TrimSpace(line)
		if !strings.HasPrefix(line, "known:") {
			continue // "fixed:" lines and comments suppress nothing
		}
		f := strings.Fields(line[len("known:"):])
		if len(f) < 2 || f[0] != "property="+r.ID || !strings.HasPrefix(f[1], "key=") {
			continue
		}
		r.known[strings.TrimPrefix(f[1], "key=")] = strings.Join(f[2:], " ")
	}
}

// Rule appends a sentence to the evidence "rule" text.
func (r *Run) Rule(s string) { r.mu.Lock(); r.rules = append(r.rules, s); r.mu.Unlock() }

// Assume appends to the evidence assumptions.
func (r *Run) Assume(s string) { r.mu.Lock(); r.assume = append(r.assume, s); r.mu.Unlock() }

// Exhaustive records a finite scope that was enumerated completely.
func (r *Run) Exhaustive(scope string) {
	r.mu.Lock()
	r.scopes = append(r.scopes, scope)
	r.mu.Unlock()
}

// Sampled records that part of the run was sampling (so "exhaustive" is only claimed for the listed scopes).
func (r *Run) Sampled() { r.mu.Lock(); r.allExhaustive = false; r.mu.Unlock() }

// Extra stores an additional coverage key.
func (r *Run) Extra(k string, v any) { r.mu.Lock(); r.extra[k] = v; r.mu.Unlock() }

// Inconclusive notes a part of the run that could not finish (never a violation).
func (r *Run) Inconclusive(s string) {
	r.mu.Lock()
	r.inconclusive = append(r.inconclusive, s)
	r.mu.Unlock()
}

// Phase runs f, recording its wall time and the evaluations it added.
func (r *Run) Phase(name string, f func()) {
	if Flooded() {
		r.mu.Lock()
		r.phases = append(r.phases, map[string]any{"phase": name, "skipped": fmt.Sprintf("more than %d failing cases recorded already", floodLimit)})
		r.mu.Unlock()
		return
	}
	t0 := time.Now()
	e0 := atomic.LoadInt64(&r.evals)
	f()
	r.mu.Lock()
	r.phases = append(r.phases, map[string]any{"phase": name, "wall_s": round3(time.Since(t0).Seconds()), "evaluations": atomic.LoadInt64(&r.evals) - e0})
	r.mu.Unlock()
}

func round3(f float64) float64 { return float64(int64(f*1000+0.5)) / 1000 }

// W is a worker-local accumulator; merge is done when the worker ends. Not safe for concurrent use.
type W struct {
	r        *Run
	evals    int64
	ntEnum   int64
	classes  map[string]int64
	samples  []any
	fails    map[string]*failRec
	knownHit map[string]int64
	cur      any // case being judged (for panic reports)
	// Prev is free for a judge to keep the previous case of this worker in (histories of the form A, B, A).
	Prev        any
	scratch     []byte
	flip        bool
	scratchLast string
	scratchSet  bool
	retained    map[string]*retained
}

// NewW returns a fresh worker accumulator.
func (r *Run) NewW() *W {
	return &W{r: r, classes: map[string]int64{}, fails: map[string]*failRec{}, knownHit: map[string]int64{}}
}

// Run returns the owning run.
func (w *W) Run() *Run { return w.r }

// Eval counts one judged case. nt: the case is non-trivial by the property's rule and distinct by construction.
func (w *W) Eval(nt bool) {
	w.evals++
	if nt {
		w.ntEnum++
	}
}

// EvalN counts n judged cases of which nt were non-trivial and distinct by construction.
func (w *W) EvalN(n, nt int64) { w.evals += n; w.ntEnum += nt }

// EvalRandom counts one judged random case; distinctness is decided by the 64-bit hash h.
func (w *W) EvalRandom(h uint64, nt bool) {
	w.evals++
	if nt {
		w.r.ntSet.add(h)
	}
}

// Class increments a generator-health label.
func (w *W) Class(label string) { w.classes[label]++ }

// ClassN adds n to a generator-health label.
func (w *W) ClassN(label string, n int64) { w.classes[label] += n }

// Sample keeps up to a few literal cases per worker.
func (w *W) Sample(c any) {
	if len(w.samples) < 4 {
		w.samples = append(w.samples, c)
	}
}

// WantSample reports whether the worker still keeps samples (avoids building them needlessly).
func (w *W) WantSample() bool { return len(w.samples) < 4 }

// Fail records a violated rule on case c (c must be JSON-serialisable and replayable).
func (w *W) Fail(c any, class, detail string) {
	f := w.fails[class]
	if f == nil {
		f = &failRec{}
		w.fails[class] = f
	}
	f.count++
	atomic.AddInt64(&failTotal, 1)
	if f.count <= 64 || f.caseJSON == nil {
		b, err := json.Marshal(c)
		if err != nil {
			b = []byte(fmt.Sprintf("%q", fmt.Sprintf("%#v", c)))
		}
		if f.caseJSON == nil || smaller(b, f.caseJSON) {
			f.caseJSON, f.detail = b, detail
		}
	}
	if f.count == 1 {
		// known to the run at once (not only when this worker ends), so that the watchdog can report it
		w.r.mu.Lock()
		if w.r.early == nil {
			w.r.early = map[string]*failRec{}
		}
		if w.r.early[class] == nil {
			w.r.early[class] = &failRec{count: 1, caseJSON: f.caseJSON, detail: f.detail}
		}
		w.r.mu.Unlock()
	}
}

// FailKnown is Fail unless key is listed as a known finding for this property, in which case the
// case is counted as known_excluded and produces a KNOWN-FINDING line instead.
func (w *W) FailKnown(key string, c any, class, detail string) {
	if _, ok := w.r.known[key]; ok {
		w.knownHit[key]++
		return
	}
	w.Fail(c, class, detail)
}

func smaller(a, b []byte) bool {
	if len(a) != len(b) {
		return len(a) < len(b)
	}
	return string(a) < string(b)
}

// Guard runs f, turning a panic into a failure of class "panic" on case c.
func (w *W) Guard(c any, f func()) {
	defer func() {
		if p := recover(); p != nil {
			w.Fail(c, "panic", fmt.Sprintf("panic: %v\n%s", p, trimStack(debug.Stack())))
		}
	}()
	f()
}

// PanicDetail formats a recovered panic value with a trimmed stack.
func PanicDetail(p any) string {
	if atomic.AddInt64(&panicDetails, 1) > 2000 {
		// a change that makes nearly every case panic: the first 2000 stacks are enough, capturing millions only costs time
		return fmt.Sprintf("panic: %v (stack omitted: more than 2000 panics in this run)", p)
	}
	return fmt.Sprintf("panic: %v\n%s", p, trimStack(debug.Stack()))
}

var panicDetails int64

// floodLimit: once this many failing cases have been recorded the run stops starting new work (remaining chunks and phases are
// skipped and the evidence says so). The verdict is a violation either way; the limit only bounds the time a grossly broken
// tree takes, so that it is reported as a violation and not as a timeout.
const floodLimit = 3000000

var failTotal int64

// Flooded reports whether the run has recorded so many failing cases that it stops starting new work.
func Flooded() bool { return atomic.LoadInt64(&failTotal) > floodLimit }

// Try runs f and reports a panic as text ("" if none).
func Try(f func()) (panicText string) {
	defer func() {
		if p := recover(); p != nil {
			panicText = fmt.Sprintf("panic: %v\n%s", p, trimStack(debug.Stack()))
		}
	}()
	f()
	return ""
}

func trimStack(b []byte) string {
	s := string(b)
	lines := strings.Split(s, "\n")
	if len(lines) > 24 {
		lines = lines[:24]
	}
	return strings.Join(lines, "\n")
}

// Done merges the worker into the run.
func (w *W) Done() {
	w.verifyScratch()
	r := w.r
	atomic.AddInt64(&r.evals, w.evals)
	r.mu.Lock()
	defer r.mu.Unlock()
	r.ntEnum += w.ntEnum
	for k, v := range w.classes {
		r.classes[k] += v
	}
	for k, v := range w.knownHit {
		r.knownHit[k] += v
	}
	for _, s := range w.samples {
		if len(r.samples) < 16 {
			r.samples = append(r.samples, s)
		}
	}
	for class, f := range w.fails {
		g := r.fails[class]
		if g == nil {
			r.fails[class] = f
			continue
		}
		g.count += f.count
		if smaller(f.caseJSON, g.caseJSON) {
			g.caseJSON, g.detail = f.caseJSON, f.detail
		}
	}
	w.evals, w.ntEnum = 0, 0
	w.classes, w.fails, w.knownHit, w.samples = map[string]int64{}, map[string]*failRec{}, map[string]int64{}, nil
}

// Workers is the parallelism used by Parallel.
func Workers() int {
	if s := os.Getenv("VERIF_WORKERS"); s != "" {
		if n, err := strconv.Atoi(s); err == nil && n > 0 {
			return n
		}
	}
	n := runtime.NumCPU()
	if n > 16 {
		n = 16
	}
	return n
}

// Parallel splits [0,n) into chunks and runs body(w, lo, hi) on Workers() goroutines.
// Chunks are handed out in increasing order, so small indices are judged first.
func (r *Run) Parallel(n int64, chunk int64, body func(w *W, lo, hi int64)) {
	if n <= 0 {
		return
	}
	if chunk <= 0 {
		chunk = 1
	}
	var next int64
	var wg sync.WaitGroup
	nw := Workers()
	if int64(nw) > (n+chunk-1)/chunk {
		nw = int((n + chunk - 1) / chunk)
	}
	for i := 0; i < nw; i++ {
		wg.Add(1)
		go func() {
			defer wg.Done()
			w := r.NewW()
			defer w.Done()
			for {
				lo := atomic.AddInt64(&next, chunk) - chunk
				if lo >= n || Flooded() {
					return
				}
				hi := lo + chunk
				if hi > n {
					hi = n
				}
				func() {
					defer func() {
						if p := recover(); p != nil {
							w.Fail(map[string]any{"chunk": []int64{lo, hi}, "case": w.cur}, "panic", fmt.Sprintf("panic: %v\n%s", p, trimStack(debug.Stack())))
						}
					}()
					body(w, lo, hi)
				}()
			}
		}()
	}
	wg.Wait()
}

// Cur remembers the case being judged so that a panic escaping the judge can be attributed.
func (w *W) Cur(c any) { w.cur = c }

// Serial runs body with one worker accumulator (for checks that change package globals).
func (r *Run) Serial(body func(w *W)) {
	w := r.NewW()
	defer w.Done()
	defer func() {
		if p := recover(); p != nil {
			w.Fail(map[string]any{"case": w.cur}, "panic", fmt.Sprintf("panic: %v\n%s", p, trimStack(debug.Stack())))
		}
	}()
	body(w)
}

// Violations returns the number of failure classes seen so far.
func (r *Run) Violations() int {
	r.mu.Lock()
	defer r.mu.Unlock()
	return len(r.fails)
}

type replayFile struct {
	Property string          `json:"property"`
	Class    string          `json:"class"`
	Detail   string          `json:"detail"`
	Count    int64           `json:"failing_cases_of_this_class_in_run"`
	Seed     int64           `json:"seed"`
	Tier     string          `json:"tier"`
	Case     json.RawMessage `json:"case"`
}

// LoadReplay decodes the case of a replay file into c.
func (r *Run) LoadReplay(c any) error {
	b, err := os.ReadFile(r.Replay)
	if err != nil {
		return err
	}
	var f replayFile
	if err := json.Unmarshal(b, &f); err != nil {
		return err
	}
	if f.Property != "" && f.Property != r.ID {
		return fmt.Errorf("replay file is for property %s, not %s", f.Property, r.ID)
	}
	return json.Unmarshal(f.Case, c)
}

// Finish writes replay files and the evidence file, prints the VIOLATION / KNOWN-FINDING lines and fails t on violations.
func (r *Run) Finish(t *testing.T) {
	r.mu.Lock()
	defer r.mu.Unlock()
	r.finished = true
	wall := time.Since(r.start).Seconds()
	classes, violations := r.violationLines()
	knownKeys := make([]string, 0, len(r.knownHit))
	var knownTotal int64
	for k, n := range r.knownHit {
		knownKeys = append(knownKeys, k)
		knownTotal += n
	}
	sort.Strings(knownKeys)
	for _, k := range knownKeys {
		fmt.Printf("KNOWN-FINDING: property=%s key=%s %s (matched %d generated cases)\n", r.ID, k, r.known[k], r.knownHit[k])
	}

	if r.Replay == "" {
		r.writeEvidence(wall, violations, knownTotal)
	}
	for _, s := range r.inconclusive {
		fmt.Printf("INCONCLUSIVE-PART property=%s %s\n", r.ID, s)
	}
	nt := r.ntEnum + r.ntSet.len()
	fmt.Printf("SUMMARY property=%s tier=%s seed=%d evaluations=%d distinct_nontrivial=%d violations=%d wall_s=%.1f\n",
		r.ID, r.Tier, r.Seed, atomic.LoadInt64(&r.evals), nt, len(classes), wall)
	if len(classes) > 0 {
		t.Fail()
	}
}

// violationLines writes one replay file per failure class and prints its VIOLATION line (r.mu held).
func (r *Run) violationLines() (classes []string, violations []map[string]any) {
	for c := range r.fails {
		classes = append(classes, c)
	}
	sort.Strings(classes)
	replayDir := os.Getenv("VERIF_REPLAY_DIR")
	if replayDir == "" {
		replayDir = filepath.Join(verifDir(), "replays")
	}
	_ = os.MkdirAll(replayDir, 0o755)
	for _, c := range classes {
		f := r.fails[c]
		rf := replayFile{Property: r.ID, Class: c, Detail: f.detail, Count: f.count, Seed: r.Seed, Tier: r.Tier, Case: f.caseJSON}
		b, _ := json.MarshalIndent(rf, "", " ")
		path := filepath.Join(replayDir, fmt.Sprintf("%s-%s-%08x.json", r.ID, sanitize(c), fnv32(f.caseJSON)))
		if r.Replay != "" {
			path = r.Replay
		} else if err := os.WriteFile(path, b, 0o644); err != nil {
			fmt.Printf("cannot write replay file %s: %v\n", path, err)
		}
		fmt.Printf("VIOLATION property=%s replay=%s\n", r.ID, path)
		fmt.Printf("  class=%s failing_cases=%d\n  case=%s\n  %s\n", c, f.count, truncate(string(f.caseJSON), 600), truncate(f.detail, 1500))
		violations = append(violations, map[string]any{"class": c, "count": f.count, "replay": path, "detail": truncate(f.detail, 400)})
	}
	return classes, violations
}

func (r *Run) writeEvidence(wall float64, violations []map[string]any, knownTotal int64) {
	nt := r.ntEnum + r.ntSet.len()
	rule := strings.Join(r.rules, " ")
	if r.ntSet.saturated() {
		rule += " (random-case de-duplication set saturated at 4M entries: distinct_nontrivial is a lower bound.)"
	}
	cov := map[string]any{
		"evaluations":         atomic.LoadInt64(&r.evals),
		"distinct_nontrivial": nt,
		"rule":                rule,
		"samples":             r.samples,
		"classes":             r.classes,
		"phases":              r.phases,
		"known_excluded":      knownTotal,
		"goarch":              runtime.GOARCH,
		"go":                  runtime.Version(),
	}
	if len(r.scopes) > 0 {
		cov["exhaustive_scopes"] = r.scopes
		// exhaustive:true means: every scope listed in exhaustive_scopes was enumerated completely.
		cov["exhaustive"] = true
	}
	if len(r.inconclusive) > 0 {
		cov["inconclusive_parts"] = r.inconclusive
	}
	if len(violations) > 0 {
		cov["violation_classes"] = violations
	}
	for k, v := range r.extra {
		cov[k] = v
	}
	if p := os.Getenv("VERIF_FUZZ_STATS"); p != "" { // written by ./run before the thorough TestCheck: native fuzz campaigns
		if b, err := os.ReadFile(p); err == nil {
			var st any
			if json.Unmarshal(b, &st) == nil {
				cov["native_fuzz_campaigns"] = st
			}
		}
	}
	if cov["samples"] == nil || len(r.samples) == 0 {
		cov["samples"] = []any{"(no sample recorded)"}
	}
	ev := map[string]any{
		"property_id": r.ID,
		"tier":        r.Tier,
		"seed":        r.Seed,
		"level":       "exploration",
		"coverage":    cov,
		"assumptions": append([]string{"oracle code in /verif/harness is correct (it shares no code with the library; see DESIGN.md)", "go toolchain and standard library"}, r.assume...),
		"wall_s":      round3(wall),
		"violations":  len(violations),
	}
	path := os.Getenv("VERIF_EVIDENCE")
	if path == "" {
		path = filepath.Join(verifDir(), "evidence", r.ID+".json")
	}
	_ = os.MkdirAll(filepath.Dir(path), 0o755)
	b, err := json.MarshalIndent(ev, "", " ")
	if err != nil {
		fmt.Printf("cannot encode evidence: %v\n", err)
		return
	}
	tmp := path + ".tmp"
	if err := os.WriteFile(tmp, append(b, '\n'), 0o644); err == nil {
		_ = os.Rename(tmp, path)
	} else {
		fmt.Printf("cannot write evidence %s: %v\n", path, err)
	}
}

func sanitize(s string) string {
	b := []byte(s)
	for i, c := range b {
		if !(c >= 'a' && c <= 'z' || c >= 'A' && c <= 'Z' || c >= '0' && c <= '9' || c == '-' || c == '_') {
			b[i] = '_'
		}
	}
	if len(b) > 40 {
		b = b[:40]
	}
	return string(b)
}

func truncate(s string, n int) string {
	if len(s) <= n {
		return s
	}
	return s[:n] + "…"
}

func fnv32(b []byte) uint32 {
	h := uint32(2166136261)
	for _, c := range b {
		h ^= uint32(c)
		h *= 16777619
	}
	return h
}

// ---- hashing / PRNG -------------------------------------------------------

// Hash64 is FNV-1a over the parts, used to de-duplicate random cases.
func Hash64(parts ...string) uint64 {
	h := uint64(14695981039346656037)
	for _, p := range parts {
		for i := 0; i < len(p); i++ {
			h ^= uint64(p[i])
			h *= 1099511628211
		}
		h ^= 0xff
		h *= 1099511628211
	}
	return h
}

// HashU mixes integers into a 64-bit hash.
func HashU(vs ...uint64) uint64 {
	h := uint64(0x9e3779b97f4a7c15)
	for _, v := range vs {
		h ^= v + 0x9e3779b97f4a7c15 + (h << 6) + (h >> 2)
		h = mix(h)
	}
	return h
}

func mix(z uint64) uint64 {
	z = (z ^ (z >> 30)) * 0xbf58476d1ce4e5b9
	z = (z ^ (z >> 27)) * 0x94d049bb133111eb
	return z ^ (z >> 31)
}

// Rng is splitmix64: deterministic, toolchain-independent, one stream per (seed, name, index).
type Rng struct{ s uint64 }

// Rng derives an independent stream from the run seed.
func (r *Run) Rng(name string, idx int64) *Rng {
	return &Rng{s: HashU(uint64(r.Seed), Hash64(name), uint64(idx))}
}

// U64 returns the next 64 random bits.
func (g *Rng) U64() uint64 {
	g.s += 0x9e3779b97f4a7c15
	return mix(g.s)
}

// Intn returns a value in [0,n).
func (g *Rng) Intn(n int) int {
	if n <= 1 {
		return 0
	}
	return int(g.U64() % uint64(n))
}

// Range returns a value in [lo,hi].
func (g *Rng) Range(lo, hi int64) int64 {
	if hi <= lo {
		return lo
	}
	return lo + int64(g.U64()%uint64(hi-lo+1))
}

// Bool returns a fair coin.
func (g *Rng) Bool() bool { return g.U64()&1 == 1 }

// ---- concurrent hash set with a cap ---------------------------------------

type hashSet struct {
	shards [64]struct {
		mu sync.Mutex
		m  map[uint64]struct{}
	}
	n   int64
	cap int64
	sat int32
}

func newHashSet(cap int64) *hashSet {
	h := &hashSet{cap: cap}
	for i := range h.shards {
		h.shards[i].m = map[uint64]struct{}{}
	}
	return h
}

func (h *hashSet) add(v uint64) {
	if atomic.LoadInt64(&h.n) >= h.cap {
		atomic.StoreInt32(&h.sat, 1)
		return
	}
	s := &h.shards[v>>58]
	s.mu.Lock()
	if _, ok := s.m[v]; !ok {
		s.m[v] = struct{}{}
		atomic.AddInt64(&h.n, 1)
	}
	s.mu.Unlock()
}

func (h *hashSet) len() int64      { return atomic.LoadInt64(&h.n) }
func (h *hashSet) saturated() bool { return atomic.LoadInt32(&h.sat) == 1 }

// ---- lossless text in JSON -------------------------------------------------

// B is a byte string that survives JSON: it is written as a Go string literal inside a JSON string
// (so invalid UTF-8, NUL and control bytes are kept exactly and stay readable).
type B string

// MarshalJSON writes the Go-quoted form.
func (b B) MarshalJSON() ([]byte, error) { return json.Marshal(strconv.QuoteToASCII(string(b))) }

// UnmarshalJSON reads the Go-quoted form.
func (b *B) UnmarshalJSON(data []byte) error {
	var q string
	if err := json.Unmarshal(data, &q); err != nil {
		return err
	}
	s, err := strconv.Unquote(q)
	if err != nil {
		return fmt.Errorf("vkit.B: %q is not a Go string literal: %w", q, err)
	}
	*b = B(s)
	return nil
}

// ---- committed regressions -------------------------------------------------

// Regress feeds the case of every file in <verif>/regress/<ID>/ to judge (seconds-long replay tier, run first).
func (r *Run) Regress(judge func(raw json.RawMessage, w *W) error) {
	dir := filepath.Join(verifDir(), "regress", r.ID)
	ents, err := os.ReadDir(dir)
	if err != nil {
		return
	}
	r.Phase("regressions", func() {
		r.Serial(func(w *W) {
			n := 0
			for _, e := range ents {
				if e.IsDir() || !strings.HasSuffix(e.Name(), ".json") {
					continue
				}
				b, err := os.ReadFile(filepath.Join(dir, e.Name()))
				if err != nil {
					continue
				}
				var f replayFile
				if err := json.Unmarshal(b, &f); err != nil || len(f.Case) == 0 {
					fmt.Printf("regress: cannot decode %s: %v\n", e.Name(), err)
					continue
				}
				if err := judge(f.Case, w); err != nil {
					fmt.Printf("regress: %s: %v\n", e.Name(), err)
					continue
				}
				n++
			}
			w.ClassN("regression_files", int64(n))
		})
	})
}

// Panics runs f and reports whether it panicked, without capturing a stack (for panics that are part of a contract).
func Panics(f func()) (panicked bool, value any) {
	defer func() {
		if p := recover(); p != nil {
			panicked, value = true, p
		}
	}()
	f()
	return false, nil
}

// FirstFailure returns one recorded failure of the worker (class order), for harnesses that report immediately (fuzz targets).
func (w *W) FirstFailure() (class, detail string, ok bool) {
	best := ""
	for c := range w.fails {
		if best == "" || c < best {
			best = c
		}
	}
	if best == "" {
		return "", "", false
	}
	return best, w.fails[best].detail, true
}

// Flip alternates between true and false per worker; judges use it to vary the order in which they exercise the string and
// the []byte instantiation of a parser (a parser that remembers its last input sees a different history then).
func (w *W) Flip() bool {
	w.flip = !w.flip
	return w.flip
}

// Scratch copies s into a buffer owned by the worker and returns it (len(s), with spare capacity behind it that holds guard
// bytes). Judges hand this buffer (not a fresh allocation) to the []byte instantiations of the parsers: a caller is free to
// reuse one read buffer for successive inputs, so a parser that remembers (aliases) the bytes of an earlier call would see
// the buffer change under it. Before the buffer is reused, the previous content and the guard bytes behind it are verified:
// no callee may modify the bytes it is given or write behind them.
func (w *W) Scratch(s string) []byte {
	w.verifyScratch()
	need := len(s) + scratchGuard
	if cap(w.scratch) < need {
		w.scratch = make([]byte, need, need*2+64)
	}
	w.scratch = w.scratch[:need]
	copy(w.scratch, s)
	for i := len(s); i < need; i++ {
		w.scratch[i] = guardByte
	}
	w.scratchLast = s
	w.scratchSet = true
	return w.scratch[:len(s)] // cap reaches over the guard bytes: a callee that appends to its input is caught
}

const (
	scratchGuard = 8
	guardByte    = 0xEE
)

func (w *W) verifyScratch() {
	if !w.scratchSet {
		return
	}
	w.scratchSet = false
	n := len(w.scratchLast)
	if len(w.scratch) < n+scratchGuard {
		return
	}
	if string(w.scratch[:n]) != w.scratchLast {
		w.Fail(map[string]any{"input": B(w.scratchLast), "case": w.cur}, "input-modified", fmt.Sprintf("a callee changed the %d input bytes it was given: %q -> %q", n, w.scratchLast, w.scratch[:n]))
	}
	for i := n; i < n+scratchGuard; i++ {
		if w.scratch[i] != guardByte {
			w.Fail(map[string]any{"input": B(w.scratchLast), "case": w.cur}, "wrote-behind-input", fmt.Sprintf("a callee wrote behind the %d-byte input slice it was given (spare capacity of the caller's buffer): %v", n, w.scratch[n:n+scratchGuard]))
			break
		}
	}
}

// Retain keeps a result (as returned, not copied) together with the text it must have; when the next result with the same
// label arrives, the earlier one is checked again. A callee that hands out pooled or shared storage shows up as an earlier
// result that changed after a later call.
func (w *W) Retain(c any, label string, got string, want string) {
	if w.retained == nil {
		w.retained = map[string]*retained{}
	}
	if p := w.retained[label]; p != nil {
		if cur := p.current(); cur != p.want {
			w.Fail(p.c, "earlier-result-changed-by-later-call", fmt.Sprintf("%s: a result that read %q when it was returned reads %q after a later call", label, p.want, cur))
		}
	}
	w.retained[label] = &retained{c: c, str: got, want: want}
}

// RetainBytes is Retain for a returned byte slice (kept as returned).
func (w *W) RetainBytes(c any, label string, got []byte, want string) {
	if w.retained == nil {
		w.retained = map[string]*retained{}
	}
	if p := w.retained[label]; p != nil {
		if cur := p.current(); cur != p.want {
			w.Fail(p.c, "earlier-result-changed-by-later-call", fmt.Sprintf("%s: a result that read %q when it was returned reads %q after a later call", label, p.want, cur))
		}
		// the earlier result belongs to the caller, who now reuses its storage - including any spare capacity it came with -
		// for something else
		before := string(got)
		full := p.bytes[:cap(p.bytes)]
		for i := range full {
			full[i] = '#'
		}
		if string(got) != before {
			w.Fail(c, "result-storage-shared", fmt.Sprintf("%s: a result that read %q changed to %q when the caller reused the storage (length and spare capacity) of the result it had been given before", label, before, got))
		}
	}
	w.retained[label] = &retained{c: c, bytes: got, isBytes: true, want: want}
}

// Owned checks that a returned byte slice belongs to the caller: the caller overwrites it, and produce() - the same call
// again - must still give want. A library that hands out storage it keeps using would now show the caller's scribble.
func (w *W) Owned(c any, label string, got []byte, want string, produce func() ([]byte, error)) {
	full := got[:cap(got)]
	for i := range full {
		full[i] = '#'
	}
	again, err := produce()
	if err != nil || string(again) != want {
		w.Fail(c, "result-storage-shared", fmt.Sprintf("%s: after the caller overwrote the bytes it had been given, the same call gives %q, %v; want %q", label, again, err, want))
	}
}

type retained struct {
	c       any
	str     string
	bytes   []byte
	isBytes bool
	read    func() string
	want    string
}

func (r *retained) current() string {
	if r.read != nil {
		return r.read()
	}
	if r.isBytes {
		return string(r.bytes)
	}
	return r.str
}

// RetainFunc keeps something that can be read again later (an error value, say) and reads it again when the next thing is
// retained under the same label: it must still read as it did (want) although the caller has moved on and reused its buffers.
func (w *W) RetainFunc(c any, label string, read func() string, want string) {
	if w.retained == nil {
		w.retained = map[string]*retained{}
	}
	if p := w.retained[label]; p != nil {
		if cur := p.current(); cur != p.want {
			w.Fail(p.c, "earlier-result-changed-by-later-call", fmt.Sprintf("%s: read %q when it was returned, reads %q after the caller went on to its next call", label, p.want, cur))
		}
	}
	w.retained[label] = &retained{c: c, read: read, want: want}
}
