package vkit

import (
	"bufio"
	"bytes"
	"encoding/json"
	"fmt"
	"os"
	"os/exec"
	"sort"
	"strings"
	"testing"
	"time"
)

// Cold-start scenarios: some state is set up on the first use of a package in a process (lazily built tables, lazily
// compiled patterns, lazily seeded generators). Which call comes first is part of the history a property quantifies over,
// and inside one long-running test process only one first call exists. RunCold therefore re-executes the test binary with
// -test.run=^TestColdStart$ and VERIF_COLD=<scenario>; the check package's TestColdStart performs that scenario as the very
// first library calls of the fresh process and judges a small battery afterwards.

const coldPrefix = "COLDFAIL "

// ColdScenario returns the scenario requested for this process ("" when this is not a cold-start child).
func ColdScenario() string { return os.Getenv("VERIF_COLD") }

// ColdReport is called by TestColdStart in the child: it prints the failures of w in a form the parent collects.
func ColdReport(t *testing.T, w *W) {
	for class, f := range w.fails {
		b, _ := json.Marshal(map[string]any{"class": class, "detail": f.detail, "case": json.RawMessage(f.caseJSON)})
		fmt.Println(coldPrefix + string(b))
	}
	if len(w.fails) > 0 {
		t.Fail()
	}
}

// ColdCase is the replayable form of a cold-start failure.
type ColdCase struct {
	Cold string          `json:"cold_scenario"`
	Case json.RawMessage `json:"failing_case_in_child,omitempty"`
}

// RunCold runs one scenario in a fresh process and records its failures in w (case = ColdCase).
// A child that dies without reporting (crash, panic outside a judge, timeout) is recorded as class "cold-start-crash".
func (r *Run) RunCold(w *W, scenario string, race bool) {
	args := []string{"-test.run=^TestColdStart$", "-test.count=1", "-test.timeout=120s"}
	cmd := exec.Command(os.Args[0], args...)
	cmd.Env = append(os.Environ(), "VERIF_COLD="+scenario)
	var out bytes.Buffer
	cmd.Stdout, cmd.Stderr = &out, &out
	done := make(chan error, 1)
	if err := cmd.Start(); err != nil {
		r.Inconclusive("cold start: cannot start child: " + err.Error())
		return
	}
	go func() { done <- cmd.Wait() }()
	var err error
	select {
	case err = <-done:
	case <-time.After(150 * time.Second):
		_ = cmd.Process.Kill()
		r.Inconclusive("cold start scenario " + scenario + ": child timed out")
		return
	}
	reported := false
	sc := bufio.NewScanner(&out)
	sc.Buffer(make([]byte, 1<<20), 1<<24)
	var tail, crash []string
	for sc.Scan() {
		line := sc.Text()
		if strings.HasPrefix(line, coldPrefix) {
			var f struct {
				Class  string          `json:"class"`
				Detail string          `json:"detail"`
				Case   json.RawMessage `json:"case"`
			}
			if json.Unmarshal([]byte(line[len(coldPrefix):]), &f) == nil {
				reported = true
				w.Fail(ColdCase{Cold: scenario, Case: f.Case}, f.Class, "in a fresh process whose first library calls are scenario "+scenario+": "+f.Detail)
			}
			continue
		}
		if crash == nil && (strings.Contains(line, "panic:") || strings.Contains(line, "fatal error:") || strings.Contains(line, "DATA RACE") || strings.Contains(line, "race detected")) {
			crash = []string{} // the crash report starts here: keep its first lines (a goroutine dump can be very long)
		}
		if crash != nil && len(crash) < 40 {
			crash = append(crash, line)
		}
		tail = append(tail, line)
		if len(tail) > 25 {
			tail = tail[1:]
		}
	}
	if err != nil && !reported {
		text := strings.Join(tail, "\n")
		if crash != nil {
			w.Fail(ColdCase{Cold: scenario}, "cold-start-crash", "fresh process with first calls "+scenario+" died: "+truncate(strings.Join(crash, "\n"), 2500))
		} else {
			r.Inconclusive("cold start scenario " + scenario + ": child failed without a report: " + truncate(text, 300))
		}
	}
	_ = race
}

// ReplayCold handles a replay file that holds a cold-start failure; it reports whether it did.
func (r *Run) ReplayCold() bool {
	if r.Replay == "" {
		return false
	}
	var cc ColdCase
	if err := r.LoadReplay(&cc); err != nil || cc.Cold == "" {
		return false
	}
	r.Serial(func(w *W) { r.RunCold(w, cc.Cold, false); w.Eval(true) })
	return true
}

// ColdMain is the body of a check package's TestColdStart: in a cold-start child it makes the scenario's call the first
// library call of the process, then judges the battery and reports.
func ColdMain(t *testing.T, id string, first map[string]func(), battery func(w *W)) {
	scenario := ColdScenario()
	if scenario == "" {
		t.Skip("not a cold-start child")
	}
	r := Start(id)
	w := r.NewW()
	f, ok := first[scenario]
	if !ok {
		t.Fatalf("unknown cold scenario %q", scenario)
	}
	// a scenario named "tz=<IANA zone>; ..." runs in a process whose local time zone is that zone (the check package embeds
	// time/tzdata): the zone a program happens to run in is a setting like any other
	if strings.HasPrefix(scenario, "tz=") {
		zone := strings.TrimSpace(strings.SplitN(scenario[3:], ";", 2)[0])
		loc, err := time.LoadLocation(zone)
		if err != nil {
			t.Fatalf("cold scenario %q: %v", scenario, err)
		}
		time.Local = loc
	}
	w.Guard(map[string]string{"first_call": scenario}, f)
	battery(w)
	ColdReport(t, w)
}

// ColdPhase runs every scenario of first (in sorted order) in its own fresh process.
func (r *Run) ColdPhase(first map[string]func()) {
	names := make([]string, 0, len(first))
	for n := range first {
		names = append(names, n)
	}
	sort.Strings(names)
	r.Phase(fmt.Sprintf("cold start: %d scenarios (which library call comes first in a fresh process), each followed by a battery of ordinary cases", len(names)), func() {
		r.Serial(func(w *W) {
			for _, sc := range names {
				r.RunCold(w, sc, false)
				w.EvalRandom(Hash64("cold", sc), true)
			}
		})
	})
}
