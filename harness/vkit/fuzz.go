package vkit

import (
	"encoding/json"
	"fmt"
	"os"
	"path/filepath"
	"sync"
	"testing"
)

var (
	fuzzMu   sync.Mutex
	fuzzRuns = map[string]*Run{}
)

// FuzzW returns a fresh worker accumulator for a native fuzz target of property id (fuzz workers are separate processes
// without a TestCheck run, so a bare Run is created on first use).
func FuzzW(id string) *W {
	fuzzMu.Lock()
	r := fuzzRuns[id]
	if r == nil {
		r = Start(id)
		fuzzRuns[id] = r
	}
	fuzzMu.Unlock()
	return r.NewW()
}

// FuzzReport fails the fuzz execution if the judge recorded a failure in w: the case is written as a JSON replay file
// (usable with ./run <ID> --replay) and a VIOLATION line is part of the failure message, which the driver looks for.
func FuzzReport(t *testing.T, id string, w *W, c any) {
	class, detail, ok := w.FirstFailure()
	if !ok {
		return
	}
	dir := os.Getenv("VERIF_REPLAY_DIR")
	if dir == "" {
		dir = filepath.Join(verifDir(), "replays")
	}
	_ = os.MkdirAll(dir, 0o755)
	cj, _ := json.Marshal(c)
	path := filepath.Join(dir, fmt.Sprintf("%s-fuzz-%s-%016x.json", id, sanitize(class), Hash64(string(cj))))
	body, _ := json.MarshalIndent(map[string]any{"property": id, "class": class, "detail": detail, "case": json.RawMessage(cj), "found_by": "native fuzzing"}, "", " ")
	_ = os.WriteFile(path, body, 0o644)
	t.Fatalf("\nVIOLATION property=%s replay=%s\n  class=%s\n  %s", id, path, class, detail)
}
