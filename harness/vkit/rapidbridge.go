package vkit

import (
	"flag"
	"fmt"
	"os"
	"strconv"
	"testing"

	"pgregory.net/rapid"
)

// RapidSeed maps the run seed (and a stream index) to a non-zero rapid seed (0 means "random" to rapid).
func (r *Run) RapidSeed(stream int) uint64 {
	s := HashU(uint64(r.Seed), 0x7a91d, uint64(stream))
	if s == 0 {
		s = 0x5eed
	}
	return s
}

// RapidCase is what a property function hands back for bookkeeping and replay.
type RapidCase struct {
	Case any    // JSON-serialisable, replayable through the package's judge
	Hash uint64 // for distinctness
	NT   bool   // non-trivial by the property's rule
}

// Rapid runs prop under rapid with the given number of checks. prop must build its case only from rapid draws,
// judge it with w (w.Fail on violation) and return the case. A failing case makes rapid shrink; the final
// (minimal) failing execution is the one recorded in the run.
func (r *Run) Rapid(t *testing.T, name string, stream int, checks int, prop func(rt *rapid.T, w *W) RapidCase) {
	_ = os.RemoveAll("testdata/rapid") // rapid replays these first
	must(flag.Set("rapid.checks", strconv.Itoa(checks)))
	must(flag.Set("rapid.seed", strconv.FormatUint(r.RapidSeed(stream), 10)))
	must(flag.Set("rapid.nofailfile", "true"))
	must(flag.Set("rapid.shrinktime", "20s"))

	acc := r.NewW() // successes
	var lastFail *W // the most recent failing execution (after shrinking: the minimal one)
	executions := 0
	ok := t.Run(name, func(st *testing.T) {
		rapid.Check(st, func(rt *rapid.T) {
			w := r.NewW()
			// panics are not caught here: rapid's own control-flow panics (invalid data, stop test) must
			// propagate; library panics are caught inside the judges (W.Guard).
			rc := prop(rt, w)
			executions++
			if len(w.fails) > 0 {
				lastFail = w
				rt.Fatalf("property violated: %d class(es)", len(w.fails))
			}
			// merge bookkeeping of a passing execution
			if w.evals > 0 { // the property judged several derived inputs itself
				acc.evals += w.evals
				acc.ntEnum += w.ntEnum
			} else {
				acc.evals++
			}
			if rc.NT {
				r.ntSet.add(rc.Hash)
			}
			for k, v := range w.classes {
				acc.classes[k] += v
			}
			for k, v := range w.knownHit {
				acc.knownHit[k] += v
			}
			if len(acc.samples) < 4 && rc.Case != nil && rc.NT {
				acc.samples = append(acc.samples, rc.Case)
			}
		})
	})
	acc.Done()
	if !ok {
		if lastFail != nil {
			lastFail.evals = 1
			lastFail.Done()
		} else {
			w := r.NewW()
			w.Fail(map[string]any{"rapid": name, "seed": r.RapidSeed(stream)}, "rapid-failed-without-case", "rapid reported a failure that the property function did not record (panic inside the generator or harness?); see test output")
			w.Done()
		}
	}
	r.mu.Lock()
	r.allExhaustive = false
	r.mu.Unlock()
}

func must(err error) {
	if err != nil {
		panic(fmt.Sprintf("vkit: %v", err))
	}
}
