// C01: date text round-trip is lossless and canonical.
package c01

import (
	"encoding/json"
	"encoding/xml"
	"errors"
	"fmt"
	"math"
	"strconv"
	"testing"

	"go.lstv.dev/util/date"
	"pgregory.net/rapid"

	"verifharness/ref"
	"verifharness/vkit"
)

// Case: one date in one format under a MaxInputLength setting (-1 = package default 10). Full selects the fmt/JSON/XML paths too.
type Case struct {
	Y     int64 `json:"y"`
	M     int   `json:"m"`
	D     int   `json:"d"`
	Basic bool  `json:"basic"`
	Limit int   `json:"max_input_length"`
	Full  bool  `json:"all_paths"`
	// Setting "failing-formatter": date.Formatter is replaced by a function that always returns an error.
	Setting string `json:"setting,omitempty"`
}

func judgeFailingFormatter(c Case, w *vkit.W) {
	defer func() {
		if p := recover(); p != nil {
			w.Fail(c, "panic", vkit.PanicDetail(p))
		}
	}()
	orig := date.New(int(c.Y), date.Month(c.M), c.D)
	ext, basic := ref.DateText(c.Y, c.M, c.D, false), ref.DateText(c.Y, c.M, c.D, true)
	for _, v := range []struct{ verb, want string }{{"%s", ext}, {"%e", ext}, {"%v", ext}, {"%b", basic}} {
		if got := fmt.Sprintf(v.verb, orig); got != v.want {
			w.Fail(c, "output-not-canonical", fmt.Sprintf("with a failing Formatter, Sprintf(%q) of %d-%d-%d = %q, canonical text is %q", v.verb, c.Y, c.M, c.D, got, v.want))
		}
	}
	if got := orig.String(); got != ext {
		w.Fail(c, "output-not-canonical", fmt.Sprintf("with a failing Formatter, String() of %d-%d-%d = %q, canonical text is %q", c.Y, c.M, c.D, got, ext))
	}
	// MarshalText under a failing Formatter: whether it reports the error or falls back as String does is not part of the
	// statement; if it does produce text, that text must be the canonical one
	if b, err := orig.MarshalText(); err == nil && string(b) != ext {
		w.Fail(c, "output-not-canonical", fmt.Sprintf("with a failing Formatter, MarshalText of %d-%d-%d = %q without an error, canonical text is %q", c.Y, c.M, c.D, b, ext))
	}
}

type (
	S string
	B []byte
)

type holder struct {
	XMLName xml.Name  `xml:"h"`
	A       date.Date `xml:"a,attr"`
	D       date.Date `xml:"d"`
}

type jholder struct {
	D date.Date   `json:"d"`
	P *date.Date  `json:"p"`
	L []date.Date `json:"l"`
}

func same(d date.Date, c Case) bool {
	y, m, dd := d.Date()
	return int64(y) == c.Y && int(m) == c.M && dd == c.D
}

func judge(c Case, w *vkit.W) {
	defer func() {
		if p := recover(); p != nil {
			w.Fail(c, "panic", vkit.PanicDetail(p))
		}
	}()
	orig := date.New(int(c.Y), date.Month(c.M), c.D)
	if c.Setting == "after-custom-hooks" {
		pokeWithCustomHooks(orig)
	}
	if !same(orig, c) {
		y, m, d := orig.Date()
		w.Fail(c, "constructor", fmt.Sprintf("New(%d,%d,%d).Date() = %d-%d-%d", c.Y, c.M, c.D, y, int(m), d))
		return
	}
	want := ref.DateText(c.Y, c.M, c.D, c.Basic)
	ext := ref.DateText(c.Y, c.M, c.D, false)
	f := date.Format(0)
	if c.Basic {
		f = date.FormatBasic
	}
	out := func(path, got string, expect string) {
		if got != expect {
			w.Fail(c, "output-not-canonical", fmt.Sprintf("%s of %d-%d-%d = %q, canonical text is %q", path, c.Y, c.M, c.D, got, expect))
		}
	}
	b, err := date.DefaultFormatter(nil, orig, f)
	if err != nil {
		w.Fail(c, "formatter-error", err.Error())
	}
	out("DefaultFormatter", string(b), want)
	w.RetainBytes(c, "DefaultFormatter(nil)", b, want) // kept as returned until the next date has been formatted
	if !c.Basic {
		mt, err := orig.MarshalText()
		if err != nil {
			w.Fail(c, "formatter-error", err.Error())
		}
		out("MarshalText", string(mt), ext)
		w.RetainBytes(c, "MarshalText", mt, ext)
		if c.Full { // the returned bytes belong to the caller
			if mt2, err := orig.MarshalText(); err == nil {
				w.Owned(c, "MarshalText", mt2, ext, orig.MarshalText)
			}
		}
		str := orig.String()
		out("String", str, ext)
		w.Retain(c, "String", str, ext)
	}
	if c.Full {
		pb, _ := date.DefaultFormatter([]byte("x="), orig, f)
		out("DefaultFormatter(prefix)", string(pb), "x="+want)
		pb, _ = date.DefaultFormatter(append(make([]byte, 0, 64), "date="...), orig, f) // a prefix with room behind it
		out("DefaultFormatter(prefix with spare capacity)", string(pb), "date="+want)
		pb, _ = date.DefaultFormatter([]byte("2020-08-05,"), orig, f) // a buffer that already holds a date
		out("DefaultFormatter(prefix holding a date)", string(pb), "2020-08-05,"+want)
		if b2, err := date.DefaultFormatter(nil, orig, f); err == nil {
			w.Owned(c, "DefaultFormatter(nil)", b2, want, func() ([]byte, error) { return date.DefaultFormatter(nil, orig, f) })
		}
		if c.Basic {
			out("Sprintf(%b)", fmt.Sprintf("%b", orig), want)
		} else {
			out("Sprintf(%s)", fmt.Sprintf("%s", orig), ext)
			out("Sprintf(%e)", fmt.Sprintf("%e", orig), ext)
			out("Sprintf(%v)", fmt.Sprintf("%v", orig), ext)
			out("Sprint", fmt.Sprint(orig), ext)
			// the same verb reaches the value inside containers and through the other print functions
			out("Sprintf(%+v)", fmt.Sprintf("%+v", orig), ext)
			// a width no larger than the text asks for no padding under any reading of the verbs
			// every flag of the verbs: the type writes its text itself (it implements fmt.Formatter), whatever the flags say
			out("Sprintf(%#v)", fmt.Sprintf("%#v", orig), ext)
			out("Sprintf(%#s)", fmt.Sprintf("%#s", orig), ext)
			out("Sprintf(% v)", fmt.Sprintf("% v", orig), ext)
			out("Sprintf(%010v)", fmt.Sprintf("%010v", orig), ext)
			out("Sprintf(%.3s)", fmt.Sprintf("%.3s", orig), ext)
			out("Sprintf(%#b)", fmt.Sprintf("%#b", orig), ref.DateText(c.Y, c.M, c.D, true))
			out("Sprintf(%+e)", fmt.Sprintf("%+e", orig), ext)
			out("Sprintf(%10v)", fmt.Sprintf("%10v", orig), ext)
			out("Sprintf(%1s)", fmt.Sprintf("%1s", orig), ext)
			out("Sprintf(%-10v)", fmt.Sprintf("%-10v", orig), ext)
			out("Sprintf(%8b)", fmt.Sprintf("%8b", orig), ref.DateText(c.Y, c.M, c.D, true))
			out("Sprintln", fmt.Sprintln(orig), ext+"\n")
			out("Sprintf(%v) of a slice", fmt.Sprintf("%v", []date.Date{orig, orig}), "["+ext+" "+ext+"]")
			out("Sprintf(%v) of a struct", fmt.Sprintf("%v", struct{ D date.Date }{orig}), "{"+ext+"}")
			out("Sprintf(%+v) of a struct", fmt.Sprintf("%+v", struct{ D date.Date }{orig}), "{D:"+ext+"}")
			out("Sprintf(%s) of a map", fmt.Sprintf("%s", map[string]date.Date{"k": orig}), "map[k:"+ext+"]")
			out("Sprintf(%v) of an interface value", fmt.Sprintf("%v|%s", any(orig), fmt.Stringer(orig)), ext+"|"+ext)
			out("Sprintf(%b) of a slice", fmt.Sprintf("%b", []date.Date{orig}), "["+ref.DateText(c.Y, c.M, c.D, true)+"]")
			jb, err := json.Marshal(jholder{D: orig, P: &orig, L: []date.Date{orig}})
			if err != nil {
				w.Fail(c, "formatter-error", "json.Marshal: "+err.Error())
			}
			out("json.Marshal", string(jb), `{"d":"`+ext+`","p":"`+ext+`","l":["`+ext+`"]}`)
			// a date is also a valid JSON object key (encoding/json uses the text form for keys)
			kb, err := json.Marshal(map[date.Date]int{orig: 1})
			if err != nil {
				w.Fail(c, "formatter-error", "json.Marshal of a map keyed by the date: "+err.Error())
			}
			out("json.Marshal(map key)", string(kb), `{"`+ext+`":1}`)
			xb, err := xml.Marshal(holder{A: orig, D: orig})
			if err != nil {
				w.Fail(c, "formatter-error", "xml.Marshal: "+err.Error())
			}
			out("xml.Marshal", string(xb), `<h a="`+ext+`"><d>`+ext+`</d></h>`)
		}
	}

	// input paths: the canonical text (all output paths equal it, so this covers the output x input product)
	limit := c.Limit
	if limit < 0 {
		limit = 10
	}
	fits := limit == 0 || len(want) <= limit
	in := func(path string, got date.Date, err error) {
		if fits {
			if err != nil {
				w.Fail(c, "canonical-text-rejected", fmt.Sprintf("%s(%q) (limit %d): %v", path, want, limit, err))
			} else if !same(got, c) || !got.Equal(orig) || !orig.Equal(got) {
				y, m, d := got.Date()
				w.Fail(c, "round-trip-differs", fmt.Sprintf("%s(%q) = %d-%d-%d, want %d-%d-%d", path, want, y, int(m), d, c.Y, c.M, c.D))
			}
			return
		}
		if !errors.Is(err, date.ErrInputTooLong) {
			w.Fail(c, "limit-not-enforced", fmt.Sprintf("%s(%q) with MaxInputLength=%d: error %v", path, want, limit, err))
		} else if !got.Equal(date.Date{}) {
			w.Fail(c, "nonzero-result-with-error", fmt.Sprintf("%s(%q): %v with result %v", path, want, err, got))
		}
	}
	var got date.Date
	var err2 error
	if w.Flip() {
		got, err2 = date.DefaultParser(want, 0)
		in("DefaultParser[string]", got, err2)
		got, err2 = date.DefaultParser(w.Scratch(want), 0) // a reused caller buffer
		in("DefaultParser[[]byte]", got, err2)
	} else {
		got, err2 = date.DefaultParser(w.Scratch(want), 0)
		in("DefaultParser[[]byte]", got, err2)
		got, err2 = date.DefaultParser(want, 0)
		in("DefaultParser[string]", got, err2)
	}
	var u date.Date
	err = u.UnmarshalText(w.Scratch(want))
	in("UnmarshalText", u, err)
	if !c.Basic {
		got, err = date.DefaultParser(want, date.RuleDisableBasic)
		in("DefaultParser[string](RuleDisableBasic)", got, err)
	}
	if c.Full {
		got, err = date.DefaultParser(S(want), 0)
		in("DefaultParser[named string]", got, err)
		got, err = date.DefaultParser(B(w.Scratch(want)), 0)
		in("DefaultParser[named []byte]", got, err)
		var jh jholder
		err = json.Unmarshal([]byte(`{"d":"`+want+`","p":"`+want+`","l":["`+want+`"]}`), &jh)
		in("json.Unmarshal(field)", jh.D, err)
		if err == nil && fits {
			if jh.P == nil || len(jh.L) != 1 {
				w.Fail(c, "round-trip-differs", "json.Unmarshal lost the pointer or slice element")
			} else {
				in("json.Unmarshal(pointer)", *jh.P, nil)
				in("json.Unmarshal(slice)", jh.L[0], nil)
			}
		}
		var km map[date.Date]int
		err = json.Unmarshal([]byte(`{"`+want+`":1}`), &km)
		var kd date.Date
		for k := range km {
			kd = k
		}
		in("json.Unmarshal(map key)", kd, err)
		var xh holder
		err = xml.Unmarshal([]byte(`<h a="`+want+`"><d>`+want+`</d></h>`), &xh)
		in("xml.Unmarshal(element)", xh.D, err)
		if err == nil {
			in("xml.Unmarshal(attribute)", xh.A, nil)
		}
	}
}

// pokeWithCustomHooks replaces the package-level Formatter and Parser by functions that succeed with other results, sends
// d through every path that consults them, and puts the default functions back: the hooks are settings, and what was
// produced under one setting must not be handed out under the next.
func pokeWithCustomHooks(d date.Date) {
	oldF, oldP := date.Formatter, date.Parser
	defer func() { date.Formatter, date.Parser = oldF, oldP }()
	date.Formatter = func(buf []byte, d date.Date, f date.Format) ([]byte, error) {
		return append(buf, "custom<"+strconv.Itoa(d.Year())+"/"+strconv.Itoa(d.Day())+">"...), nil
	}
	date.Parser = func(input []byte, r date.Rule) (date.Date, error) { return date.New(1666, 6, 6), nil }
	_ = d.String()
	_ = fmt.Sprintf("%s %e %b %v", d, d, d, d)
	_, _ = d.MarshalText()
	_, _ = json.Marshal(jholder{D: d, P: &d, L: []date.Date{d}})
	_, _ = xml.Marshal(holder{A: d, D: d})
	var u date.Date
	text := ref.DateText(int64(d.Year()), int(d.Month()), d.Day(), false)
	_ = u.UnmarshalText([]byte(text))
	_ = json.Unmarshal([]byte(`{"d":"`+text+`"}`), &jholder{})
	_ = u.Scan(text)
	// second stage: a Formatter that fails (after writing something), used once, before the defaults come back
	date.Formatter = func(buf []byte, d date.Date, f date.Format) ([]byte, error) {
		return append(buf, "part"...), errors.New("formatter refused")
	}
	_ = d.String()
	_ = fmt.Sprintf("%s %b", d, d)
	_, _ = d.MarshalText()
}

// judgeParsingUnderFormatter: the canonical texts of the date through the input paths (the caller has installed a custom
// package-level Formatter; see phase A5).
func judgeParsingUnderFormatter(c Case, w *vkit.W) {
	defer func() {
		if p := recover(); p != nil {
			w.Fail(c, "panic", vkit.PanicDetail(p))
		}
	}()
	y, m, d := c.Y, c.M, c.D
	orig := date.New(int(y), date.Month(m), d)
	for _, basic := range []bool{false, true} {
		text := ref.DateText(y, m, d, basic)
		check := func(path string, got date.Date, err error) {
			if err != nil || !got.Equal(orig) {
				w.Fail(c, "canonical-text-rejected", fmt.Sprintf("%s(%q) while a custom Formatter is installed = %v, %v", path, text, got, err))
			}
		}
		got, err := date.DefaultParser(text, 0)
		check("DefaultParser[string]", got, err)
		got, err = date.DefaultParser(w.Scratch(text), 0)
		check("DefaultParser[[]byte]", got, err)
		var u date.Date
		err = u.UnmarshalText(w.Scratch(text))
		check("UnmarshalText", u, err)
		// the same text as a JSON string whose first and fifth characters are written as escapes
		esc := fmt.Sprintf(`"\u%04x%s\u%04x%s"`, text[0], text[1:4], text[4], text[5:])
		var j date.Date
		err = json.Unmarshal([]byte(esc), &j)
		check("json.Unmarshal("+esc+")", j, err)
	}
}

func installBasicOnlyFormatter() func() {
	old := date.Formatter
	date.Formatter = func(buf []byte, d date.Date, f date.Format) ([]byte, error) {
		return date.DefaultFormatter(buf, d, date.FormatBasic)
	}
	return func() { date.Formatter = old }
}

func setLimit(n int) func() {
	old := date.MaxInputLength
	if n >= 0 {
		date.MaxInputLength = n
	}
	return func() { date.MaxInputLength = old }
}

var suiteDates = map[[3]int64]bool{{2022, 8, 7}: true, {1, 1, 1}: true, {2006, 1, 2}: true, {2022, 1, 5}: true}

func boundary(y int64, m, d int) bool {
	switch y {
	case 0, 1, 4, 100, 400, 999, 1000, 1582, 1600, 1900, 1999, 2000, 2001, 2100, 9999:
		return true
	}
	return d == 1 || d >= 28 && d == ref.DaysIn(y, m) || (m == 2 && d >= 28)
}

func TestCheck(t *testing.T) {
	r := vkit.Start("C01")
	defer r.Finish(t)
	if r.Replay != "" {
		var c Case
		if err := r.LoadReplay(&c); err != nil {
			t.Fatalf("replay: %v", err)
		}
		defer setLimit(c.Limit)()
		if c.Setting == "failing-formatter" {
			old := date.Formatter
			defer func() { date.Formatter = old }()
			date.Formatter = func(buf []byte, d date.Date, f date.Format) ([]byte, error) {
				if d.Day()%2 == 0 { // a formatter that fails half-way has already written something
					return append(buf, "partial "...), errors.New("formatter refused")
				}
				return nil, errors.New("formatter refused")
			}
			r.Serial(func(w *vkit.W) { judgeFailingFormatter(c, w); w.Eval(true) })
			return
		}
		if c.Setting == "custom-formatter-while-parsing" {
			defer installBasicOnlyFormatter()()
			r.Serial(func(w *vkit.W) { judgeParsingUnderFormatter(c, w); w.Eval(true) })
			return
		}
		r.Serial(func(w *vkit.W) { judge(c, w); w.Eval(true) })
		return
	}
	r.Rule("Cases are (date, format, MaxInputLength, path set). Every output path (DefaultFormatter into nil and into a prefix, MarshalText, String, %s %e %b %v, json.Marshal of field/pointer/slice, xml.Marshal as element and attribute) must equal the text built by an independent zero-padder; " +
		"that text is then fed to every input path (DefaultParser on string, []byte, named string, named []byte, with and without RuleDisableBasic, UnmarshalText, json.Unmarshal, xml.Unmarshal element/attribute), which must return the original date (or ErrInputTooLong and a zero date when the text exceeds the configured limit). " +
		"Non-trivial: dates other than the ones the unit tests use. Distinct by (day ordinal, format) for the enumeration, by hash for long years.")
	r.Regress(func(raw json.RawMessage, w *vkit.W) error {
		var c Case
		if err := json.Unmarshal(raw, &c); err != nil {
			return err
		}
		defer setLimit(c.Limit)()
		judge(c, w)
		w.Eval(true)
		return nil
	})

	total := ref.OrdEnd - ref.Ord0 + 1
	r.Extra("dates_in_years_0000_9999", total)
	r.Phase(fmt.Sprintf("A: all %d dates of years 0000-9999 x {extended, basic}", total), func() {
		r.Parallel(total, 4096, func(w *vkit.W, lo, hi int64) {
			for i := lo; i < hi; i++ {
				y, m, d := ref.CivilFromDays(ref.Ord0 + i)
				full := r.Thorough() || boundary(y, m, d) || vkit.HashU(uint64(i), uint64(r.Seed))%64 == 0
				nt := !suiteDates[[3]int64{y, int64(m), int64(d)}]
				for _, basic := range []bool{false, true} {
					c := Case{Y: y, M: m, D: d, Basic: basic, Limit: -1, Full: full}
					judge(c, w)
					w.Eval(nt)
					if full {
						w.Class("A_dates_through_all_paths")
					}
				}
				if m == 2 && d == 29 && y%100 == 0 && w.WantSample() {
					w.Sample(Case{Y: y, M: m, D: d, Basic: true, Limit: -1, Full: true})
				}
			}
		})
	})
	if r.Thorough() {
		r.Exhaustive("every date of years 0000-9999 x {extended, basic} through every output and input path (default settings)")
	} else {
		r.Exhaustive("every date of years 0000-9999 x {extended, basic} through DefaultFormatter, MarshalText, String, DefaultParser[string|[]byte], RuleDisableBasic, UnmarshalText; the fmt/JSON/XML/named-type paths on all boundary dates (years 0,1,4,100,400,999,1000,1582,1600,1900,1999-2001,2100,9999; every first/last day of a month; every 28-29 Feb) and a seeded 1/64 sample")
	}

	// Phase A2: the package-level Formatter is a setting. With a Formatter that fails, String and the fmt verbs fall back to
	// the default formatter (documented for String) and must still produce the canonical text of the requested format;
	// MarshalText may report the error, but must not produce other text.
	r.Phase("A2: String and the fmt verbs with a failing package-level Formatter (documented fallback), boundary dates", func() {
		old := date.Formatter
		defer func() { date.Formatter = old }()
		date.Formatter = func(buf []byte, d date.Date, f date.Format) ([]byte, error) {
			if d.Day()%2 == 0 { // a formatter that fails half-way has already written something
				return append(buf, "partial "...), errors.New("formatter refused")
			}
			return nil, errors.New("formatter refused")
		}
		r.Serial(func(w *vkit.W) {
			for i := int64(0); i < total; i += 97 {
				y, m, d := ref.CivilFromDays(ref.Ord0 + i)
				c := Case{Y: y, M: m, D: d, Limit: -1, Setting: "failing-formatter"}
				judgeFailingFormatter(c, w)
				w.Eval(true)
			}
		})
	})

	// Phase A3: the package-level Formatter and Parser are replaced by functions that succeed with other results, used, and
	// put back: afterwards every path must again produce and read the canonical text.
	r.Phase("A3: every path again right after custom package-level Formatter/Parser functions were installed, used and removed", func() {
		r.Serial(func(w *vkit.W) {
			for i := int64(0); i < total; i += 211 {
				y, m, d := ref.CivilFromDays(ref.Ord0 + i)
				for _, basic := range []bool{false, true} {
					c := Case{Y: y, M: m, D: d, Basic: basic, Limit: -1, Full: true, Setting: "after-custom-hooks"}
					judge(c, w)
					w.Eval(true)
				}
			}
		})
	})

	// Phase A4: a date and, right after it, the dates whose year differs by a multiple of 2^8, 2^16, 2^24 (same month and day, and
	// the day after): whatever is remembered about the previous date must not be taken for this one.
	r.Phase("A4: each of 3000 dates followed immediately by the dates whose year is larger by 256, 65536, 2 x 65536, 2^24, 10000, 100000 (limit disabled)", func() {
		defer setLimit(0)()
		r.Parallel(3000, 32, func(w *vkit.W, lo, hi int64) {
			for i := lo; i < hi; i++ {
				y, m, d := ref.CivilFromDays(ref.Ord0 + i*1217)
				for _, sh := range []int64{256, 65536, 131072, 1 << 24, 10000, 100000} {
					for _, basic := range []bool{false, true} {
						judge(Case{Y: y, M: m, D: d, Basic: basic, Limit: 0}, w)
						dd := d
						if dd > ref.DaysIn(y+sh, m) {
							dd = ref.DaysIn(y+sh, m)
						}
						c := Case{Y: y + sh, M: m, D: dd, Basic: basic, Limit: 0, Full: i%8 == 0}
						judge(c, w)
						w.EvalRandom(vkit.HashU(uint64(y+sh), uint64(m*32+dd), 7, b2u(basic)), true)
					}
				}
			}
		})
	})

	// Phase A5: what the input paths accept does not depend on how dates are printed: a custom package-level Formatter that
	// always prints the basic form is installed while canonical texts (also spelled with JSON escapes) are read.
	r.Phase("A5: every input path while a custom package-level Formatter (always the basic form) is installed; JSON strings spelled with escapes", func() {
		defer installBasicOnlyFormatter()()
		r.Serial(func(w *vkit.W) {
			for i := int64(0); i < total; i += 1009 {
				y, m, d := ref.CivilFromDays(ref.Ord0 + i)
				judgeParsingUnderFormatter(Case{Y: y, M: m, D: d, Limit: -1, Setting: "custom-formatter-while-parsing"}, w)
				w.Eval(true)
			}
		})
	})

	// long years under raised/disabled limits (globals are set sequentially per limit; workers only read)
	nLong := int64(r.Pick(40000, 2000000))
	for _, lim := range []int{0, 11, 12, 13, 14, 15, 16, math.MaxInt, math.MaxInt - 63, math.MaxInt32, 10} { // incl. "practically unlimited" settings
		lim := lim
		r.Phase(fmt.Sprintf("B: %d seeded dates with 5-9 digit years, MaxInputLength=%d", nLong, lim), func() {
			defer setLimit(lim)()
			r.Parallel(nLong, 2048, func(w *vkit.W, lo, hi int64) {
				for i := lo; i < hi; i++ {
					g := r.Rng("long", i)
					digits := 5 + g.Intn(5)
					pow := int64(1)
					for k := 1; k < digits; k++ {
						pow *= 10
					}
					var y int64
					switch g.Intn(4) {
					case 0:
						y = pow // 10^(k-1)
					case 1:
						y = pow*10 - 1 // 10^k - 1
					default:
						y = pow + g.Range(0, pow*9-1)
					}
					if g.Intn(5) == 0 {
						y = y / 4 * 4
						if y < pow {
							y += 4
						}
					}
					m := 1 + g.Intn(12)
					d := 1 + g.Intn(ref.DaysIn(y, m))
					if g.Intn(4) == 0 {
						d = ref.DaysIn(y, m)
					}
					c := Case{Y: y, M: m, D: d, Basic: g.Bool(), Limit: lim, Full: i%4 == 0}
					judge(c, w)
					w.EvalRandom(vkit.HashU(uint64(y), uint64(m*32+d), uint64(lim), b2u(c.Basic)), true)
					if w.WantSample() && digits == 9 {
						w.Sample(c)
					}
				}
			})
		})
	}
	r.Sampled()

	r.Phase("C: rapid long years x limits", func() {
		r.Rapid(t, "rapid-long-years", 0, r.Pick(5000, 200000), func(rt *rapid.T, w *vkit.W) vkit.RapidCase {
			digits := rapid.IntRange(4, 9).Draw(rt, "digits")
			lo, hi := int64(1), int64(10)
			for k := 1; k < digits; k++ {
				lo, hi = lo*10, hi*10
			}
			if digits == 4 {
				lo = 0
			}
			y := rapid.Int64Range(lo, hi-1).Draw(rt, "year")
			m := rapid.IntRange(1, 12).Draw(rt, "month")
			c := Case{Y: y, M: m, D: rapid.IntRange(1, ref.DaysIn(y, m)).Draw(rt, "day"), Basic: rapid.Bool().Draw(rt, "basic"),
				Limit: rapid.SampledFrom([]int{0, 11, 12, 13, 14, 15, -1, 8, 9}).Draw(rt, "limit"), Full: true}
			defer setLimit(c.Limit)()
			judge(c, w)
			return vkit.RapidCase{Case: c, Hash: vkit.HashU(uint64(y), uint64(m*32+c.D), uint64(c.Limit+1), b2u(c.Basic)), NT: true}
		})
	})
}

func b2u(b bool) uint64 {
	if b {
		return 1
	}
	return 0
}
