// C15: the date range filter contains exactly the inclusive interval.
package c15

import (
	"encoding/json"
	"errors"
	"fmt"
	"testing"
	"time"

	"go.lstv.dev/util/date"
	"pgregory.net/rapid"

	"verifharness/ref"
	"verifharness/vkit"
)

// YMD is a calendar date.
type YMD struct {
	Y int64 `json:"y"`
	M int   `json:"m"`
	D int   `json:"d"`
}

// Case: optional bounds and a list of probes; after construction the caller's bound variables are overwritten with Scribble.
type Case struct {
	From     *YMD  `json:"from"`
	To       *YMD  `json:"to"`
	Probes   []YMD `json:"probes"`
	Scribble YMD   `json:"scribble"`
	// Reused: the bound and probe values are not made by New but written over variables that held other dates before
	// (method form of FromTime; the zero date through the zero time).
	Reused bool `json:"values_written_over_used_variables,omitempty"`
}

func (v YMD) reused() date.Date {
	d := date.New(int(v.Y%3000)+2500, date.Month(1+(v.M+4)%12), 1+(v.D+9)%28)
	if (v == YMD{1, 1, 1}) {
		d.FromTime(time.Time{})
	} else {
		d.FromTime(time.Date(int(v.Y), time.Month(v.M), v.D, 6, 0, 0, 0, time.UTC))
	}
	return d
}

func (c Case) mk(v YMD) date.Date {
	if c.Reused && v.Y > -100000000 && v.Y < 100000000 {
		return v.reused()
	}
	return v.date()
}

func (v YMD) ord() int64      { return ref.DaysFromCivil(v.Y, v.M, v.D) }
func (v YMD) date() date.Date { return date.New(int(v.Y), date.Month(v.M), v.D) }

func judge(c Case, w *vkit.W) {
	defer func() {
		if p := recover(); p != nil {
			w.Fail(c, "panic", vkit.PanicDetail(p))
		}
	}()
	var fromVar, toVar date.Date
	var fp, tp *date.Date
	if c.From != nil {
		fromVar = c.mk(*c.From)
		fp = &fromVar
	}
	if c.To != nil {
		toVar = c.mk(*c.To)
		tp = &toVar
	}
	f, err := date.FilterFromTo(fp, tp)
	wantErr := c.From != nil && c.To != nil && c.From.ord() > c.To.ord()
	if wantErr {
		if !errors.Is(err, date.ErrInvalidFromOrTo) {
			w.Fail(c, "invalid-bounds-accepted", fmt.Sprintf("FilterFromTo(%v, %v): lower bound is after the upper bound, error = %v", c.From, c.To, err))
		}
		if f != nil {
			w.Fail(c, "filter-with-error", fmt.Sprintf("FilterFromTo(%v, %v) returned a filter together with the error", c.From, c.To))
		}
		return
	}
	if err != nil || f == nil {
		w.Fail(c, "valid-bounds-rejected", fmt.Sprintf("FilterFromTo(%v, %v) = %v, %v", c.From, c.To, f, err))
		return
	}
	check := func(stage string) {
		// every probe is asked twice in a row, and the whole list once more in reverse order: the answer depends on the date
		// alone, not on what was asked before
		for round := 0; round < 2; round++ {
			for i := range c.Probes {
				p := c.Probes[i]
				if round == 1 {
					p = c.Probes[len(c.Probes)-1-i]
				}
				want := (c.From == nil || c.From.ord() <= p.ord()) && (c.To == nil || p.ord() <= c.To.ord())
				for rep := 0; rep < 2; rep++ {
					if got := f.Contains(c.mk(p)); got != want {
						w.Fail(c, "contains", fmt.Sprintf("%s: filter[%v, %v].Contains(%v) = %v (ask %d of this date, pass %d), the inclusive interval says %v", stage, c.From, c.To, p, got, rep+1, round+1, want))
					}
				}
			}
		}
	}
	check("fresh")
	// the caller's variables change afterwards; the filter must keep the bounds it was built with
	fromVar, toVar = c.Scribble.date(), c.Scribble.date()
	if fp != nil {
		*fp = c.Scribble.date()
	}
	shift := int64(-3)
	if c.Scribble.D%2 == 1 {
		shift = 5
	}
	if tp != nil {
		*tp = c.Scribble.date().Add(0, 0, int(shift))
	}
	check("after the caller overwrote its bound variables")

	// second construction from the very same variables, which now hold other bounds: a fresh filter for the new bounds
	var from2, to2 *YMD
	if fp != nil {
		v := c.Scribble
		from2 = &v
	}
	if tp != nil {
		y, m, d := ref.CivilFromDays(c.Scribble.ord() + shift)
		to2 = &YMD{y, m, d}
	}
	f2, err2 := date.FilterFromTo(fp, tp)
	wantErr2 := from2 != nil && to2 != nil && from2.ord() > to2.ord()
	if wantErr2 {
		if !errors.Is(err2, date.ErrInvalidFromOrTo) || f2 != nil {
			w.Fail(c, "invalid-bounds-accepted", fmt.Sprintf("second FilterFromTo on the same variables, now (%v, %v): filter %v, error %v", from2, to2, f2, err2))
		}
		return
	}
	if err2 != nil || f2 == nil {
		w.Fail(c, "valid-bounds-rejected", fmt.Sprintf("second FilterFromTo on the same variables, now (%v, %v) = %v, %v", from2, to2, f2, err2))
		return
	}
	for _, p := range c.Probes {
		want := (from2 == nil || from2.ord() <= p.ord()) && (to2 == nil || p.ord() <= to2.ord())
		if got := f2.Contains(c.mk(p)); got != want {
			w.Fail(c, "contains", fmt.Sprintf("filter rebuilt from the same variables, now [%v, %v].Contains(%v) = %v, the inclusive interval says %v", from2, to2, p, got, want))
		}
	}
	// and the first filter still has its own bounds
	check("after a second filter was built from the same variables")
}

func window(size int) []YMD {
	// consecutive days around interesting boundaries
	centers := []YMD{{2020, 2, 29}, {2019, 12, 31}, {2021, 3, 1}, {1900, 2, 28}, {2000, 2, 29}, {0, 12, 31}, {9999, 12, 30}, {2020, 8, 10}, {2019, 8, 20}, {2021, 8, 3}, {1, 1, 1}}
	var out []YMD
	seen := map[YMD]bool{}
	per := size / len(centers)
	if per < 2 {
		per = 2
	}
	for _, c := range centers {
		for k := -per / 2; k < per-per/2; k++ {
			o := c.ord() + int64(k)
			if o < ref.Ord0 || o > ref.OrdEnd {
				continue
			}
			y, m, d := ref.CivilFromDays(o)
			v := YMD{y, m, d}
			if !seen[v] {
				seen[v] = true
				out = append(out, v)
			}
		}
	}
	return out
}

func nontrivial(c Case) bool {
	if c.From != nil && c.To != nil && (c.From.M != c.To.M || c.From.Y != c.To.Y) {
		return true
	}
	for _, p := range c.Probes {
		for _, b := range []*YMD{c.From, c.To} {
			if b != nil && (b.Y == p.Y || b.M == p.M || b.D == p.D) {
				return true
			}
		}
	}
	return false
}

func TestCheck(t *testing.T) {
	r := vkit.Start("C15")
	defer r.Finish(t)
	if r.ReplayCold() {
		return
	}
	if r.Replay != "" {
		var c Case
		if err := r.LoadReplay(&c); err != nil {
			t.Fatalf("replay: %v", err)
		}
		r.Serial(func(w *vkit.W) { judge(c, w); w.Eval(true) })
		return
	}
	r.Rule("Cases are (optional lower bound, optional upper bound, probes). Oracle on day ordinals: construction fails with ErrInvalidFromOrTo (and a nil filter) iff both bounds are given and lower > upper; otherwise Contains(p) iff (no lower or lower <= p) and (no upper or p <= upper), also after the caller's bound variables have been overwritten. " +
		"Non-trivial: bounds in different months/years, or a probe sharing a field with a bound. Distinct by construction (window triples) or by hash.")
	r.Regress(func(raw json.RawMessage, w *vkit.W) error {
		var c Case
		if err := json.Unmarshal(raw, &c); err != nil {
			return err
		}
		judge(c, w)
		w.Eval(true)
		return nil
	})
	win := window(r.Pick(220, 600))
	n := int64(len(win))
	r.Phase(fmt.Sprintf("A: all (from, to) pairs x every probe over a %d-date window x the four nil/non-nil shapes", n), func() {
		r.Parallel(n*n, 4, func(w *vkit.W, lo, hi int64) {
			for k := lo; k < hi; k++ {
				from, to := win[k/n], win[k%n]
				shapes := []int{3}
				if k%n == 0 {
					shapes = append(shapes, 1) // lower bound only: depends on from alone
				}
				if k/n == 0 {
					shapes = append(shapes, 2) // upper bound only
				}
				if k == 0 {
					shapes = append(shapes, 0)
				}
				for _, shape := range shapes {
					c := Case{Probes: win, Scribble: win[(k*7+int64(shape))%n]}
					if shape&1 != 0 {
						f := from
						c.From = &f
					}
					if shape&2 != 0 {
						tt := to
						c.To = &tt
					}
					judge(c, w)
					w.EvalN(n, n) // one evaluation per probe; every probe of the window shares a field with some bound
					if shape == 3 && from.Y != to.Y && w.WantSample() {
						s := c
						s.Probes = win[:3]
						w.Sample(s)
					}
				}
			}
		})
	})
	r.Exhaustive(fmt.Sprintf("all (from, to, probe) triples over the %d-date window (day, month, year and leap boundaries; same month number in different years) x the four nil/non-nil shapes, with caller-variable overwrite", n))

	r.Phase("A2: for every year 0..9998: bounds and probes around the year boundary and around the end of February", func() {
		r.Parallel(9999, 64, func(w *vkit.W, lo, hi int64) {
			for y := lo; y < hi; y++ {
				feb := ref.DaysIn(y, 2)
				pts := []YMD{{y, 12, 30}, {y, 12, 31}, {y + 1, 1, 1}, {y + 1, 1, 2}, {y, 2, feb}, {y, 3, 1}, {y, 2, feb - 1}}
				for i := range pts {
					for j := range pts {
						f, t := pts[i], pts[j]
						c := Case{From: &f, To: &t, Probes: pts, Scribble: pts[(i+j)%len(pts)]}
						judge(c, w)
						w.EvalN(int64(len(pts)), int64(len(pts)))
					}
					b := pts[i]
					judge(Case{From: &b, Probes: pts, Scribble: pts[0]}, w)
					judge(Case{To: &b, Probes: pts, Scribble: pts[1]}, w)
					w.EvalN(2*int64(len(pts)), 2*int64(len(pts)))
				}
			}
		})
	})
	r.Exhaustive("for every year 0..9998: all (from, to, probe) triples over the seven dates around its year end and its end of February, plus one-sided filters")

	r.Phase("A3: every (from, to) pair over all days of a leap year and the following year (both bounds and one-sided), probes at the bounds' neighbours and at the year's corners", func() {
		var days []YMD
		for _, y := range []int64{2024, 2025} {
			for m := 1; m <= 12; m++ {
				for d := 1; d <= ref.DaysIn(y, m); d++ {
					days = append(days, YMD{y, m, d})
				}
			}
		}
		nd := int64(len(days))
		corners := []YMD{{2024, 1, 1}, {2024, 1, 2}, {2024, 2, 1}, {2024, 2, 2}, {2024, 2, 29}, {2024, 12, 31}, {2025, 1, 1}, {2025, 2, 1}, {2025, 2, 2}, {2025, 12, 31}, {2023, 12, 31}, {2026, 1, 1}}
		r.Parallel(nd*nd, nd, func(w *vkit.W, lo, hi int64) {
			for k := lo; k < hi; k++ {
				f, t := days[k/nd], days[k%nd]
				probes := append([]YMD{}, corners...)
				for _, b := range []YMD{f, t} {
					for _, dd := range []int64{-1, 0, 1} {
						y, m, d := ref.CivilFromDays(b.ord() + dd)
						probes = append(probes, YMD{y, m, d})
					}
				}
				c := Case{From: &f, To: &t, Probes: probes, Scribble: days[(k*31)%nd]}
				judge(c, w)
				w.EvalN(int64(len(probes)), int64(len(probes)))
			}
		})
	})
	r.Exhaustive("all (from, to) pairs over the 731 days of 2024-2025 with probes at the bounds' neighbours and the years' corners")

	r.Phase("A4: extreme years (beyond 9999, negative, near the int32 limits) as bounds and probes, all four shapes", func() {
		ys := []int64{-2147483647, -2000000000, -1500000000, -1000000000, -999999999, -20000, -10000, -9999, -401, -400, -1, 0, 1, 9999, 10000, 10001, 20000, 999999999, 1000000000, 1500000000, 2000000000, 2147483646}
		var pts []YMD
		for _, y := range ys {
			pts = append(pts, YMD{y, 1, 1}, YMD{y, 12, 31}, YMD{y, 6, 15})
		}
		np := int64(len(pts))
		r.Parallel(np*np, np, func(w *vkit.W, lo, hi int64) {
			for k := lo; k < hi; k++ {
				f, t := pts[k/np], pts[k%np]
				for shape := 1; shape <= 3; shape++ {
					c := Case{Probes: pts, Scribble: pts[(k*7)%np]}
					if shape&1 != 0 {
						ff := f
						c.From = &ff
					}
					if shape&2 != 0 {
						tt := t
						c.To = &tt
					}
					if shape != 3 && k%np != 0 && shape == 1 || shape == 2 && k/np != 0 {
						continue
					}
					judge(c, w)
					w.EvalN(np, np)
				}
			}
		})
	})

	// Phase A5: probes whose year is an alias of a year inside (or just outside) the interval modulo 2^8, 2^16, 2^24 or 2^31-ish:
	// a filter that keeps or compares years in a narrower type takes them for the year they alias.
	r.Phase("A5: intervals of 0-40 years probed with dates whose year differs from an inside / outside year by a multiple of 256, 65536, 2^24, 2^31", func() {
		bounds := [][2]YMD{{{2000, 3, 15}, {2010, 3, 15}}, {{2000, 3, 15}, {2000, 9, 1}}, {{1999, 12, 31}, {2001, 1, 1}}, {{-5, 6, 1}, {30, 6, 1}}, {{9990, 1, 1}, {9999, 12, 31}}, {{2024, 2, 29}, {2024, 2, 29}}, {{100, 1, 1}, {140, 12, 31}}, {{65530, 1, 1}, {65540, 1, 1}}, {{-32770, 5, 5}, {-32760, 5, 5}}}
		shifts := []int64{0, 256, -256, 512, 65536, -65536, 131072, 3 * 65536, 1 << 24, -(1 << 24), 1 << 31, -(1 << 31), 1<<31 - 65536, 1<<32 - 65536}
		r.Parallel(int64(len(bounds)), 1, func(w *vkit.W, lo, hi int64) {
			for bi := lo; bi < hi; bi++ {
				f, t := bounds[bi][0], bounds[bi][1]
				var probes []YMD
				for _, base := range []YMD{f, t, {f.Y, 7, 1}, {(f.Y + t.Y) / 2, 7, 1}, {t.Y, 1, 1}, {f.Y - 1, 7, 1}, {t.Y + 1, 7, 1}, {f.Y, 1, 1}, {t.Y, 12, 31}} {
					for _, sh := range shifts {
						y := base.Y + sh
						if y < -2147483647 || y > 2147483646 {
							continue
						}
						d := base.D
						if d > ref.DaysIn(y, base.M) {
							d = ref.DaysIn(y, base.M)
						}
						probes = append(probes, YMD{y, base.M, d})
					}
				}
				for shape := 1; shape <= 3; shape++ {
					c := Case{Probes: probes, Scribble: probes[bi]}
					if shape&1 != 0 {
						ff := f
						c.From = &ff
					}
					if shape&2 != 0 {
						tt := t
						c.To = &tt
					}
					judge(c, w)
					w.EvalN(int64(len(probes)), int64(len(probes)))
				}
			}
		})
	})

	// Phase A6: probes whose distance in days from the lower bound is an alias of a distance inside the interval modulo 2^8, 2^16,
	// 2^32, and the first and last representable dates as bounds and probes.
	r.Phase("A6: intervals of 0..300 days probed at the bounds plus k x 256 / 65536 days (+-2), and the first / last representable dates as bounds and probes", func() {
		lows := []YMD{{2020, 1, 1}, {2019, 12, 15}, {2024, 2, 29}, {1, 1, 1}, {9999, 1, 1}, {-1, 12, 31}}
		r.Parallel(int64(len(lows)), 1, func(w *vkit.W, lo, hi int64) {
			for li := lo; li < hi; li++ {
				f := lows[li]
				for _, span := range []int64{0, 1, 30, 31, 127, 128, 254, 255, 256, 257, 300} {
					ty, tm, td := ref.CivilFromDays(f.ord() + span)
					t := YMD{ty, tm, td}
					var probes []YMD
					for _, k := range []int64{0, 1, 2, 3, 255, 256, 257, 65535, 65536, 65537} {
						for _, base := range []int64{0, span, span / 2} {
							for _, unit := range []int64{256, 65536} {
								for dlt := int64(-2); dlt <= 2; dlt++ {
									for _, sign := range []int64{1, -1} {
										o := f.ord() + base + sign*k*unit + dlt
										y, m, d := ref.CivilFromDays(o)
										if y > -2000000000 && y < 2000000000 {
											probes = append(probes, YMD{y, m, d})
										}
									}
								}
							}
						}
					}
					for shape := 1; shape <= 3; shape++ {
						c := Case{Probes: probes, Scribble: probes[int(span)%len(probes)]}
						if shape&1 != 0 {
							ff := f
							c.From = &ff
						}
						if shape&2 != 0 {
							tt := t
							c.To = &tt
						}
						judge(c, w)
						w.EvalN(int64(len(probes)), int64(len(probes)))
					}
				}
			}
		})
		// the ends of the representable range (the year field holds the calendar year minus one in 32 bits)
		first, last := YMD{-2147483647, 1, 1}, YMD{2147483648, 12, 31}
		ends := []YMD{first, {-2147483647, 1, 2}, {-2147483647, 12, 31}, {-2147483646, 1, 1}, {0, 1, 1}, {2147483647, 12, 31}, {2147483648, 1, 1}, {2147483648, 12, 30}, last}
		r.Serial(func(w *vkit.W) {
			for i := range ends {
				for j := range ends {
					for shape := 1; shape <= 3; shape++ {
						c := Case{Probes: ends, Scribble: YMD{int64(i - j), 6, 15}} // (the scribble date is shifted by a few days: kept away from the ends)
						if shape&1 != 0 {
							ff := ends[i]
							c.From = &ff
						}
						if shape&2 != 0 {
							tt := ends[j]
							c.To = &tt
						}
						judge(c, w)
						w.EvalN(int64(len(ends)), int64(len(ends)))
					}
				}
			}
		})
	})

	// Phase A7: the same questions with bound and probe values that were written over variables which held other dates before.
	r.Phase("A7: bounds and probes written over used variables (method form of FromTime; the zero date through the zero time), window around 0001-01-01 and ordinary dates", func() {
		pts := []YMD{{0, 12, 30}, {0, 12, 31}, {1, 1, 1}, {1, 1, 2}, {1, 12, 31}, {2, 1, 1}, {1999, 12, 31}, {2000, 2, 29}, {2000, 3, 1}, {2024, 2, 29}, {2024, 12, 31}, {9999, 12, 31}, {-1, 6, 15}}
		r.Parallel(int64(len(pts)*len(pts)), int64(len(pts)), func(w *vkit.W, lo, hi int64) {
			for k := lo; k < hi; k++ {
				f, t := pts[int(k)/len(pts)], pts[int(k)%len(pts)]
				for shape := 1; shape <= 3; shape++ {
					c := Case{Probes: pts, Scribble: YMD{2010, 5, 5}, Reused: true}
					if shape&1 != 0 {
						ff := f
						c.From = &ff
					}
					if shape&2 != 0 {
						tt := t
						c.To = &tt
					}
					judge(c, w)
					w.EvalN(int64(len(pts)), int64(len(pts)))
				}
			}
		})
	})

	nRand := int64(r.Pick(200000, 20000000))
	r.Phase(fmt.Sprintf("B: %d seeded random triples over years 0000-9999", nRand), func() {
		r.Parallel(nRand, 4096, func(w *vkit.W, lo, hi int64) {
			for i := lo; i < hi; i++ {
				g := r.Rng("rand", i)
				pick := func() YMD {
					y, m, d := ref.CivilFromDays(g.Range(ref.Ord0, ref.OrdEnd))
					return YMD{y, m, d}
				}
				near := func(v YMD) YMD {
					o := v.ord() + g.Range(-400, 400)
					if o < ref.Ord0 {
						o = ref.Ord0
					}
					if o > ref.OrdEnd {
						o = ref.OrdEnd
					}
					y, m, d := ref.CivilFromDays(o)
					return YMD{y, m, d}
				}
				from := pick()
				to := near(from)
				if g.Intn(4) == 0 {
					to = pick()
				}
				if g.Intn(6) == 0 { // same month and day in another year
					to = YMD{from.Y + g.Range(-3, 3), from.M, minInt(from.D, 28)}
					if to.Y < 0 {
						to.Y = 0
					}
				}
				c := Case{Scribble: pick()}
				if g.Intn(5) != 0 {
					c.From = &from
				}
				if g.Intn(5) != 0 {
					c.To = &to
				}
				c.Probes = []YMD{near(from), near(to), from, to, pick(), {from.Y - 1, from.M, minInt(from.D+1, 28)}, {to.Y + 1, to.M, maxInt(to.D-1, 1)}}
				for k := range c.Probes {
					if c.Probes[k].Y < 0 {
						c.Probes[k].Y = 0
					}
				}
				judge(c, w)
				w.EvalRandom(vkit.HashU(uint64(from.ord()), uint64(to.ord()), uint64(i)), nontrivial(c))
			}
		})
	})
	r.Sampled()

	r.ColdPhase(coldFirst)

	r.Phase("C: rapid", func() {
		ymd := rapid.Custom(func(rt *rapid.T) YMD {
			y := int64(rapid.IntRange(0, 9999).Draw(rt, "y"))
			m := rapid.IntRange(1, 12).Draw(rt, "m")
			return YMD{y, m, rapid.IntRange(1, ref.DaysIn(y, m)).Draw(rt, "d")}
		})
		r.Rapid(t, "rapid-filter", 0, r.Pick(30000, 1000000), func(rt *rapid.T, w *vkit.W) vkit.RapidCase {
			c := Case{Scribble: ymd.Draw(rt, "scribble"), Probes: rapid.SliceOfN(ymd, 1, 6).Draw(rt, "probes")}
			if rapid.IntRange(0, 3).Draw(rt, "hasFrom") > 0 {
				v := ymd.Draw(rt, "from")
				c.From = &v
			}
			if rapid.IntRange(0, 3).Draw(rt, "hasTo") > 0 {
				v := ymd.Draw(rt, "to")
				if c.From != nil && rapid.Bool().Draw(rt, "near") {
					y, m, d := ref.CivilFromDays(c.From.ord() + int64(rapid.IntRange(-40, 400).Draw(rt, "delta")))
					if y >= 0 && y <= 9999 {
						v = YMD{y, m, d}
					}
				}
				c.To = &v
			}
			if c.From != nil {
				c.Probes = append(c.Probes, *c.From)
			}
			if c.To != nil {
				c.Probes = append(c.Probes, *c.To)
			}
			judge(c, w)
			b, _ := json.Marshal(c)
			return vkit.RapidCase{Case: c, Hash: vkit.Hash64(string(b)), NT: nontrivial(c)}
		})
	})
}

func minInt(a, b int) int {
	if a < b {
		return a
	}
	return b
}

func maxInt(a, b int) int {
	if a > b {
		return a
	}
	return b
}
