package c15

import (
	"testing"

	"go.lstv.dev/util/date"

	"verifharness/vkit"
)

var coldFirst = map[string]func(){
	"filter both":     func() { a, b := date.New(2020, 1, 1), date.New(2020, 12, 31); _, _ = date.FilterFromTo(&a, &b) },
	"filter same day": func() { a := date.New(2020, 2, 29); _, _ = date.FilterFromTo(&a, &a) },
	"filter from":     func() { a := date.New(2020, 2, 29); _, _ = date.FilterFromTo(&a, nil) },
	"filter to":       func() { a := date.New(2020, 2, 29); _, _ = date.FilterFromTo(nil, &a) },
	"filter none":     func() { _, _ = date.FilterFromTo(nil, nil) },
	"filter inverted": func() { a, b := date.New(2021, 1, 1), date.New(2020, 12, 31); _, _ = date.FilterFromTo(&a, &b) },
	"compare":         func() { _ = date.New(2020, 1, 1).Before(date.New(2020, 1, 2)) },
}

func TestColdStart(t *testing.T) {
	vkit.ColdMain(t, "C15", coldFirst, func(w *vkit.W) {
		pts := []YMD{{2019, 12, 31}, {2020, 1, 1}, {2020, 2, 28}, {2020, 2, 29}, {2020, 3, 1}, {2020, 8, 7}, {2020, 10, 9}, {2020, 12, 31}, {2021, 1, 1}, {2021, 6, 15}, {2021, 10, 1}, {1, 1, 1}, {9999, 12, 31}}
		for i := range pts {
			for j := range pts {
				a, b := pts[i], pts[j]
				judge(Case{From: &a, To: &b, Probes: pts, Scribble: pts[(i+j)%len(pts)]}, w)
			}
			a := pts[i]
			judge(Case{From: &a, Probes: pts, Scribble: pts[0]}, w)
			judge(Case{To: &a, Probes: pts, Scribble: pts[1]}, w)
		}
		judge(Case{Probes: pts}, w)
	})
}
