package ref

import "strings"

// Roman format flags (bit positions as documented by the library: Long4, Long40, Long400, Long9, Long90, Long900, LowerCase).
const (
	RLong4 = 1 << iota
	RLong40
	RLong400
	RLong9
	RLong90
	RLong900
	RLower
)

// romanDigit renders one decimal digit from the rule, not from a table.
func romanDigit(d int, one, five, ten byte, long4, long9 bool) string {
	rep := func(c byte, n int) string { return strings.Repeat(string(c), n) }
	switch {
	case d <= 3:
		return rep(one, d)
	case d == 4:
		if long4 {
			return rep(one, 4)
		}
		return string(one) + string(five)
	case d <= 8:
		return string(five) + rep(one, d-5)
	default: // 9
		if long9 {
			return string(five) + rep(one, 4)
		}
		return string(one) + string(ten)
	}
}

// RomanNumeral is the canonical numeral of n under the flag set (0 -> "").
func RomanNumeral(n uint64, flags int) string {
	var b strings.Builder
	for i := uint64(0); i < n/1000; i++ {
		b.WriteByte('M')
	}
	r := int(n % 1000)
	b.WriteString(romanDigit(r/100, 'C', 'D', 'M', flags&RLong400 != 0, flags&RLong900 != 0))
	b.WriteString(romanDigit(r/10%10, 'X', 'L', 'C', flags&RLong40 != 0, flags&RLong90 != 0))
	b.WriteString(romanDigit(r%10, 'I', 'V', 'X', flags&RLong4 != 0, flags&RLong9 != 0))
	s := b.String()
	if flags&RLower != 0 {
		s = asciiLower(s)
	}
	return s
}

func asciiLower(s string) string {
	b := []byte(s)
	for i, c := range b {
		if c >= 'A' && c <= 'Z' {
			b[i] = c + 32
		}
	}
	return string(b)
}

func up(c byte) byte {
	if c >= 'a' && c <= 'z' {
		return c - 32
	}
	return c
}

// RomanValue decides whether s is M* followed by a hundreds, a tens and a units group (each additive
// "five? one{0,4}" or subtractive "one five" / "one ten"), ASCII case-insensitively, and returns the sum.
// The empty string is in the language with value 0 (the caller applies the empty-input rule).
func RomanValue(s string) (uint64, bool) {
	i := 0
	var v uint64
	for i < len(s) && up(s[i]) == 'M' {
		v += 1000
		i++
	}
	for _, g := range [3]struct {
		unit           uint64
		one, five, ten byte
	}{{100, 'C', 'D', 'M'}, {10, 'X', 'L', 'C'}, {1, 'I', 'V', 'X'}} {
		at := func(k int) byte {
			if i+k < len(s) {
				return up(s[i+k])
			}
			return 0
		}
		// subtractive forms first (they are not additive forms, so there is no ambiguity)
		if at(0) == g.one && at(1) == g.five {
			v += 4 * g.unit
			i += 2
			continue
		}
		if at(0) == g.one && at(1) == g.ten {
			v += 9 * g.unit
			i += 2
			continue
		}
		if at(0) == g.five {
			v += 5 * g.unit
			i++
		}
		for k := 0; k < 4 && at(0) == g.one; k++ {
			v += g.unit
			i++
		}
	}
	if i != len(s) {
		return 0, false
	}
	return v, true
}
