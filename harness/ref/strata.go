package ref

import "sort"

// SizeStrata returns the deterministic stratified set of 64-bit values used by the size checks:
// every value below limitSmall; odd x 2^k for every k in 0..63 with boundary odd parts; 10^d-1, 10^d, 10^d+1 for every
// decimal length; 1000^k and 1024^k +-{0,1,2}; multiples m x 1024^k for small m; 2^64-1-{0..3}. Sorted, de-duplicated.
func SizeStrata(limitSmall uint64) []uint64 {
	set := map[uint64]struct{}{}
	add := func(v uint64) { set[v] = struct{}{} }
	for v := uint64(0); v < limitSmall; v++ {
		add(v)
	}
	odds := []uint64{1, 3, 5, 7, 9, 999, 1001, 1023, 1025, 12345, 1<<20 - 1, 1<<20 + 1, 1<<32 - 1, 1<<32 + 1, 1<<53 - 1, 1<<53 + 1, 1<<63 - 1, ^uint64(0)}
	for k := uint(0); k < 64; k++ {
		for _, o := range odds {
			// largest odd part that fits with k trailing zero bits
			if k > 0 && o>>(64-k) != 0 {
				o = (^uint64(0) >> k) | 1
				o &= ^uint64(0) >> k
			}
			add(o << k)
		}
		add(1 << k)
		add(1<<k - 1)
		add(1<<k + 1)
	}
	p := uint64(1)
	for d := 0; d < 20; d++ {
		add(p - 1)
		add(p)
		add(p + 1)
		add(p*9 + 1)
		if d < 19 {
			p *= 10
		}
	}
	for _, base := range []uint64{1000, 1024} {
		p := uint64(1)
		for k := 0; k <= 6; k++ {
			for d := uint64(0); d <= 2; d++ {
				add(p + d)
				add(p - d)
			}
			for m := uint64(1); m <= 1100; m++ {
				hi := m * p
				if p != 0 && hi/p == m {
					add(hi)
				}
			}
			if k < 6 {
				p *= base
			}
		}
	}
	for d := uint64(0); d <= 2048; d++ {
		add(^uint64(0) - d)
	}
	out := make([]uint64, 0, len(set))
	for v := range set {
		out = append(out, v)
	}
	sort.Slice(out, func(i, j int) bool { return out[i] < out[j] })
	return out
}
