package ref

import (
	"testing"
	"time"
)

// Self-test of the calendar oracle against package time (the library is not involved).
func TestCalendarAgainstTime(t *testing.T) {
	// every day of years -800..10400
	ord := DaysFromCivil(-800, 1, 1)
	tm := time.Date(-800, 1, 1, 0, 0, 0, 0, time.UTC)
	for ; tm.Year() <= 10400; tm, ord = tm.AddDate(0, 0, 1), ord+1 {
		y, m, d := tm.Date()
		if got := DaysFromCivil(int64(y), int(m), d); got != ord {
			t.Fatalf("DaysFromCivil(%d,%d,%d)=%d want %d", y, m, d, got, ord)
		}
		if tm.Unix() != ord*86400 {
			t.Fatalf("unix %d vs ord %d", tm.Unix(), ord)
		}
		yy, mm, dd := CivilFromDays(ord)
		if yy != int64(y) || mm != int(m) || dd != d {
			t.Fatalf("CivilFromDays(%d)=%d-%d-%d want %d-%d-%d", ord, yy, mm, dd, y, m, d)
		}
		if !ValidYMD(int64(y), int(m), d) {
			t.Fatalf("ValidYMD false for existing day")
		}
	}
	// far years
	for _, y := range []int{-999999999, -123456789, 99999, 123456789, 999999999} {
		for _, md := range [][2]int{{1, 1}, {2, 28}, {3, 1}, {12, 31}} {
			tm := time.Date(y, time.Month(md[0]), md[1], 0, 0, 0, 0, time.UTC)
			if got := DaysFromCivil(int64(y), md[0], md[1]) * 86400; got != tm.Unix() {
				t.Fatalf("far year %d: %d vs %d", y, got, tm.Unix())
			}
		}
	}
	// AddYMD against AddDate
	base := []time.Time{time.Date(2020, 1, 31, 0, 0, 0, 0, time.UTC), time.Date(1999, 12, 31, 0, 0, 0, 0, time.UTC), time.Date(2000, 2, 29, 0, 0, 0, 0, time.UTC), time.Date(0, 3, 1, 0, 0, 0, 0, time.UTC)}
	for _, b := range base {
		for yy := -5; yy <= 5; yy++ {
			for mm := -30; mm <= 30; mm++ {
				for dd := -400; dd <= 400; dd += 7 {
					want := b.AddDate(yy, mm, dd)
					y, m, d := b.Date()
					gy, gm, gd := AddYMD(int64(y), int(m), d, int64(yy), int64(mm), int64(dd))
					wy, wm, wd := want.Date()
					if gy != int64(wy) || gm != int(wm) || gd != wd {
						t.Fatalf("AddYMD(%v,%d,%d,%d)=%d-%d-%d want %v", b, yy, mm, dd, gy, gm, gd, want)
					}
				}
			}
		}
	}
	if DateText(7, 3, 9, false) != "0007-03-09" || DateText(123456, 12, 31, true) != "1234561231" {
		t.Fatal("DateText")
	}
}

func TestRecogniseDate(t *testing.T) {
	ok := map[string][3]int64{"2022-02-28": {2022, 2, 28}, "20240229": {2024, 2, 29}, "0000-01-01": {0, 1, 1}, "999999999-12-31": {999999999, 12, 31}, "1234560102": {123456, 1, 2}}
	for s, w := range ok {
		v := RecogniseDate(s, 0)
		if !v.OK || v.Y != w[0] || int64(v.M) != w[1] || int64(v.D) != w[2] {
			t.Fatalf("%q: %+v", s, v)
		}
	}
	for _, s := range []string{"", "2022-02-30", "2021-02-29", "1900-02-29", "2020-00-10", "2020-01-00", "2020-13-01", "2020-0101", "202001-01", "202-01-01", "1234567890-01-01", "2020-01-01 ", " 2020-01-01", "2020/01/01", "２０２０-01-01", "2020-01-1", "20200101\n", "+2020-01-01", "-2020-01-01"} {
		if v := RecogniseDate(s, 0); v.OK {
			t.Fatalf("%q accepted", s)
		}
	}
	if v := RecogniseDate("12345-01-01", 10); v.OK || !v.TooLong {
		t.Fatalf("limit: %+v", v)
	}
}
