package ref

import (
	"math/big"
	"sort"
	"strings"
	"unicode"
)

// SemVer 2.0.0 reference: a hand-written recogniser of the BNF (no regexp) and an independent section-11 comparator.

// SemParts are the literal field texts of a valid version core with optional pre-release and build.
type SemParts struct {
	Major, Minor, Patch string
	Pre, Build          string
	HasPre, HasBuild    bool
}

func isLetter(c byte) bool { return c >= 'A' && c <= 'Z' || c >= 'a' && c <= 'z' }

func isIdentChar(c byte) bool { return isDigit(c) || isLetter(c) || c == '-' }

// numericIdent: "0" | positive digit followed by digits
func numericIdent(s string) bool {
	if s == "" {
		return false
	}
	for i := 0; i < len(s); i++ {
		if !isDigit(s[i]) {
			return false
		}
	}
	return s == "0" || s[0] != '0'
}

func allDigits(s string) bool {
	if s == "" {
		return false
	}
	for i := 0; i < len(s); i++ {
		if !isDigit(s[i]) {
			return false
		}
	}
	return true
}

// alphanumIdent: identifier characters with at least one non-digit
func alphanumIdent(s string) bool {
	if s == "" {
		return false
	}
	nonDigit := false
	for i := 0; i < len(s); i++ {
		if !isIdentChar(s[i]) {
			return false
		}
		if !isDigit(s[i]) {
			nonDigit = true
		}
	}
	return nonDigit
}

// ValidPreRelease: dot-separated pre-release identifiers (alphanumeric or numeric without leading zeros).
func ValidPreRelease(s string) bool {
	if s == "" {
		return false
	}
	for _, id := range strings.Split(s, ".") {
		if !alphanumIdent(id) && !numericIdent(id) {
			return false
		}
	}
	return true
}

// ValidBuild: dot-separated build identifiers (alphanumeric or digits).
func ValidBuild(s string) bool {
	if s == "" {
		return false
	}
	for _, id := range strings.Split(s, ".") {
		if !alphanumIdent(id) && !allDigits(id) {
			return false
		}
	}
	return true
}

// ParseSemVer recognises <valid semver> (without any "v" prefix).
func ParseSemVer(s string) (SemParts, bool) {
	var p SemParts
	rest := s
	if i := strings.IndexByte(rest, '+'); i >= 0 {
		p.Build, p.HasBuild = rest[i+1:], true
		rest = rest[:i]
		if !ValidBuild(p.Build) {
			return SemParts{}, false
		}
	}
	if i := strings.IndexByte(rest, '-'); i >= 0 {
		p.Pre, p.HasPre = rest[i+1:], true
		rest = rest[:i]
		if !ValidPreRelease(p.Pre) {
			return SemParts{}, false
		}
	}
	core := strings.Split(rest, ".")
	if len(core) != 3 {
		return SemParts{}, false
	}
	for _, n := range core {
		if !numericIdent(n) {
			return SemParts{}, false
		}
	}
	p.Major, p.Minor, p.Patch = core[0], core[1], core[2]
	return p, true
}

var maxU64 = new(big.Int).SetUint64(^uint64(0))

// FitsU64 reports whether the decimal text is at most 2^64-1, and its value.
func FitsU64(dec string) (uint64, bool) {
	n, ok := new(big.Int).SetString(dec, 10)
	if !ok || n.Sign() < 0 || n.Cmp(maxU64) > 0 {
		return 0, false
	}
	return n.Uint64(), true
}

// cmpNumeric compares two numeric identifiers (no leading zeros unless "0") of any length.
func cmpNumeric(a, b string) int {
	if len(a) != len(b) {
		if len(a) < len(b) {
			return -1
		}
		return 1
	}
	return strings.Compare(a, b)
}

// ComparePre orders two pre-release texts per section 11 ("" = no pre-release = higher than any pre-release).
// Returns -1 if a < b, 0 if equal, 1 if a > b.
func ComparePre(a, b string) int {
	switch {
	case a == "" && b == "":
		return 0
	case a == "":
		return 1
	case b == "":
		return -1
	}
	as, bs := strings.Split(a, "."), strings.Split(b, ".")
	for i := 0; i < len(as) && i < len(bs); i++ {
		x, y := as[i], bs[i]
		xn, yn := allDigits(x), allDigits(y)
		var c int
		switch {
		case xn && yn:
			c = cmpNumeric(x, y)
		case xn:
			c = -1
		case yn:
			c = 1
		default:
			c = strings.Compare(x, y)
		}
		if c != 0 {
			return c
		}
	}
	switch {
	case len(as) < len(bs):
		return -1
	case len(as) > len(bs):
		return 1
	}
	return 0
}

// PinnedDeparture reports whether the pair falls in the family the statement excludes: the first differing
// identifiers are both alphanumeric and, after removing their longest common prefix, both remainders are
// digit strings (possibly empty) - "differ only in a trailing run of digits" (a01 vs a1, a vs a1, rc1 vs rc10).
func PinnedDeparture(a, b string) bool {
	if a == "" || b == "" {
		return false
	}
	as, bs := strings.Split(a, "."), strings.Split(b, ".")
	for i := 0; i < len(as) && i < len(bs); i++ {
		x, y := as[i], bs[i]
		if x == y {
			continue
		}
		if allDigits(x) || allDigits(y) {
			return false
		}
		k := 0
		for k < len(x) && k < len(y) && x[k] == y[k] {
			k++
		}
		// the differing tails must be digit runs; extend the run backwards over common digits so that
		// "a10" vs "a11" (common prefix "a1") counts as differing in the trailing digit run too.
		rx, ry := x[k:], y[k:]
		return (rx == "" || allDigits(rx)) && (ry == "" || allDigits(ry))
	}
	return false
}

// CompareCore compares numeric triples.
func CompareCore(a, b [3]uint64) int {
	for i := 0; i < 3; i++ {
		if a[i] != b[i] {
			if a[i] < b[i] {
				return -1
			}
			return 1
		}
	}
	return 0
}

// PreUniverse returns "" followed by every valid pre-release text over the alphabet up to length maxLen,
// in order of increasing length (then alphabet order).
func PreUniverse(alphabet string, maxLen int) []string {
	out := []string{""}
	buf := make([]byte, 0, maxLen)
	var rec func(n int)
	rec = func(n int) {
		if len(buf) == n {
			if ValidPreRelease(string(buf)) {
				out = append(out, string(buf))
			}
			return
		}
		for i := 0; i < len(alphabet); i++ {
			buf = append(buf, alphabet[i])
			rec(n)
			buf = buf[:len(buf)-1]
		}
	}
	for n := 1; n <= maxLen; n++ {
		rec(n)
	}
	return out
}

// SemText formats a version independently of the library.
func SemText(major, minor, patch uint64, pre, build string) string {
	b := make([]byte, 0, 40+len(pre)+len(build))
	b = appendU(b, major)
	b = append(b, '.')
	b = appendU(b, minor)
	b = append(b, '.')
	b = appendU(b, patch)
	if pre != "" {
		b = append(b, '-')
		b = append(b, pre...)
	}
	if build != "" {
		b = append(b, '+')
		b = append(b, build...)
	}
	return string(b)
}

func appendU(b []byte, v uint64) []byte {
	var tmp [20]byte
	i := len(tmp)
	for {
		i--
		tmp[i] = byte('0' + v%10)
		v /= 10
		if v == 0 {
			break
		}
	}
	return append(b, tmp[i:]...)
}

// ConfusableRunes returns runes outside ASCII that an implementation could mistake for one of the given ASCII characters:
// runes whose Unicode simple case folding orbit contains the character, runes whose low byte equals the character
// (truncation of a rune to a byte), and the full-width forms.
func ConfusableRunes(chars string) []rune {
	want := map[byte]bool{}
	for i := 0; i < len(chars); i++ {
		want[chars[i]] = true
	}
	seen := map[rune]bool{}
	var out []rune
	add := func(r rune) {
		if r >= 0x80 && !seen[r] && !(r >= 0xD800 && r <= 0xDFFF) {
			seen[r] = true
			out = append(out, r)
		}
	}
	for r := rune(0x80); r <= 0xFFFF; r++ {
		if want[byte(r)] && (r < 0x800 || r&0xFF00 == 0x2100 || r&0xFF00 == 0x0400 || r&0xFF00 == 0xFF00 || r%7 == 0) {
			add(r)
		}
	}
	for c := range want {
		for f := unicode.SimpleFold(rune(c)); f != rune(c); f = unicode.SimpleFold(f) {
			add(f)
		}
		add(rune(c) + 0xFEE0)  // full-width form
		add(0x10000 | rune(c)) // beyond the basic plane, low byte and low 16 bits equal to the character
		add(0x1F600 | rune(c))
		add(0x10FF00 | rune(c))
	}
	for _, r := range []rune{0x017F, 0x212A, 0x0130, 0x0131, 0x2160, 0x216F, 0x2170, 0x00A0, 0x2028, 0xFEFF, 0x200B, 0x0660, 0x06F0, 0xFF10, 0x2212, 0x2010, 0x2024, 0xFE52, 0x10000 + 'a', 0x1D7CE} {
		add(r)
	}
	sort.Slice(out, func(i, j int) bool { return out[i] < out[j] })
	return out
}
