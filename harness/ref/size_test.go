package ref

import "testing"

func TestSizeText(t *testing.T) {
	ok := map[string]uint64{"0": 0, "10": 10, " 10 ": 10, "1 000": 1000, "1_000_000": 1000000, "1\u00a0000 kB": 1000000, "20KiB": 20480, "20 KiB": 20480, "20 _\u00a0KiB  ": 20480, "007": 7, "1 B  ": 1,
		"18446744073709551615": 1<<64 - 1, "16EiB": 0, "15 EiB": 15 << 60, "0 YiB": 0, "0ZB": 0, "18 EB": 18000000000000000000, "00000000000000000000000001": 1, "1 7": 17}
	for s, w := range ok {
		v := ParseSizeText(s)
		if s == "16EiB" {
			if v.OK() {
				t.Errorf("%q must overflow", s)
			}
			continue
		}
		if !v.OK() || v.Value != w || v.Dangling {
			t.Errorf("%q: %+v want %d", s, v, w)
		}
	}
	for _, s := range []string{"", " ", "_1", "\u00a01", "-1", "+1", "1.5", "1e3", "1 kb", "1 KB", "1 Kib", "1 iB", "1 k B", "1kB1", "18446744073709551616", "19 EB", "1 ZB", "1YiB", "1 B x", "x", "1\t", "1\n", "１", "1 B_", "1\xa0"} {
		if v := ParseSizeText(s); v.OK() && !v.Dangling {
			t.Errorf("%q accepted: %+v", s, v)
		}
	}
	for _, s := range []string{"1_", "1\u00a0", "1 _ ", "1_ "} {
		if v := ParseSizeText(s); !v.Dangling || !v.OK() {
			t.Errorf("%q should be dangling: %+v", s, v)
		}
	}
	if a, b := Shorten(1024); a != 1 || b != "KiB" {
		t.Fatal("shorten")
	}
	if a, b := Shorten(1 << 63); a != 8 || b != "EiB" {
		t.Fatal("shorten 2^63")
	}
	if a, b := Shorten(1025); a != 1025 || b != "B" {
		t.Fatal("shorten 1025")
	}
	if Group("1234567", " ") != "1 234 567" || Group("123", " ") != "123" || Group("1000", "&nbsp;") != "1&nbsp;000" || Group("0", " ") != "0" {
		t.Fatal("group")
	}
}
