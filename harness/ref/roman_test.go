package ref

import "testing"

// The evaluator's language must equal the set of numerals the builder produces (for every flag set), and the value must agree.
func TestRomanEvaluatorMatchesBuilder(t *testing.T) {
	letters := []byte("IVXLCDM")
	built := map[string]uint64{}
	for n := uint64(0); n <= 8999; n++ {
		for f := 0; f < 64; f++ {
			s := RomanNumeral(n, f)
			if old, ok := built[s]; ok && old != n {
				t.Fatalf("builder ambiguous: %q is %d and %d", s, old, n)
			}
			built[s] = n
		}
	}
	var rec func(prefix []byte, depth int)
	accepted := 0
	rec = func(prefix []byte, depth int) {
		s := string(prefix)
		v, ok := RomanValue(s)
		bv, inBuilt := built[s]
		if ok != inBuilt && !(ok && v > 8999) {
			t.Fatalf("%q: evaluator ok=%v (v=%d) builder has=%v", s, ok, v, inBuilt)
		}
		if ok && inBuilt && v != bv {
			t.Fatalf("%q: evaluator %d builder %d", s, v, bv)
		}
		if ok {
			accepted++
			if lv, lok := RomanValue(asciiLower(s)); !lok || lv != v {
				t.Fatalf("lower-case %q differs", s)
			}
		}
		if depth == 0 {
			return
		}
		for _, c := range letters {
			rec(append(prefix, c), depth-1)
		}
	}
	rec(nil, 8)
	if accepted < 1000 {
		t.Fatalf("only %d accepted", accepted)
	}
	for s, want := range map[string]uint64{"MCMXCIV": 1994, "mdclxvi": 1666, "IIII": 4, "VIIII": 9, "XXXX": 40, "LXXXX": 90, "CCCC": 400, "DCCCC": 900, "iv": 4, "Ix": 9, "d": 500, "MMMM": 4000} {
		if v, ok := RomanValue(s); !ok || v != want {
			t.Fatalf("%q = %d,%v want %d", s, v, ok, want)
		}
	}
	for _, s := range []string{"IIIII", "VV", "IVI", "IXI", "VIV", "IL", "IC", "XM", "XD", "CMC", "CDC", "DD", "LL", "XCX", "XLX", "MIM", "A", "I I", " I", "I\n", "Ⅰ", "ı", "İ"} {
		if _, ok := RomanValue(s); ok {
			t.Fatalf("%q accepted", s)
		}
	}
	if RomanNumeral(1994, RLong) != "MDCCCCLXXXXIIII" || RomanNumeral(49, RLower) != "xlix" || RomanNumeral(0, 127) != "" || RomanNumeral(4000, 0) != "MMMM" {
		t.Fatal("builder examples")
	}
}

const RLong = RLong4 | RLong40 | RLong400 | RLong9 | RLong90 | RLong900
