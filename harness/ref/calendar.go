// Package ref holds the reference oracles. Nothing here imports the library under test,
// package time, package regexp or fmt's formatting verbs for the things being judged.
package ref

import "strconv"

// IsLeap is the proleptic Gregorian leap rule.
func IsLeap(y int64) bool {
	return y%4 == 0 && (y%100 != 0 || y%400 == 0)
}

// DaysIn returns the length of month m (1..12) in year y; 0 for an invalid month.
func DaysIn(y int64, m int) int {
	switch m {
	case 1, 3, 5, 7, 8, 10, 12:
		return 31
	case 4, 6, 9, 11:
		return 30
	case 2:
		if IsLeap(y) {
			return 29
		}
		return 28
	}
	return 0
}

// ValidYMD reports whether (y, m, d) names an existing day.
func ValidYMD(y int64, m, d int) bool {
	return m >= 1 && m <= 12 && d >= 1 && d <= DaysIn(y, m)
}

func floorDiv(a, b int64) int64 {
	q := a / b
	if (a%b != 0) && ((a < 0) != (b < 0)) {
		q--
	}
	return q
}

// DaysFromCivil returns the day ordinal of (y, m, d) with 1970-01-01 = 0 (Hinnant's algorithm).
func DaysFromCivil(y int64, m, d int) int64 {
	if m <= 2 {
		y--
	}
	era := floorDiv(y, 400)
	yoe := y - era*400 // [0, 399]
	mp := int64(m+9) % 12
	doy := (153*mp+2)/5 + int64(d) - 1
	doe := yoe*365 + yoe/4 - yoe/100 + doy
	return era*146097 + doe - 719468
}

// CivilFromDays is the inverse of DaysFromCivil.
func CivilFromDays(z int64) (y int64, m, d int) {
	z += 719468
	era := floorDiv(z, 146097)
	doe := z - era*146097
	yoe := (doe - doe/1460 + doe/36524 - doe/146096) / 365
	y = yoe + era*400
	doy := doe - (365*yoe + yoe/4 - yoe/100)
	mp := (5*doy + 2) / 153
	d = int(doy - (153*mp+2)/5 + 1)
	if mp < 10 {
		m = int(mp + 3)
	} else {
		m = int(mp - 9)
	}
	if m <= 2 {
		y++
	}
	return
}

// Ord0 is the ordinal of 0000-01-01; OrdEnd the ordinal of 9999-12-31.
var (
	Ord0   = DaysFromCivil(0, 1, 1)
	OrdEnd = DaysFromCivil(9999, 12, 31)
)

// AddYMD is time.AddDate-style arithmetic on civil dates: months are normalised into years by floor
// division, then the day offset (which may overflow the month) is applied on ordinals.
func AddYMD(y int64, m, d int, years, months, days int64) (int64, int, int) {
	mm := int64(m-1) + months
	yy := y + years + floorDiv(mm, 12)
	mm = mm - floorDiv(mm, 12)*12
	return CivilFromDays(DaysFromCivil(yy, int(mm)+1, 1) + int64(d) - 1 + days)
}

// Pad writes v with at least w digits, zero padded (v >= 0).
func Pad(b []byte, v int64, w int) []byte {
	s := strconv.FormatInt(v, 10)
	for i := len(s); i < w; i++ {
		b = append(b, '0')
	}
	return append(b, s...)
}

// DateText is the canonical ISO text of a non-negative-year date.
func DateText(y int64, m, d int, basic bool) string {
	b := make([]byte, 0, 16)
	b = Pad(b, y, 4)
	if !basic {
		b = append(b, '-')
	}
	b = Pad(b, int64(m), 2)
	if !basic {
		b = append(b, '-')
	}
	b = Pad(b, int64(d), 2)
	return string(b)
}

// DateVerdict is the recogniser's verdict on a date text.
type DateVerdict struct {
	OK         bool
	Y          int64
	M, D       int
	Basic      bool // valid shape without separators
	TooLong    bool // longer than the limit (limit != 0)
	Shape      bool // digits/separators have a valid layout (verdict then depends on the calendar)
	BasicShape bool // Shape holds in the layout without separators
}

func isDigit(c byte) bool { return c >= '0' && c <= '9' }

// RecogniseDate decides whether s is YYYY-MM-DD or YYYYMMDD with 4..9 year digits naming an existing day.
// limit 0 = no length limit.
func RecogniseDate(s string, limit int) DateVerdict {
	var v DateVerdict
	if limit != 0 && len(s) > limit {
		v.TooLong = true
		return v
	}
	n := len(s)
	var ys, ms, ds string
	switch {
	case n >= 10 && n <= 15 && s[n-3] == '-' && s[n-6] == '-':
		ys, ms, ds = s[:n-6], s[n-5:n-3], s[n-2:]
	case n >= 8 && n <= 13:
		ys, ms, ds = s[:n-4], s[n-4:n-2], s[n-2:]
		v.Basic = true
	default:
		return v
	}
	if len(ys) < 4 || len(ys) > 9 {
		v.Basic = false
		return v
	}
	for i := 0; i < len(ys); i++ {
		if !isDigit(ys[i]) {
			v.Basic = false
			return v
		}
	}
	if !isDigit(ms[0]) || !isDigit(ms[1]) || !isDigit(ds[0]) || !isDigit(ds[1]) {
		v.Basic = false
		return v
	}
	v.Shape = true
	v.BasicShape = v.Basic
	y, _ := strconv.ParseInt(ys, 10, 64)
	m := int(ms[0]-'0')*10 + int(ms[1]-'0')
	d := int(ds[0]-'0')*10 + int(ds[1]-'0')
	if !ValidYMD(y, m, d) {
		v.Basic = false
		return v
	}
	v.OK, v.Y, v.M, v.D = true, y, m, d
	return v
}
