package ref

import "testing"

func TestSemVerRecogniser(t *testing.T) {
	valid := []string{"0.0.4", "1.2.3", "10.20.30", "1.1.2-prerelease+meta", "1.1.2+meta", "1.1.2+meta-valid", "1.0.0-alpha", "1.0.0-beta", "1.0.0-alpha.beta", "1.0.0-alpha.beta.1", "1.0.0-alpha.1", "1.0.0-alpha0.valid", "1.0.0-alpha.0valid", "1.0.0-alpha-a.b-c-somethinglong+build.1-aef.1-its-okay", "1.0.0-rc.1+build.1", "2.0.0-rc.1+build.123", "1.2.3-beta", "10.2.3-DEV-SNAPSHOT", "1.2.3-SNAPSHOT-123", "1.0.0", "2.0.0", "1.1.7", "2.0.0+build.1848", "2.0.1-alpha.1227", "1.0.0-alpha+beta", "1.2.3----RC-SNAPSHOT.12.9.1--.12+788", "1.2.3----R-S.12.9.1--.12+meta", "1.2.3----RC-SNAPSHOT.12.9.1--.12", "1.0.0+0.build.1-rc.10000aaa-kk-0.1", "99999999999999999999999.999999999999999999.99999999999999999", "1.0.0-0A.is.legal", "1.0.0--", "1.0.0+-", "1.0.0-0", "1.0.0+00", "1.0.0-a.0.b"}
	for _, s := range valid {
		if _, ok := ParseSemVer(s); !ok {
			t.Errorf("valid %q rejected", s)
		}
	}
	invalid := []string{"1", "1.2", "1.2.3-0123", "1.2.3-0123.0123", "1.1.2+.123", "+invalid", "-invalid", "-invalid+invalid", "-invalid.01", "alpha", "alpha.beta", "alpha.beta.1", "alpha.1", "alpha+beta", "alpha_beta", "alpha.", "alpha..", "beta", "1.0.0-alpha_beta", "-alpha.", "1.0.0-alpha..", "1.0.0-alpha..1", "1.0.0-alpha...1", "1.0.0-alpha....1", "1.0.0-alpha.....1", "1.0.0-alpha......1", "1.0.0-alpha.......1", "01.1.1", "1.01.1", "1.1.01", "1.2", "1.2.3.DEV", "1.2-SNAPSHOT", "1.2.31.2.3----RC-SNAPSHOT.12.09.1--..12+788", "1.2-RC-SNAPSHOT", "-1.0.3-gamma+b7718", "+justmeta", "9.8.7+meta+meta", "9.8.7-whatever+meta+meta", "99999999999999999999999.999999999999999999.99999999999999999----RC-SNAPSHOT.12.09.1--------------------------------..12", "", "1.0.0-", "1.0.0+", "1.0.0-+b", "1.0.0-a+", "v1.0.0", "1.0.0 ", " 1.0.0", "1.0.0\n", "1.0.0-é", "1.0.0-01", "1.0.0-a.01", "1.0.0.", ".1.0.0", "1..0", "1.0.0-a..b", "1.0.0+a..b", "1.0.0-a.", "1.0.0+a."}
	for _, s := range invalid {
		if _, ok := ParseSemVer(s); ok {
			t.Errorf("invalid %q accepted", s)
		}
	}
	p, ok := ParseSemVer("1.2.3-a-b.1+c-d.007")
	if !ok || p.Major != "1" || p.Minor != "2" || p.Patch != "3" || p.Pre != "a-b.1" || p.Build != "c-d.007" {
		t.Fatalf("fields: %+v %v", p, ok)
	}
	if _, ok := FitsU64("18446744073709551615"); !ok {
		t.Fatal("max fits")
	}
	if _, ok := FitsU64("18446744073709551616"); ok {
		t.Fatal("max+1 must not fit")
	}
}

func TestSection11(t *testing.T) {
	chain := []string{"alpha", "alpha.1", "alpha.beta", "beta", "beta.2", "beta.11", "rc.1", ""}
	for i := range chain {
		for j := range chain {
			want := 0
			if i < j {
				want = -1
			} else if i > j {
				want = 1
			}
			if got := ComparePre(chain[i], chain[j]); got != want {
				t.Errorf("ComparePre(%q,%q)=%d want %d", chain[i], chain[j], got, want)
			}
		}
	}
	lt := [][2]string{{"9", "10"}, {"1", "-"}, {"2", "1a"}, {"a.b", "a-"}, {"a", "a.0"}, {"0", "a"}, {"99999999999999999999", "100000000000000000000"}, {"A", "a"}, {"a-", "a0"}, {"1.1", "1.a"}, {"alpha.9", "alpha.10"}}
	for _, p := range lt {
		if ComparePre(p[0], p[1]) != -1 || ComparePre(p[1], p[0]) != 1 {
			t.Errorf("%q should be lower than %q", p[0], p[1])
		}
	}
	for _, p := range [][2]string{{"a01", "a1"}, {"a", "a1"}, {"rc1", "rc10"}, {"a10", "a2"}, {"x.a01", "x.a1"}, {"a10", "a11"}, {"x-1", "x-01"}} {
		if !PinnedDeparture(p[0], p[1]) || !PinnedDeparture(p[1], p[0]) {
			t.Errorf("%q/%q should be in the excluded family", p[0], p[1])
		}
	}
	for _, p := range [][2]string{{"a", "b"}, {"1", "2"}, {"1", "a"}, {"a1b", "a2b"}, {"a1", "a1x"}, {"a.1", "a.2"}, {"a", "a.1"}, {"a1", "a1"}, {"", "a1"}, {"a1.x", "a1.y"}} {
		if PinnedDeparture(p[0], p[1]) {
			t.Errorf("%q/%q should not be excluded", p[0], p[1])
		}
	}
}
