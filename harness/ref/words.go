package ref

// ConventionalTexts are texts that programs conventionally treat specially: spellings of "no value" in the formats a value
// may travel in (JSON, SQL, YAML, XML, environment variables), literals of neighbouring formats, and the shortest members and
// proper prefixes of the grammars checked here. None of the value grammars gives any of them a meaning beyond what its own
// rules say, so every check can hand them to every entry point and judge the outcome with its ordinary oracle.
var ConventionalTexts = []string{
	"", "null", "NULL", "Null", "nil", "NIL", "none", "None", "undefined", "void", "NaN", "nan", "inf", "-inf", "Infinity",
	"true", "false", "yes", "no", "on", "off", "0", "-0", "+0", "00", "1", "-1", "-", "--", "?", "*", "~", "N/A", "n/a", "#N/A",
	"{}", "[]", "()", `""`, "''", "``", "<nil>", "<null>", "%!s(<nil>)", "\\N", " ", "  ", "\t", "\n", "\r\n", "\x00", "\x00\x00",
	"null\n", " null", "null ", "\"null\"", "nulla", "N", "nihil", "default", "DEFAULT", "auto", "latest", "LATEST", "now", "today",
	"zero", "max", "min", "unknown", "any", "all", "\ufeff", "\ufeffnull", "0000-00-00", "00000000", "0001-01-01", "00010101", "1970-01-01",
	"v", "V", "=", "v0", "v1", "0.0.0", "v0.0.0", "0.0", "1.0", "HEAD", "master", "main", "dev", "snapshot", "SNAPSHOT",
	"00000000-0000-0000-0000-000000000000", "{00000000-0000-0000-0000-000000000000}", "00000000000000000000000000000000",
	"u", "ur", "urn", "urn:", "urn:u", "urn:uu", "urn:uui", "urn:uuid", "urn:uuid:", "URN", "URN:", "URN:UUID:", "uuid:", "uuid",
	"B", "kB", "KiB", "0B", "0 B", "unlimited", "infinite", "-1B", "max", "1e3", "0x10", "0b1", "0o7", "1_000", "1,000", "1.0",
	"I", "i", "M", "m", "O", "o", "nulla", "NULLA", "IIII", "MMMM",
}

// Wrapped returns each of the given texts inside the wrappers and next to the neighbours that transports put around values
// (quotes, brackets, white space, a terminator, a second copy). Whether such a text is valid is for each check's oracle to say.
func Wrapped(valid ...string) []string {
	var out []string
	for _, v := range valid {
		out = append(out, `"`+v+`"`, "'"+v+"'", "`"+v+"`", "<"+v+">", "("+v+")", "["+v+"]", "{"+v+"}", " "+v, v+" ", "\t"+v, v+"\n", v+"\r\n", "\n"+v, v+"\x00", "\x00"+v,
			v+v, v+","+v, v+" "+v, v+";", "="+v, v+"=", `\"`+v+`\"`, "\ufeff"+v, v+"\ufeff", "%22"+v+"%22", "&quot;"+v+"&quot;")
	}
	return out
}
