package ref

import (
	"math/big"
	"strings"
)

// Size reference: unit table, exact arithmetic with math/big and the text grammar of the statement.

// UnitPower maps each documented unit to (base, exponent); multiplier = base^exponent.
var UnitPower = map[string][2]int64{
	"B":  {1, 1},
	"kB": {1000, 1}, "MB": {1000, 2}, "GB": {1000, 3}, "TB": {1000, 4}, "PB": {1000, 5}, "EB": {1000, 6}, "ZB": {1000, 7}, "YB": {1000, 8},
	"KiB": {1024, 1}, "MiB": {1024, 2}, "GiB": {1024, 3}, "TiB": {1024, 4}, "PiB": {1024, 5}, "EiB": {1024, 6}, "ZiB": {1024, 7}, "YiB": {1024, 8},
}

// Units lists the 17 unit texts (the 18th "unit" is the empty text = bytes).
var Units = []string{"B", "kB", "MB", "GB", "TB", "PB", "EB", "ZB", "YB", "KiB", "MiB", "GiB", "TiB", "PiB", "EiB", "ZiB", "YiB"}

// Multiplier returns the exact multiplier of a known unit ("" = 1).
func Multiplier(unit string) (*big.Int, bool) {
	if unit == "" {
		return big.NewInt(1), true
	}
	p, ok := UnitPower[unit]
	if !ok {
		return nil, false
	}
	return new(big.Int).Exp(big.NewInt(p[0]), big.NewInt(p[1]), nil), true
}

// Product decides value x unit: ok when the unit is known and the product is below 2^64.
func Product(value *big.Int, unit string) (result uint64, unitKnown, fits bool) {
	m, ok := Multiplier(unit)
	if !ok {
		return 0, false, false
	}
	if value.Sign() < 0 {
		return 0, true, false
	}
	p := new(big.Int).Mul(value, m)
	if p.Cmp(maxU64) > 0 {
		return 0, true, false
	}
	return p.Uint64(), true, true
}

// TextVerdict is the oracle's reading of a size text.
type TextVerdict struct {
	Shape     bool   // sp* digit (sep* digit)* sep* unit? sp*
	Digits    string // the digits with separators removed
	Unit      string // unit text ("" when absent)
	Dangling  bool   // the number is followed by a no-break space or underscore and nothing else (unspecified by the statement)
	UnitKnown bool
	Fits      bool
	Value     uint64
}

const nbsp = "\u00a0"

// ParseSizeText reads s per the statement's text grammar: spaces around the whole; spaces, no-break spaces or
// underscores between digits and before the unit; the unit is everything after the number up to trailing spaces.
func ParseSizeText(s string) TextVerdict {
	var v TextVerdict
	i := 0
	for i < len(s) && s[i] == ' ' {
		i++
	}
	if i >= len(s) || !isDigit(s[i]) {
		return v
	}
	var digits []byte
	nonSpaceSepAfterLastDigit := false
	for i < len(s) {
		switch {
		case isDigit(s[i]):
			digits = append(digits, s[i])
			nonSpaceSepAfterLastDigit = false
			i++
		case s[i] == ' ':
			i++
		case s[i] == '_':
			nonSpaceSepAfterLastDigit = true
			i++
		case strings.HasPrefix(s[i:], nbsp):
			nonSpaceSepAfterLastDigit = true
			i += len(nbsp)
		default:
			goto unit
		}
	}
unit:
	v.Shape = true
	v.Digits = string(digits)
	v.Unit = strings.TrimRight(s[i:], " ")
	if v.Unit == "" {
		v.Dangling = nonSpaceSepAfterLastDigit
	}
	n, _ := new(big.Int).SetString(v.Digits, 10)
	v.Value, v.UnitKnown, v.Fits = Product(n, v.Unit)
	if n.Sign() == 0 && v.UnitKnown {
		v.Fits, v.Value = true, 0
	}
	return v
}

// OK reports whether the text denotes a size (Dangling texts are left to the caller).
func (v TextVerdict) OK() bool { return v.Shape && v.UnitKnown && v.Fits }

// Shorten is the reference for Size.Shorten: largest binary unit B..EiB dividing s exactly; 0 -> (0, "B").
func Shorten(s uint64) (uint64, string) {
	units := []string{"B", "KiB", "MiB", "GiB", "TiB", "PiB", "EiB"}
	if s == 0 {
		return 0, "B"
	}
	n := new(big.Int).SetUint64(s)
	k := 0
	for k < 6 {
		q, r := new(big.Int).QuoRem(n, big.NewInt(1024), new(big.Int))
		if r.Sign() != 0 {
			break
		}
		n = q
		k++
	}
	return n.Uint64(), units[k]
}

// Group renders decimal digits in groups of three from the right, joined by sep.
func Group(dec string, sep string) string {
	var parts []string
	for len(dec) > 3 {
		parts = append([]string{dec[len(dec)-3:]}, parts...)
		dec = dec[:len(dec)-3]
	}
	parts = append([]string{dec}, parts...)
	return strings.Join(parts, sep)
}
