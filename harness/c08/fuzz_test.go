package c08

import (
	"testing"

	"verifharness/vkit"
)

// FuzzSizeText: differential fuzzing of the size text grammar and arithmetic against math/big (thorough tier).
func FuzzSizeText(f *testing.F) {
	for _, s := range []string{"10", "20KiB", "1 000 kB", "1_000", "1 KiB  ", "18446744073709551615", "18446744073709551616", " 7 EiB ", "16 EiB", "0 YiB", "1 ZB", "1 000 MB", "010 kB", "1 kb", "1e3", "-1"} {
		f.Add([]byte(s), 0)
		f.Add([]byte(s), 1)
	}
	f.Fuzz(func(t *testing.T, in []byte, rule int) {
		if len(in) > 120 {
			return
		}
		w := vkit.FuzzW("C08")
		c := Case{Kind: "text", Text: vkit.B(in), Rule: rule & 9}
		judge(c, w)
		vkit.FuzzReport(t, "C08", w, c)
	})
}
