// C08: size arithmetic is exact or refused, never wrapped.
package c08

import (
	"encoding/json"
	"errors"
	"fmt"
	"math"
	"math/big"
	"reflect"
	"strconv"
	"strings"
	"testing"

	"go.lstv.dev/util/constraint"
	"go.lstv.dev/util/size"
	"pgregory.net/rapid"

	"verifharness/ref"
	"verifharness/vkit"
)

// Case kinds:
//
//	"new":   size.New[Type](value, Unit); the value is given by its bit pattern (two's complement for integers, IEEE bits for floats)
//	"bytes": size.Bytes[Type](Size(Bits))
//	"text":  size.DefaultParser(Text, Rule) on string and []byte, and (rule 0 / RuleDisableUnit) UnmarshalText
type Case struct {
	Kind string `json:"kind"`
	Type string `json:"type,omitempty"`
	Bits uint64 `json:"bits,omitempty"`
	Unit vkit.B `json:"unit,omitempty"`
	Text vkit.B `json:"text,omitempty"`
	Rule int    `json:"rule,omitempty"`
	// Marshal: settings that belong to marshalling and to the JSON object form, none of which is an input of text parsing or of
	// New/Bytes: bit 0 DisableMarshalTextUnit, bit 1 DisableMarshalJSONStringForm, bit 2 DisableMarshalJSONObjectForm, bit 3 MaxObjectKeys = 1.
	Marshal int `json:"marshal_settings,omitempty"`
	// Limit: size.MaxInputLength for a text case: 0 leaves the setting alone, -1 disables the limit, n > 0 sets it (serial phases only).
	Limit int `json:"max_input_length,omitempty"`
}

func configureMarshal(m int) func() {
	a, b, c, d := size.DisableMarshalTextUnit, size.DisableMarshalJSONStringForm, size.DisableMarshalJSONObjectForm, size.MaxObjectKeys
	if m != 0 {
		size.DisableMarshalTextUnit, size.DisableMarshalJSONStringForm, size.DisableMarshalJSONObjectForm = m&1 != 0, m&2 != 0, m&4 != 0
		if m&8 != 0 {
			size.MaxObjectKeys = 1
		}
	}
	return func() {
		size.DisableMarshalTextUnit, size.DisableMarshalJSONStringForm, size.DisableMarshalJSONObjectForm, size.MaxObjectKeys = a, b, c, d
	}
}

type (
	MyI8  int8
	MyI64 int64
	MyInt int
	MyU8  uint8
	MyU16 uint16
	MyU64 uint64
	MyF32 float32
	MyF64 float64
)

var typeNames = []string{"int", "int8", "int16", "int32", "int64", "uint", "uint8", "uint16", "uint32", "uint64", "float32", "float64", "MyI8", "MyI64", "MyInt", "MyU8", "MyU16", "MyU64", "MyF32", "MyF64"}

// exact returns the exact mathematical value of v (nil for NaN/Inf).
func exact(v any) (*big.Float, bool) {
	rv := reflect.ValueOf(v)
	switch rv.Kind() {
	case reflect.Int, reflect.Int8, reflect.Int16, reflect.Int32, reflect.Int64:
		return new(big.Float).SetPrec(128).SetInt64(rv.Int()), true
	case reflect.Uint, reflect.Uint8, reflect.Uint16, reflect.Uint32, reflect.Uint64:
		return new(big.Float).SetPrec(128).SetUint64(rv.Uint()), true
	default:
		f := rv.Float()
		if math.IsNaN(f) || math.IsInf(f, 0) {
			return nil, false
		}
		return new(big.Float).SetPrec(128).SetFloat64(f), true
	}
}

func judgeNew[N constraint.Numbers](c Case, w *vkit.W, v N) {
	unit := string(c.Unit)
	got, err := size.New(v, unit)
	ex, finite := exact(v)
	wantOK := false
	var want uint64
	var unitKnown, fits bool
	if finite && ex.IsInt() && ex.Sign() >= 0 {
		bi, _ := ex.Int(nil)
		want, unitKnown, fits = ref.Product(bi, unit)
		wantOK = unitKnown && fits
	} else if finite {
		_, unitKnown = ref.Multiplier(unit)
	}
	desc := fmt.Sprintf("size.New[%s](%v, %q)", c.Type, v, unit)
	if wantOK {
		if err != nil {
			w.Fail(c, "exact-product-refused", fmt.Sprintf("%s: exact product %d fits in 64 bits, library error %v", desc, want, err))
		} else if uint64(got) != want {
			w.Fail(c, "wrong-product", fmt.Sprintf("%s = %d, exact product is %d", desc, uint64(got), want))
		}
		return
	}
	if err == nil {
		w.Fail(c, "invalid-input-accepted", fmt.Sprintf("%s = %d without error (finite=%v unitKnown=%v fits=%v)", desc, uint64(got), finite, unitKnown, fits))
		return
	}
	if got != 0 {
		w.Fail(c, "nonzero-result-with-error", fmt.Sprintf("%s: error %v with result %d", desc, err, uint64(got)))
	}
	var ue *size.InvalidUnitError
	var ve *size.InvalidValueError[N]
	if !errors.As(err, &ue) && !errors.As(err, &ve) {
		w.Fail(c, "error-not-typed", fmt.Sprintf("%s: %T %v is neither *InvalidUnitError nor *InvalidValueError[%s]", desc, err, err, c.Type))
	}
}

func judgeBytes[N constraint.Numbers](c Case, w *vkit.W) {
	s := size.Size(c.Bits)
	got, ok := size.Bytes[N](s)
	var zero N
	k := reflect.TypeOf(zero).Kind()
	var representable bool
	switch k {
	case reflect.Float32, reflect.Float64:
		mant := 53
		if k == reflect.Float32 {
			mant = 24
		}
		x := c.Bits
		for x != 0 && x&1 == 0 {
			x >>= 1
		}
		representable = x < 1<<uint(mant)
	default:
		max := new(big.Int)
		switch k {
		case reflect.Int8:
			max.SetInt64(math.MaxInt8)
		case reflect.Int16:
			max.SetInt64(math.MaxInt16)
		case reflect.Int32:
			max.SetInt64(math.MaxInt32)
		case reflect.Int64, reflect.Int:
			max.SetInt64(math.MaxInt64)
		case reflect.Uint8:
			max.SetInt64(math.MaxUint8)
		case reflect.Uint16:
			max.SetInt64(math.MaxUint16)
		case reflect.Uint32:
			max.SetInt64(math.MaxUint32)
		default:
			max.SetUint64(math.MaxUint64)
		}
		representable = new(big.Int).SetUint64(c.Bits).Cmp(max) <= 0
	}
	desc := fmt.Sprintf("size.Bytes[%s](%d)", c.Type, c.Bits)
	if ok != representable {
		w.Fail(c, "bytes-ok-flag", fmt.Sprintf("%s = (%v, %v): exactly representable = %v", desc, got, ok, representable))
		return
	}
	if ok {
		ex, finite := exact(got)
		if !finite || ex.Cmp(new(big.Float).SetPrec(128).SetUint64(c.Bits)) != 0 {
			w.Fail(c, "bytes-value", fmt.Sprintf("%s = (%v, true): the returned number is not the size", desc, got))
		}
	} else if got != 0 {
		w.Fail(c, "bytes-nonzero-when-refused", fmt.Sprintf("%s = (%v, false)", desc, got))
	}
}

func fromBits[N constraint.Numbers](bits uint64) N {
	var zero N
	switch reflect.TypeOf(zero).Kind() {
	case reflect.Float32:
		f := math.Float32frombits(uint32(bits))
		return N(f)
	case reflect.Float64:
		// N(float64) keeps the value exactly only when N is float64-based; this branch is only taken then
		f := math.Float64frombits(bits)
		return N(f)
	case reflect.Int, reflect.Int8, reflect.Int16, reflect.Int32, reflect.Int64:
		i := int64(bits)
		return N(i) // truncation to the type's width is intended: bits carries the two's complement pattern
	default:
		return N(bits)
	}
}

func dispatch(c Case, w *vkit.W) {
	isNew := c.Kind == "new"
	switch c.Type {
	case "int":
		run[int](c, w, isNew)
	case "int8":
		run[int8](c, w, isNew)
	case "int16":
		run[int16](c, w, isNew)
	case "int32":
		run[int32](c, w, isNew)
	case "int64":
		run[int64](c, w, isNew)
	case "uint":
		run[uint](c, w, isNew)
	case "uint8":
		run[uint8](c, w, isNew)
	case "uint16":
		run[uint16](c, w, isNew)
	case "uint32":
		run[uint32](c, w, isNew)
	case "uint64":
		run[uint64](c, w, isNew)
	case "float32":
		run[float32](c, w, isNew)
	case "float64":
		run[float64](c, w, isNew)
	case "MyI8":
		run[MyI8](c, w, isNew)
	case "MyI64":
		run[MyI64](c, w, isNew)
	case "MyInt":
		run[MyInt](c, w, isNew)
	case "MyU8":
		run[MyU8](c, w, isNew)
	case "MyU16":
		run[MyU16](c, w, isNew)
	case "MyU64":
		run[MyU64](c, w, isNew)
	case "MyF32":
		run[MyF32](c, w, isNew)
	case "MyF64":
		run[MyF64](c, w, isNew)
	default:
		w.Fail(c, "bad-case", "unknown type "+c.Type)
	}
}

func run[N constraint.Numbers](c Case, w *vkit.W, isNew bool) {
	if isNew {
		judgeNew(c, w, fromBits[N](c.Bits))
	} else {
		judgeBytes[N](c, w)
	}
}

type (
	namedS string
	namedB []byte
)

func typedParse(err error) bool {
	var a *size.ParseError[string]
	var b *size.ParseError[[]byte]
	var c *size.ParseError[namedS]
	var d *size.ParseError[namedB]
	return errors.As(err, &a) || errors.As(err, &b) || errors.As(err, &c) || errors.As(err, &d)
}

func judgeText(c Case, w *vkit.W) {
	text := string(c.Text)
	if c.Limit != 0 {
		oldLimit := size.MaxInputLength
		size.MaxInputLength = c.Limit
		if c.Limit < 0 {
			size.MaxInputLength = 0
		}
		defer func() { size.MaxInputLength = oldLimit }()
	}
	v := ref.ParseSizeText(text)
	unitOff := c.Rule&int(size.RuleDisableUnit) != 0
	tooLong := size.MaxInputLength != 0 && len(text) > size.MaxInputLength
	accept := v.OK() && !(unitOff && v.Unit != "") && !tooLong
	either := accept && v.Dangling // trailing underscore / no-break space after the number: the statement does not say
	check := func(path string, got size.Size, err error) {
		if err == nil {
			if !accept {
				w.Fail(c, "invalid-text-accepted", fmt.Sprintf("%s(%q, rule=%d) = %d; oracle: shape=%v unit=%q known=%v fits=%v unitDisabled=%v", path, text, c.Rule, uint64(got), v.Shape, v.Unit, v.UnitKnown, v.Fits, unitOff))
			} else if uint64(got) != v.Value {
				w.Fail(c, "wrong-value", fmt.Sprintf("%s(%q) = %d, exact value is %d", path, text, uint64(got), v.Value))
			}
			return
		}
		if accept && !either {
			w.Fail(c, "valid-text-rejected", fmt.Sprintf("%s(%q, rule=%d): exact value %d, library error %v", path, text, c.Rule, v.Value, err))
			return
		}
		if got != 0 {
			w.Fail(c, "nonzero-result-with-error", fmt.Sprintf("%s(%q): error %v with result %d", path, text, err, uint64(got)))
		}
		if !typedParse(err) {
			w.Fail(c, "error-not-typed", fmt.Sprintf("%s(%q): %T %v is not a *size.ParseError", path, text, err, err))
		}
		if unitOff && v.OK() && v.Unit != "" && !tooLong && !errors.Is(err, size.ErrUnitDisabled) {
			w.Fail(c, "unit-disabled-error-missing", fmt.Sprintf("%s(%q, RuleDisableUnit): otherwise valid text with a unit must give ErrUnitDisabled, got %v", path, text, err))
		}
		if errors.Is(err, size.ErrUnitDisabled) && !(unitOff && v.Shape && v.Unit != "") {
			w.Fail(c, "unit-disabled-error-spurious", fmt.Sprintf("%s(%q, rule=%d): ErrUnitDisabled without a unit or without the rule", path, text, c.Rule))
		}
	}
	var got size.Size
	var err error
	if w.Flip() { // the order of the two instantiations alternates
		got, err = size.DefaultParser(text, size.Rule(c.Rule))
		check("DefaultParser[string]", got, err)
		got, err = size.DefaultParser(w.Scratch(text), size.Rule(c.Rule)) // a reused caller buffer
		check("DefaultParser[[]byte]", got, err)
	} else {
		got, err = size.DefaultParser(w.Scratch(text), size.Rule(c.Rule))
		check("DefaultParser[[]byte]", got, err)
		got, err = size.DefaultParser(text, size.Rule(c.Rule))
		check("DefaultParser[string]", got, err)
	}
	if v.Shape {
		got, err = size.DefaultParser(namedS(text), size.Rule(c.Rule))
		check("DefaultParser[named string]", got, err)
		got, err = size.DefaultParser(namedB(w.Scratch(text)), size.Rule(c.Rule))
		check("DefaultParser[named []byte]", got, err)
	}
	if c.Rule == 0 {
		s := size.Size(4242)
		err := s.UnmarshalText(w.Scratch(text))
		if err != nil {
			if s != 4242 {
				w.Fail(c, "receiver-changed-on-error", fmt.Sprintf("UnmarshalText(%q): error %v, receiver %d", text, err, uint64(s)))
			}
			s = 0
		}
		check("UnmarshalText", s, err)
	}
}

func judge(c Case, w *vkit.W) {
	defer func() {
		if p := recover(); p != nil {
			w.Fail(c, "panic", vkit.PanicDetail(p))
		}
	}()
	switch c.Kind {
	case "new", "bytes":
		dispatch(c, w)
	case "text":
		judgeText(c, w)
	default:
		w.Fail(c, "bad-case", "unknown kind "+c.Kind)
	}
}

var unitTexts = append([]string{""}, ref.Units...)
var badUnits = []string{"kb", "KB", "Kib", "kiB", "B ", " B", "iB", "b", "mB", "KiB ", "k", "E", "EiBB", "\x00", "é", "kB\n"}

// every real unit with one extra byte in front, behind or inside: nothing but the 18 exact spellings is a unit
func init() {
	for _, u := range ref.Units {
		for _, b := range []byte{0x00, 0x01, 0x7f, 0x80, 0xff, 'i', 'B', 'k', '0', '.', '\r'} {
			badUnits = append(badUnits, string(b)+u, u+string(b), u[:1]+string(b)+u[1:], string([]byte{b, b})+u)
		}
	}
}

func f64(f float64) uint64 { return math.Float64bits(f) }
func f32(f float32) uint64 { return uint64(math.Float32bits(f)) }

// valuePatterns returns interesting bit patterns for a type.
func valuePatterns(typ string) []uint64 {
	switch typ {
	case "float64", "MyF64":
		out := []uint64{f64(0), f64(math.Copysign(0, -1)), f64(1), f64(-1), f64(0.5), f64(1.5), f64(-0.5), f64(math.NaN()), f64(math.Inf(1)), f64(math.Inf(-1)), f64(math.SmallestNonzeroFloat64), f64(math.MaxFloat64),
			f64(1 << 53), f64(1<<53 - 1), f64(1<<53 + 2), f64(1 << 62), f64(1 << 63), f64(math.Nextafter(1<<63, 0)), f64(math.Nextafter(1<<63, math.Inf(1))), f64(1 << 64), f64(math.Nextafter(1<<64, 0)), f64(math.Nextafter(1<<64, math.Inf(1))),
			f64(1e3), f64(1e18), f64(1.8446744073709552e19), f64(1e19), f64(1e20), f64(18014398509481984), f64(1024), f64(1023.9999999999999), f64(16), f64(17), f64(18), f64(18446744073709), f64(18446744073710)}
		return out
	case "float32", "MyF32":
		return []uint64{f32(0), f32(float32(math.Copysign(0, -1))), f32(1), f32(-1), f32(0.5), f32(2.5), f32(float32(math.NaN())), f32(float32(math.Inf(1))), f32(float32(math.Inf(-1))), f32(math.SmallestNonzeroFloat32), f32(math.MaxFloat32),
			f32(1 << 24), f32(1<<24 - 1), f32(1<<24 + 2), f32(1 << 63), f32(math.Nextafter32(1<<63, 0)), f32(1 << 64), f32(math.Nextafter32(1<<64, 0)), f32(math.Nextafter32(1<<64, float32(math.Inf(1)))), f32(1e3), f32(1e19), f32(1e20), f32(16), f32(18), f32(1024)}
	}
	neg := func(v int64) uint64 { return uint64(v) }
	return []uint64{0, 1, 2, 10, 16, 17, 18, 127, 128, 255, 256, 1000, 1023, 1024, 32767, 32768, 65535, 65536, 1<<31 - 1, 1 << 31, 1<<32 - 1, 1 << 32, 1<<53 + 1, 1<<63 - 1, 1 << 63, ^uint64(0), ^uint64(0) - 1,
		neg(-1), neg(-2), neg(-128), neg(-129), neg(-32768), neg(-1 << 31), neg(math.MinInt64), 18446744073709551, 18446744073709552, 18014398509481983, 18014398509481984, 18014398509481985, 15, 16384}
}

func TestCheck(t *testing.T) {
	r := vkit.Start("C08")
	defer r.Finish(t)
	if r.ReplayCold() {
		return
	}
	if r.Replay != "" {
		var c Case
		if err := r.LoadReplay(&c); err != nil {
			t.Fatalf("replay: %v", err)
		}
		defer configureMarshal(c.Marshal)()
		r.Serial(func(w *vkit.W) { judge(c, w); w.Eval(true) })
		return
	}
	r.Rule("Cases: size.New[N] (20 numeric types incl. derived ones, value given by bit pattern) x unit; size.Bytes[N]; texts through DefaultParser (string, []byte, with/without RuleDisableUnit) and UnmarshalText. " +
		"Oracle: math/big - exact product or refusal; text grammar 'sp* digit (sep* digit)* sep* unit? sp*' with sep in {space, U+00A0, _}; a number followed only by _ or U+00A0 is unspecified (either verdict). " +
		"Non-trivial: value != 0 and (unit beyond kB/KiB/MiB, or within 1000 of an overflow boundary, or a float / separator / derived-type case). Distinct by construction (sweeps) or by hash (random, rapid).")
	r.Assume("float<->uint64 conversions outside the representable range behave as on linux/amd64 (recorded goarch)")
	r.Regress(func(raw json.RawMessage, w *vkit.W) error {
		var c Case
		if err := json.Unmarshal(raw, &c); err != nil {
			return err
		}
		judge(c, w)
		w.Eval(true)
		return nil
	})

	// Phase A: New[N] - every type x pattern x (18 units + unknown units)
	r.Phase("A: New[N] for 20 types x value patterns x 18 units + near-miss units", func() {
		r.Parallel(int64(len(typeNames)), 1, func(w *vkit.W, lo, hi int64) {
			for ti := lo; ti < hi; ti++ {
				typ := typeNames[ti]
				for _, bits := range valuePatterns(typ) {
					for _, u := range append(append([]string{}, unitTexts...), badUnits...) {
						c := Case{Kind: "new", Type: typ, Bits: bits, Unit: vkit.B(u)}
						judge(c, w)
						w.Eval(bits != 0)
						if bits == 1<<53+1 && u == "KiB" && w.WantSample() {
							w.Sample(c)
						}
					}
				}
			}
		})
	})

	// Phase B: overflow boundaries per multiplier unit through New[uint64], New[float64], New[int64] and the text form.
	span := int64(r.Pick(1000, 20000))
	r.Phase(fmt.Sprintf("B: every value within +-%d of floor((2^64-1)/multiplier) and of 0 for each unit, via New and text", span), func() {
		r.Parallel(int64(len(unitTexts)), 1, func(w *vkit.W, lo, hi int64) {
			for ui := lo; ui < hi; ui++ {
				u := unitTexts[ui]
				m, _ := ref.Multiplier(u)
				q := new(big.Int).Quo(new(big.Int).SetUint64(math.MaxUint64), m)
				centers := []*big.Int{big.NewInt(0), q}
				for _, cen := range centers {
					for d := -span; d <= span; d++ {
						v := new(big.Int).Add(cen, big.NewInt(d))
						if v.Sign() < 0 {
							continue
						}
						nt := v.Sign() != 0
						if v.IsUint64() {
							judge(Case{Kind: "new", Type: "uint64", Bits: v.Uint64(), Unit: vkit.B(u)}, w)
							w.Eval(nt)
							judge(Case{Kind: "new", Type: "MyU64", Bits: v.Uint64(), Unit: vkit.B(u)}, w)
							w.Eval(nt)
							if v.IsInt64() {
								judge(Case{Kind: "new", Type: "int64", Bits: v.Uint64(), Unit: vkit.B(u)}, w)
								w.Eval(nt)
							}
							judge(Case{Kind: "new", Type: "float64", Bits: f64(float64(v.Uint64())), Unit: vkit.B(u)}, w)
							w.EvalRandom(vkit.HashU(f64(float64(v.Uint64())), uint64(ui)), nt)
						}
						for _, text := range []string{v.String() + u, v.String() + " " + u, " " + ref.Group(v.String(), "_") + "\u00a0" + u + " ", "0" + v.String() + u, "0_0" + ref.Group(v.String(), " ") + " " + u + "   "} {
							for _, rule := range []int{0, int(size.RuleDisableUnit)} {
								judge(Case{Kind: "text", Text: vkit.B(text), Rule: rule}, w)
								w.Eval(nt)
							}
						}
					}
				}
			}
		})
	})
	r.Exhaustive(fmt.Sprintf("for each of the 18 units every value within +-%d of the overflow boundary and of 0, through New[uint64|MyU64|int64|float64] and five text spellings (separators, leading zeros) x 2 rules", span))

	// Phase C: Bytes[N]
	r.Phase("C: Bytes[N] for 20 types at type maxima, mantissa boundaries and the top 2049 values", func() {
		var vals []uint64
		for _, b := range []uint{0, 7, 8, 15, 16, 24, 31, 32, 53, 62, 63} {
			for d := int64(-3); d <= 3; d++ {
				vals = append(vals, uint64(int64(uint64(1)<<b)+d))
			}
		}
		for d := uint64(0); d <= 2048; d++ {
			vals = append(vals, math.MaxUint64-d)
		}
		for k := uint(0); k < 64; k++ {
			vals = append(vals, (1<<24-1)<<k>>0, (1<<24+1)<<k, (1<<53-1)<<(k%12), (1<<53+1)<<(k%11), 3<<k)
		}
		g := r.Rng("bytes", 0)
		for i := 0; i < r.Pick(20000, 1000000); i++ {
			vals = append(vals, g.U64()>>uint(g.Intn(64)))
		}
		r.Parallel(int64(len(vals)), 256, func(w *vkit.W, lo, hi int64) {
			for i := lo; i < hi; i++ {
				for _, typ := range typeNames {
					judge(Case{Kind: "bytes", Type: typ, Bits: vals[i]}, w)
					w.EvalRandom(vkit.HashU(vals[i], vkit.Hash64(typ)), vals[i] != 0)
				}
			}
		})
	})

	// Phase D: constraint helpers for derived types
	// Phase D2: Size.UnmarshalText honours RuleDisableUnit of DefaultRule (a package setting): boundary numbers without unit.
	r.Phase("D2: UnmarshalText under DefaultRule with RuleDisableUnit: numbers around 2^64 and texts with units", func() {
		old := size.DefaultRule
		defer func() { size.DefaultRule = old }()
		size.DefaultRule = old | size.RuleDisableUnit
		r.Serial(func(w *vkit.W) {
			top := new(big.Int).SetUint64(math.MaxUint64)
			for d := int64(-40); d <= 40; d++ {
				v := new(big.Int).Add(top, big.NewInt(d))
				for _, text := range []string{v.String(), " " + v.String(), ref.Group(v.String(), "_"), v.String() + "0", "0" + v.String(), v.String() + " B", v.String() + "kB"} {
					tv := ref.ParseSizeText(text)
					s := size.Size(4242)
					err := s.UnmarshalText(w.Scratch(text))
					c := Case{Kind: "text", Text: vkit.B(text), Rule: int(size.RuleDisableUnit)}
					want := tv.OK() && tv.Unit == ""
					switch {
					case want && (err != nil || uint64(s) != tv.Value):
						w.Fail(c, "unmarshaltext-under-default-rule", fmt.Sprintf("UnmarshalText(%q) with DefaultRule|RuleDisableUnit -> %d, %v; want %d", text, uint64(s), err, tv.Value))
					case !want && err == nil:
						w.Fail(c, "unmarshaltext-under-default-rule", fmt.Sprintf("UnmarshalText(%q) with DefaultRule|RuleDisableUnit -> %d without error", text, uint64(s)))
					case !want && s != 4242:
						w.Fail(c, "receiver-changed-on-error", fmt.Sprintf("UnmarshalText(%q): error %v, receiver %d", text, err, uint64(s)))
					}
					w.Eval(true)
				}
			}
		})
	})

	// Phase D3: the value x unit arithmetic of the JSON object form (exact or refused, also for value literals written
	// with a fraction or exponent: an integral one may be accepted with its exact value, anything else must be refused).
	r.Phase("D3: JSON object form {value, unit}: boundary integers and fraction/exponent literals x units", func() {
		lits := []string{"0", "1", "1023", "1024", "18446744073709551615", "18446744073709551616", "18014398509481983", "18014398509481984", "18014398509481985", "9007199254740993", "9007199254740993.0", "9007199254740992.0",
			"1.0", "1.5", "1e3", "1E3", "10e-1", "1.00000000000000000001", "1023.99999999999999999", "0.999999999999999999999", "18446744073709551615.0", "1.8446744073709551615e19", "1.8446744073709551616e19", "-0", "-1", "1e30", "0e999", "16384", "17.0e0",
			// a value member that is a JSON string is wrongly typed, whatever the string holds
			`"1"`, `"1.5"`, `"12abc"`, `"7e30"`, `""`, `"0"`, `" 3"`, `"18446744073709551616"`}
		r.Parallel(int64(len(lits)), 1, func(w *vkit.W, lo, hi int64) {
			for i := lo; i < hi; i++ {
				lit := lits[i]
				rat, okRat := new(big.Rat).SetString(lit)
				units := append([]string{}, unitTexts...)
				for _, bu := range append(append([]string{}, badUnits...), "0kB", "7", " B", "1", "00", "_kB", "1kB", "0") {
					printable := true
					for k := 0; k < len(bu); k++ {
						if bu[k] < 0x20 || bu[k] > 0x7e || bu[k] == '"' || bu[k] == '\\' {
							printable = false
						}
					}
					if printable && (i%4 == 0 || len(bu) <= 3) { // unknown units (as they are, no escaping needed) for a quarter of the literals
						units = append(units, bu)
					}
				}
				for _, u := range units {
					doc := `{"value":` + lit + `,"unit":"` + u + `"}`
					c := Case{Kind: "text", Text: vkit.B(doc), Rule: int(size.RuleEnableJSONObjectForm)}
					got, err := size.DefaultParser(doc, size.RuleEnableJSONObjectForm)
					got2, err2 := size.DefaultParser(w.Scratch(doc), size.RuleEnableJSONObjectForm|size.RuleEnableJSONStringForm)
					if (err == nil) != (err2 == nil) || got != got2 {
						w.Fail(c, "object-form-differs-between-inputs", fmt.Sprintf("DefaultParser(%s): string -> %d, %v; bytes -> %d, %v", doc, uint64(got), err, uint64(got2), err2))
					}
					plain := strings.Trim(lit, "0123456789") == ""
					var want uint64
					exactOK := false
					if okRat && rat.IsInt() && rat.Sign() >= 0 {
						v, known, fits := ref.Product(rat.Num(), u)
						exactOK, want = known && fits, v
					}
					switch {
					case err == nil && (!exactOK || uint64(got) != want):
						w.Fail(c, "wrong-product", fmt.Sprintf("DefaultParser(%s) = %d; the value is %s, exact product fits: %v (%d)", doc, uint64(got), lit, exactOK, want))
					case err != nil && exactOK && plain:
						w.Fail(c, "exact-product-refused", fmt.Sprintf("DefaultParser(%s): exact product %d, library error %v", doc, want, err))
					case err != nil && got != 0:
						w.Fail(c, "nonzero-result-with-error", fmt.Sprintf("DefaultParser(%s): %v with result %d", doc, err, uint64(got)))
					}
					w.Eval(lit != "0")
				}
			}
		})
	})

	r.Phase(fmt.Sprintf("D4: %d cold-start scenarios (which call comes first in a fresh process)", len(coldScenarios)), func() {
		r.Serial(func(w *vkit.W) {
			for _, sc := range coldScenarios {
				r.RunCold(w, sc, false)
				w.EvalRandom(vkit.Hash64("cold", sc), true)
			}
		})
	})

	r.Phase(fmt.Sprintf("W: %d conventional special texts (null, nil, unlimited, max, -1, ...) as whole texts and as units", len(ref.ConventionalTexts)), func() {
		r.Serial(func(w *vkit.W) {
			for _, text := range append(append([]string{}, ref.ConventionalTexts...), ref.Wrapped("10", "1 KiB")...) {
				for _, rule := range []int{0, 1, 8, 9} {
					judge(Case{Kind: "text", Text: vkit.B(text), Rule: rule}, w)
					w.EvalRandom(vkit.Hash64("W", text, strconv.Itoa(rule)), true)
					judge(Case{Kind: "text", Text: vkit.B("1 " + text), Rule: rule}, w)
					w.EvalRandom(vkit.Hash64("W1", text, strconv.Itoa(rule)), true)
				}
				for _, typ := range []string{"uint64", "float64", "int"} {
					judge(Case{Kind: "new", Type: typ, Bits: 0, Unit: vkit.B(text)}, w)
					w.EvalRandom(vkit.Hash64("Wn", text, typ), true)
				}
			}
		})
	})

	r.Phase("S: texts, New and Bytes under every setting of the marshalling switches and MaxObjectKeys = 1 (none of them is an input of parsing or arithmetic)", func() {
		texts := []string{"0", "7B", "1kB", "1 kB", "15 EiB", "16 EiB", "0 ZB", "1 ZB", "1 000 KiB", "1_024", "18446744073709551615", "18446744073709551616", "18014398509481983 KiB", "18014398509481984 KiB", " 2 MB ", "3\u00a0GiB", "1 xB", "kB", "", "-1", "1.5kB", "9 PB"}
		for m := 1; m < 16; m++ {
			restore := configureMarshal(m)
			r.Serial(func(w *vkit.W) {
				for _, text := range texts {
					for _, rule := range []int{0, 1} {
						judge(Case{Kind: "text", Text: vkit.B(text), Rule: rule, Marshal: m}, w)
						w.EvalRandom(vkit.Hash64("S", text, strconv.Itoa(rule), strconv.Itoa(m)), true)
					}
				}
				for _, typ := range []string{"uint64", "float64", "int8", "MyU16"} {
					for _, u := range []string{"", "B", "kB", "EiB", "ZB", "xB"} {
						for _, bits := range []uint64{0, 1, 18} {
							judge(Case{Kind: "new", Type: typ, Bits: bits, Unit: vkit.B(u), Marshal: m}, w)
							w.EvalRandom(vkit.Hash64("Sn", typ, u, strconv.Itoa(int(bits)), strconv.Itoa(m)), true)
						}
					}
				}
			})
			restore()
		}
	})

	r.Phase("R: runes that fold, truncate (low byte) or widen to a digit, a separator or a unit letter, inserted and substituted at every position of valid texts", func() {
		runes := ref.ConfusableRunes("0123456789 _kMGTPEZYiB\xa0")
		bases := []string{"12", "1 000 kB", "7 EiB", "1_0 KiB", "5", "1\u00a0000\u00a0B", "20MB"}
		r.Parallel(int64(len(runes)), 8, func(w *vkit.W, lo, hi int64) {
			for i := lo; i < hi; i++ {
				rs := string(runes[i])
				for _, base := range bases {
					for pos := 0; pos <= len(base); pos++ {
						if pos < len(base) && base[pos] >= 0x80 && base[pos] < 0xC0 {
							continue // not inside a multi-byte character of the base
						}
						texts := []string{base[:pos] + rs + base[pos:]}
						if pos < len(base) && base[pos] < 0x80 {
							texts = append(texts, base[:pos]+rs+base[pos+1:])
						}
						for _, text := range texts {
							for _, rule := range []int{0, 1} {
								judge(Case{Kind: "text", Text: vkit.B(text), Rule: rule}, w)
								w.EvalRandom(vkit.Hash64("R", text, strconv.Itoa(rule)), true)
							}
						}
					}
				}
			}
		})
	})

	// Phase L: numbers far longer than the default input limit, with the limit disabled or raised: zero padding of 100..5000
	// digits in front of small, boundary and overflowing numbers, and digit runs that long which overflow. number x unit is
	// exact or refused whatever the length of the text.
	r.Phase("L: numbers with 100..5000 padding zeros or digits (around 127/128/129 and 255/256/257 too) x boundary numbers x units, input limit disabled and raised", func() {
		r.Serial(func(w *vkit.W) {
			for _, z := range []int{100, 120, 126, 127, 128, 129, 130, 200, 255, 256, 257, 1000, 5000} {
				zeros := strings.Repeat("0", z)
				var texts []string
				for _, num := range []string{"", "0", "7", "42", "1024", "18014398509481984", "18446744073709551615", "18446744073709551616"} {
					for _, unit := range []string{"", "B", " kB", "KiB", "_MiB", " EiB", " EB"} {
						texts = append(texts, zeros+num+unit, " "+zeros+num+unit+" ")
					}
				}
				grouped := strings.Repeat("000_", z/4)
				texts = append(texts, grouped+"42 kB", grouped+"7", "1"+zeros, "1"+zeros+" B", strings.Repeat("9", z)+"KiB", zeros+"."+zeros+"1", zeros+"1."+zeros, "-"+zeros+"1", "-"+zeros)
				for _, text := range texts {
					for _, lim := range []int{-1, len(text) + 64, len(text)} {
						for _, rule := range []int{0, 1} {
							judge(Case{Kind: "text", Text: vkit.B(text), Rule: rule, Limit: lim}, w)
							w.EvalRandom(vkit.Hash64("L", text, strconv.Itoa(lim), strconv.Itoa(rule)), true)
						}
					}
				}
			}
		})
	})

	r.Phase("W3: a text parsed, then N distinct other texts (N = 1..200000 on a ladder around powers of two), then the same text again", func() {
		r.Serial(func(w *vkit.W) {
			filler := 0
			for li, n := range []int{1, 2, 3, 31, 32, 33, 63, 64, 65, 127, 128, 129, 255, 256, 257, 511, 512, 513, 1023, 1024, 1025, 2047, 2048, 2049, 4096, 8192, 65536, 200000} {
				x := strconv.Itoa(1000+li) + " " + ref.Units[1+li%12]
				y := "1_" + strconv.Itoa(100+n%900) + "KiB"
				for _, rule := range []int{0, 1} {
					judge(Case{Kind: "text", Text: vkit.B(x), Rule: rule}, w)
					judge(Case{Kind: "text", Text: vkit.B(y), Rule: rule}, w)
				}
				for k := 0; k < n; k++ {
					filler++
					t := strconv.Itoa(filler) + ref.Units[filler%7]
					if filler%2 == 0 {
						_, _ = size.DefaultParser(t, 0)
					} else {
						_, _ = size.DefaultParser([]byte(t), size.RuleDisableUnit)
					}
				}
				for _, rule := range []int{0, 1} {
					judge(Case{Kind: "text", Text: vkit.B(x), Rule: rule}, w)
					judge(Case{Kind: "text", Text: vkit.B(y), Rule: rule}, w)
				}
				w.EvalRandom(vkit.Hash64("W3", x), true)
			}
		})
	})

	r.Phase("F: texts and New judged while a custom package-level Formatter (bytes only) is installed", func() {
		old := size.Formatter
		defer func() { size.Formatter = old }()
		size.Formatter = func(buf []byte, s size.Size, f size.Format) ([]byte, error) {
			return append(strconv.AppendUint(buf, uint64(s), 10), " bytes"...), nil
		}
		r.Serial(func(w *vkit.W) {
			for _, text := range []string{"0", "7B", "1kB", "1 000 KiB", "15 EiB", "16 EiB", "0 ZB", "1 ZB", "18446744073709551615", "18446744073709551616", "1 xB", "7 bytes", "", "-1", "1.5kB"} {
				for _, rule := range []int{0, 1} {
					judge(Case{Kind: "text", Text: vkit.B(text), Rule: rule}, w)
					w.EvalRandom(vkit.Hash64("F", text, strconv.Itoa(rule)), true)
				}
			}
			for _, typ := range []string{"uint64", "float64", "int8"} {
				for _, u := range []string{"", "B", "kB", "EiB", "ZB", "xB"} {
					judge(Case{Kind: "new", Type: typ, Bits: 1, Unit: vkit.B(u)}, w)
					w.EvalRandom(vkit.Hash64("Fn", typ, u), true)
				}
			}
		})
	})

	// Phase E: rapid text grammar
	r.Phase("E: rapid text grammar with separators, leading zeros, long numbers and negative cases", func() {
		r.Rapid(t, "rapid-text", 0, r.Pick(40000, 2000000), func(rt *rapid.T, w *vkit.W) vkit.RapidCase {
			text := genText(rt)
			c := Case{Kind: "text", Text: vkit.B(text), Rule: rapid.SampledFrom([]int{0, 1, 0, 1, 8, 9}).Draw(rt, "rule")}
			judge(c, w)
			v := ref.ParseSizeText(text)
			switch {
			case v.OK() && v.Dangling:
				w.Class("E_dangling_separator")
			case v.OK():
				w.Class("E_valid")
			case v.Shape:
				w.Class("E_shape_ok_rejected")
			default:
				w.Class("E_malformed")
			}
			return vkit.RapidCase{Case: c, Hash: vkit.Hash64(text, strconv.Itoa(c.Rule)), NT: v.Shape && strings.Trim(v.Digits, "0") != ""}
		})
	})

	// Phase F: rapid New over random bit patterns of every type
	r.Phase("F: rapid New/Bytes with random bit patterns", func() {
		r.Rapid(t, "rapid-new", 1, r.Pick(40000, 2000000), func(rt *rapid.T, w *vkit.W) vkit.RapidCase {
			typ := rapid.SampledFrom(typeNames).Draw(rt, "type")
			var bits uint64
			switch {
			case strings.Contains(strings.ToLower(typ), "f64") || typ == "float64":
				if rapid.Bool().Draw(rt, "integral") {
					bits = f64(float64(rapid.Uint64().Draw(rt, "u") >> uint(rapid.IntRange(0, 63).Draw(rt, "shr"))))
				} else {
					bits = rapid.Uint64().Draw(rt, "bits")
				}
			case strings.Contains(strings.ToLower(typ), "f32") || typ == "float32":
				if rapid.Bool().Draw(rt, "integral") {
					bits = f32(float32(rapid.Uint64().Draw(rt, "u") >> uint(rapid.IntRange(0, 63).Draw(rt, "shr"))))
				} else {
					bits = uint64(rapid.Uint32().Draw(rt, "bits"))
				}
			default:
				bits = rapid.Uint64().Draw(rt, "u") >> uint(rapid.IntRange(0, 63).Draw(rt, "shr"))
				if rapid.IntRange(0, 4).Draw(rt, "neg") == 0 {
					bits = -bits
				}
			}
			c := Case{Kind: rapid.SampledFrom([]string{"new", "new", "bytes"}).Draw(rt, "kind"), Type: typ, Bits: bits}
			if c.Kind == "new" {
				c.Unit = vkit.B(rapid.SampledFrom(append(append([]string{}, unitTexts...), badUnits[:6]...)).Draw(rt, "unit"))
			}
			judge(c, w)
			return vkit.RapidCase{Case: c, Hash: vkit.Hash64(c.Kind, typ, string(c.Unit), strconv.FormatUint(bits, 16)), NT: bits != 0}
		})
	})
}

func genText(rt *rapid.T) string {
	var b strings.Builder
	b.WriteString(strings.Repeat(" ", rapid.IntRange(0, 2).Draw(rt, "lead")))
	switch rapid.IntRange(0, 9).Draw(rt, "negCase") {
	case 0:
		b.WriteString(rapid.SampledFrom([]string{"_", "\u00a0", "-", "+", ".", "x", "\t"}).Draw(rt, "badLead"))
	}
	nd := rapid.IntRange(1, 30).Draw(rt, "digits")
	if rapid.Bool().Draw(rt, "short") {
		nd = rapid.IntRange(1, 6).Draw(rt, "digitsShort")
	}
	seps := []string{"", "", "", " ", "_", "\u00a0", "  ", "_ "}
	for i := 0; i < nd; i++ {
		d := rapid.IntRange(0, 9).Draw(rt, "d")
		if i == 0 && rapid.IntRange(0, 3).Draw(rt, "leadingZero") == 0 {
			d = 0
		}
		b.WriteByte(byte('0' + d))
		if i+1 < nd {
			b.WriteString(rapid.SampledFrom(seps).Draw(rt, "sep"))
		}
	}
	switch rapid.IntRange(0, 11).Draw(rt, "tail") {
	case 0:
		b.WriteString(rapid.SampledFrom([]string{".5", "e3", "E3", ",0", "x1", "-", "\n"}).Draw(rt, "garbage"))
	case 1, 2, 3, 4, 5, 6:
		b.WriteString(rapid.SampledFrom(seps).Draw(rt, "unitSep"))
		b.WriteString(rapid.SampledFrom(ref.Units).Draw(rt, "unit"))
	case 7:
		b.WriteString(rapid.SampledFrom(seps).Draw(rt, "unitSep"))
		b.WriteString(rapid.SampledFrom(badUnits).Draw(rt, "badUnit"))
	case 8:
		b.WriteString(rapid.SampledFrom([]string{"_", "\u00a0", " _", "_ "}).Draw(rt, "dangling"))
	case 9:
		b.WriteString(rapid.SampledFrom(ref.Units).Draw(rt, "unit"))
		b.WriteString(rapid.SampledFrom([]string{"1", " 1", "_", "s"}).Draw(rt, "afterUnit"))
	}
	b.WriteString(strings.Repeat(" ", rapid.IntRange(0, 3).Draw(rt, "trail")))
	return b.String()
}
