package c08

import (
	"testing"

	"go.lstv.dev/util/size"

	"verifharness/vkit"
)

var coldScenarios = []string{"parse 5KiB", "parse bytes 18 EB", "new float64", "new int8 negative", "bytes float32", "object form", "parse zero unit", "shorten"}

func coldFirst(scenario string) {
	switch scenario {
	case "parse 5KiB":
		_, _ = size.DefaultParser("5KiB", 0)
	case "parse bytes 18 EB":
		_, _ = size.DefaultParser([]byte("18 EB"), 0)
	case "new float64":
		_, _ = size.New(1e19, "")
	case "new int8 negative":
		_, _ = size.New(int8(-1), "kB")
	case "bytes float32":
		_, _ = size.Bytes[float32](1<<24 + 1)
	case "object form":
		_, _ = size.DefaultParser(`{"value":3,"unit":"PiB"}`, size.RuleEnableJSONObjectForm)
	case "parse zero unit":
		_, _ = size.DefaultParser("0 YiB", 0)
	case "shorten":
		_, _ = size.Size(1 << 50).Shorten()
	default:
		panic("unknown cold scenario " + scenario)
	}
}

func TestColdStart(t *testing.T) {
	scenario := vkit.ColdScenario()
	if scenario == "" {
		t.Skip("not a cold-start child")
	}
	r := vkit.Start("C08")
	w := r.NewW()
	w.Guard(map[string]string{"first_call": scenario}, func() { coldFirst(scenario) })
	for _, u := range unitTexts {
		for _, bits := range []uint64{0, 1, 15, 16, 17, 18, 1024, 18446744073709551, 18446744073709552} {
			judge(Case{Kind: "new", Type: "uint64", Bits: bits, Unit: vkit.B(u)}, w)
		}
		for _, tx := range []string{"1" + u, "16 " + u, "0" + u, "18 " + u} {
			judge(Case{Kind: "text", Text: vkit.B(tx)}, w)
		}
	}
	// the texts the first call may have read
	for _, tx := range []string{"5KiB", "18 EB", "0 YiB", "5 KiB", "18EB"} {
		judge(Case{Kind: "text", Text: vkit.B(tx)}, w)
	}
	for _, typ := range typeNames {
		for _, bits := range []uint64{0, 1, 1<<24 + 1, 1<<53 + 1, 1 << 63} {
			judge(Case{Kind: "bytes", Type: typ, Bits: bits}, w)
		}
	}
	vkit.ColdReport(t, w)
}
