package c10

import (
	"testing"

	"verifharness/vkit"
)

// FuzzRomanText: differential fuzzing of the roman parser/Valid against the group evaluator (thorough tier).
func FuzzRomanText(f *testing.F) {
	for _, s := range []string{"", "I", "IV", "MCMXCIV", "mdclxvi", "XLII", "CCCC", "iX", "IIIII", "VX", "MMMMMMMMMM", "Ⅳ", "ſ"} {
		f.Add([]byte(s), 0)
		f.Add([]byte(s), 1)
	}
	f.Fuzz(func(t *testing.T, in []byte, rule int) {
		if len(in) > 256 {
			return
		}
		w := vkit.FuzzW("C10")
		c := Case{Text: vkit.B(in), Rule: rule}
		judge(c, w)
		vkit.FuzzReport(t, "C10", w, c)
	})
}
