// C10: the roman parser recognises exactly the documented numerals with the right value.
package c10

import (
	"encoding/json"
	"errors"
	"fmt"
	"math"
	"strconv"
	"strings"
	"testing"

	"go.lstv.dev/util/roman"
	"pgregory.net/rapid"

	"verifharness/ref"
	"verifharness/vkit"
)

// Case is a text under one rule (MaxInputLength stays at the package default 128; the limit itself is C18's business).
type Case struct {
	Text vkit.B `json:"text"`
	Rule int    `json:"rule"`
	// Limit: roman.MaxInputLength for the case: 0 = package default (128), -1 = disabled, n > 0 = n.
	Limit int `json:"max_input_length,omitempty"`
	// Lead: this many M are put in front of Text (numerals worth more than 2^32 take megabytes).
	Lead int `json:"leading_m,omitempty"`
}

func setLimit(l int) func() {
	old := roman.MaxInputLength
	switch {
	case l < 0:
		roman.MaxInputLength = 0
	case l > 0:
		roman.MaxInputLength = l
	}
	return func() { roman.MaxInputLength = old }
}

const sentinel = roman.Number(777)

type (
	namedS string
	namedB []byte
)

func typed(err error) bool {
	switch err.(type) {
	case nil:
		return false
	case *roman.NumberFormatError[string], *roman.NumberFormatError[[]byte]:
		return true
	}
	var a *roman.NumberFormatError[string]
	var b *roman.NumberFormatError[[]byte]
	var c *roman.NumberFormatError[namedS]
	var d *roman.NumberFormatError[namedB]
	return errors.As(err, &a) || errors.As(err, &b) || errors.As(err, &c) || errors.As(err, &d)
}

func judge(c Case, w *vkit.W) {
	defer func() {
		if p := recover(); p != nil {
			w.Fail(c, "panic", vkit.PanicDetail(p))
		}
	}()
	text := string(c.Text)
	if c.Lead > 0 {
		text = strings.Repeat("M", c.Lead) + text
	}
	heavy := len(text) > 1<<20 // megabyte numerals: only the three main entry points (each call takes seconds)
	shown := text
	if heavy {
		shown = fmt.Sprintf("<%d x M>%s", c.Lead, c.Text)
	}
	rule := roman.Rule(c.Rule)
	want, ok := ref.RomanValue(text)
	if text == "" && c.Rule&int(roman.RuleDisableEmptyAsZero) != 0 {
		ok = false
	}
	tooLong := roman.MaxInputLength != 0 && len(text) > roman.MaxInputLength
	if tooLong {
		ok = false
	}
	parse := func(path string, got roman.Number, err error) {
		if ok {
			if err != nil {
				w.Fail(c, "numeral-rejected", fmt.Sprintf("%s(%q, rule=%d): oracle value %d, library error %v", path, shown, c.Rule, want, err))
			} else if uint64(got) != want {
				w.Fail(c, "wrong-value", fmt.Sprintf("%s(%q): oracle value %d, library %d", path, shown, want, uint64(got)))
			}
			return
		}
		if err == nil {
			w.Fail(c, "non-numeral-accepted", fmt.Sprintf("%s(%q, rule=%d): not a numeral, library returned %d", path, shown, c.Rule, uint64(got)))
			return
		}
		if got != 0 {
			w.Fail(c, "nonzero-result-with-error", fmt.Sprintf("%s(%q): error %v with result %d", path, shown, err, uint64(got)))
		}
		if !typed(err) {
			w.Fail(c, "error-not-typed", fmt.Sprintf("%s(%q): %T %v is not a *roman.NumberFormatError", path, shown, err, err))
		}
		if errors.Is(err, roman.ErrInputTooLong) != tooLong {
			w.Fail(c, "input-too-long-mismatch", fmt.Sprintf("%s(%q): len %d limit %d ErrInputTooLong=%v", path, shown, len(text), roman.MaxInputLength, !tooLong))
		}
	}
	valid := func(path string, err error) {
		if ok && err != nil {
			w.Fail(c, "valid-rejects-numeral", fmt.Sprintf("%s(%q, rule=%d): %v", path, shown, c.Rule, err))
		}
		if !ok && err == nil {
			w.Fail(c, "valid-accepts-non-numeral", fmt.Sprintf("%s(%q, rule=%d) = nil", path, shown, c.Rule))
		}
		if !ok && err != nil && !typed(err) {
			w.Fail(c, "error-not-typed", fmt.Sprintf("%s(%q): %T %v is not a *roman.NumberFormatError", path, shown, err, err))
		}
	}
	var n roman.Number
	var err error
	if w.Flip() { // the order of the two instantiations alternates
		n, err = roman.DefaultParser(text, rule)
		parse("DefaultParser[string]", n, err)
		n, err = roman.DefaultParser(w.Scratch(text), rule) // a reused caller buffer
		parse("DefaultParser[[]byte]", n, err)
	} else {
		n, err = roman.DefaultParser(w.Scratch(text), rule)
		parse("DefaultParser[[]byte]", n, err)
		n, err = roman.DefaultParser(text, rule)
		parse("DefaultParser[string]", n, err)
	}
	valid("Valid[string]", roman.Valid(text, rule))
	if heavy {
		return
	}
	valid("Valid[[]byte]", roman.Valid(w.Scratch(text), rule))
	if ok || len(text) < 3 {
		// derived input types (constraint.ParserInput is ~string | ~[]byte)
		n, err = roman.DefaultParser(namedS(text), rule)
		parse("DefaultParser[named string]", n, err)
		n, err = roman.DefaultParser(namedB(w.Scratch(text)), rule)
		parse("DefaultParser[named []byte]", n, err)
		valid("Valid[named string]", roman.Valid(namedS(text), rule))
		valid("Valid[named []byte]", roman.Valid(namedB(w.Scratch(text)), rule))
	}
	if c.Rule == 0 {
		v := sentinel
		err := v.UnmarshalText(w.Scratch(text))
		if err != nil {
			if v != sentinel {
				w.Fail(c, "receiver-changed-on-error", fmt.Sprintf("UnmarshalText(%q): error %v, receiver %d", shown, err, uint64(v)))
			}
			v = 0
		}
		parse("UnmarshalText", v, err)
	}
}

var letters = []byte("IVXLCDM")

func applyMask(s []byte, mask uint64, out []byte) []byte {
	out = out[:0]
	for i, ch := range s {
		if mask>>uint(i)&1 == 1 {
			ch += 'a' - 'A'
		}
		out = append(out, ch)
	}
	return out
}

func TestCheck(t *testing.T) {
	r := vkit.Start("C10")
	defer r.Finish(t)
	if r.ReplayCold() {
		return
	}
	if r.Replay != "" {
		var c Case
		if err := r.LoadReplay(&c); err != nil {
			t.Fatalf("replay: %v", err)
		}
		defer setLimit(c.Limit)()
		r.Serial(func(w *vkit.W) { judge(c, w); w.Eval(true) })
		return
	}
	r.Rule("Cases are (text, rule) pairs judged through DefaultParser[string], DefaultParser[[]byte], Valid[string], Valid[[]byte] and (rule 0) UnmarshalText " +
		"against a regexp-free group evaluator (self-tested against a rule-based numeral builder). " +
		"Non-trivial: non-empty texts the oracle accepts, and one-byte/one-rune mutations of accepted numerals. " +
		"Distinct: enumerated (letters, case mask, rule) triples are distinct by construction; mutations and rapid cases are de-duplicated by hash.")
	r.Regress(func(raw json.RawMessage, w *vkit.W) error {
		var c Case
		if err := json.Unmarshal(raw, &c); err != nil {
			return err
		}
		defer setLimit(c.Limit)()
		judge(c, w)
		w.Eval(true)
		return nil
	})
	rules := []int{0, int(roman.RuleDisableEmptyAsZero), int(roman.RuleDisableEmptyAsZero) | 1<<5, -2}

	// Phase A: every string over the seven letters up to length L; all case masks up to length allMasks, else upper, lower and 4 seeded masks.
	L := r.Pick(7, 9)
	allMasks := r.Pick(5, 7)
	r.Phase(fmt.Sprintf("A: all strings over {I,V,X,L,C,D,M} up to length %d (all 2^len case masks up to length %d, upper+lower+4 seeded masks beyond)", L, allMasks), func() {
		for n := 0; n <= L; n++ {
			total := int64(1)
			for i := 0; i < n; i++ {
				total *= 7
			}
			n := n
			r.Parallel(total, 2048, func(w *vkit.W, lo, hi int64) {
				buf := make([]byte, n)
				out := make([]byte, n)
				for i := lo; i < hi; i++ {
					x := i
					for k := n - 1; k >= 0; k-- {
						buf[k] = letters[x%7]
						x /= 7
					}
					_, acc := ref.RomanValue(string(buf))
					nt := acc && n > 0
					run := func(mask uint64) {
						text := string(applyMask(buf, mask, out))
						for _, rule := range rules {
							judge(Case{Text: vkit.B(text), Rule: rule}, w)
							w.Eval(nt)
						}
					}
					if n <= allMasks {
						for m := uint64(0); m < 1<<uint(n); m++ {
							run(m)
						}
					} else {
						full := uint64(1)<<uint(n) - 1
						run(0)
						run(full)
						g := r.Rng("mask", i)
						seen := map[uint64]bool{0: true, full: true}
						for k := 0; k < 4; k++ {
							m := g.U64() & full
							if !seen[m] {
								seen[m] = true
								run(m)
							}
						}
					}
					if nt {
						w.Class("A_accepted_letter_strings")
						if w.WantSample() && n >= 4 {
							w.Sample(Case{Text: vkit.B(string(applyMask(buf, 0x5, out))), Rule: 0})
						}
					}
				}
			})
		}
	})
	r.Exhaustive(fmt.Sprintf("every string over {I,V,X,L,C,D,M} of length 0..%d in upper and lower case x 2 rules; every case mask for length <= %d", L, allMasks))

	// Phase A2: every combination of the twelve forms of each group (additive and subtractive, short and long) behind 0-3 and
	// 20 leading M, in upper, lower and alternating case: reaches the longest numerals (15 symbols after the thousands).
	for _, lim := range []int{0, -1, 14, 300} {
		lim := lim
		r.Phase(fmt.Sprintf("A2: all 12 x 12 x 12 group-form combinations x leading M counts x 3 letter cases, MaxInputLength setting %d (0 = default 128, -1 = disabled)", lim), func() {
			defer setLimit(lim)()
			forms := func(one, five, ten string) []string {
				return []string{"", one, one + one, one + one + one, one + five, one + one + one + one, five, five + one, five + one + one, five + one + one + one, one + ten, five + one + one + one + one}
			}
			hs, ts, us := forms("C", "D", "M"), forms("X", "L", "C"), forms("I", "V", "X")
			r.Parallel(int64(len(hs)*len(ts)), 4, func(w *vkit.W, lo, hi int64) {
				for k := lo; k < hi; k++ {
					for _, u := range us {
						for _, ms := range []int{0, 1, 2, 3, 20, 113, 114, 125, 126, 127, 128, 129, 130, 255, 256, 290} {
							if ms > 20 && (lim == 0 && ms > 130 || k%12 != 0 || u == "") {
								continue // long numerals: a thinner sample
							}
							base := []byte(strings.Repeat("M", ms) + hs[k/int64(len(ts))] + ts[k%int64(len(ts))] + u)
							out := make([]byte, len(base))
							for _, mask := range []uint64{0, ^uint64(0), 0x5555555555555555} {
								text := string(applyMask(base, mask, out))
								for _, rule := range rules {
									judge(Case{Text: vkit.B(text), Rule: rule, Limit: lim}, w)
									w.Eval(len(text) > 0)
								}
							}
						}
					}
				}
			})
		})
	}
	r.Exhaustive("every combination of the 12 forms (additive/subtractive, short/long) of the hundreds, tens and units groups behind 0,1,2,3,20 leading M in three letter cases")

	// Phase B: one foreign byte (all 256 values) or one confusable rune substituted/inserted at each position of accepted numerals.
	nBase := r.Pick(300, 6000)
	var aliasRunes []string
	for _, rn := range ref.ConfusableRunes("IVXLCDMivxlcdm") {
		aliasRunes = append(aliasRunes, string(rn))
	}
	r.Phase(fmt.Sprintf("B0: %d runes that fold or truncate to a roman letter, substituted/inserted at every position of numerals", len(aliasRunes)), func() {
		bases := []string{"MCMXCIV", "mdclxvi", "XLII", "I", "MMXXIV", "dccc", ""}
		r.Parallel(int64(len(aliasRunes)), 8, func(w *vkit.W, lo, hi int64) {
			for i := lo; i < hi; i++ {
				for _, base := range bases {
					for pos := 0; pos <= len(base); pos++ {
						for _, rule := range rules[:2] {
							m := base[:pos] + aliasRunes[i] + base[pos:]
							judge(Case{Text: vkit.B(m), Rule: rule}, w)
							w.EvalRandom(vkit.Hash64(m, strconv.Itoa(rule)), true)
							if pos < len(base) {
								m = base[:pos] + aliasRunes[i] + base[pos+1:]
								judge(Case{Text: vkit.B(m), Rule: rule}, w)
								w.EvalRandom(vkit.Hash64(m, strconv.Itoa(rule)), true)
							}
						}
					}
				}
			}
		})
	})
	confusables := []string{"ſ", "K", "İ", "ı", "Ⅰ", "Ⅿ", "Ⅴ", "Ⅹ", "Ⅼ", "Ⅽ", "Ⅾ", "ⅿ", "Ｉ", "Ｖ", "Ι", "М", "І"}
	r.Phase(fmt.Sprintf("B: foreign byte/rune mutations of %d accepted numerals", nBase), func() {
		r.Parallel(int64(nBase), 4, func(w *vkit.W, lo, hi int64) {
			for i := lo; i < hi; i++ {
				g := r.Rng("base", i)
				n := uint64(g.Intn(4000))
				if i%7 == 0 {
					n = uint64(g.Intn(60000))
				}
				base := []byte(ref.RomanNumeral(n, g.Intn(128)))
				if g.Bool() { // random case mask
					for k := range base {
						if g.Bool() {
							base[k] ^= 0x20
						}
					}
				}
				emit := func(m string) {
					for _, rule := range rules {
						judge(Case{Text: vkit.B(m), Rule: rule}, w)
						w.EvalRandom(vkit.Hash64(m, strconv.Itoa(rule)), true)
					}
				}
				for pos := 0; pos <= len(base); pos++ {
					for v := 0; v < 256; v++ {
						if pos < len(base) && byte(v) != base[pos] {
							m := append([]byte{}, base...)
							m[pos] = byte(v)
							emit(string(m))
						}
						emit(string(base[:pos]) + string([]byte{byte(v)}) + string(base[pos:]))
					}
					for _, cf := range confusables {
						emit(string(base[:pos]) + cf + string(base[pos:]))
						if pos < len(base) {
							emit(string(base[:pos]) + cf + string(base[pos+1:]))
						}
					}
					if pos < len(base) {
						emit(string(base[:pos]) + string(base[pos+1:]))
					}
				}
				if w.WantSample() && len(base) > 2 {
					w.Sample(Case{Text: vkit.B(string(base[:1]) + "ſ" + string(base[1:])), Rule: 0})
				}
			}
		})
	})
	r.Sampled()

	// Phase G: "any number of M": numerals worth more than 2^32 (the parser's arithmetic must be 64 bits wide throughout).
	r.Phase("G: numerals with 4,294,967-4,294,968 leading M (values just above 2^32), limit disabled, DefaultParser[string], DefaultParser[[]byte], Valid", func() {
		defer setLimit(-1)()
		giants := []Case{{Text: "CDXLIV", Lead: 4294968, Limit: -1}, {Text: "cmxcix", Lead: 4294967, Limit: -1}}
		if r.Thorough() {
			giants = append(giants, Case{Text: "", Lead: 8589935, Limit: -1}, Case{Text: "IIX", Lead: 4294968, Limit: -1}, Case{Text: "ccxcvi", Lead: 4294967, Limit: -1})
		}
		r.Parallel(int64(len(giants)), 1, func(w *vkit.W, lo, hi int64) {
			for i := lo; i < hi; i++ {
				judge(giants[i], w)
				w.EvalRandom(vkit.Hash64("G", string(giants[i].Text), strconv.Itoa(giants[i].Lead)), true)
			}
		})
	})

	r.Phase("W3: a numeral parsed, then N distinct other numerals (N = 1..200000 on a ladder around powers of two), then the same numeral again", func() {
		r.Serial(func(w *vkit.W) {
			filler := uint64(0)
			for li, n := range []int{1, 2, 3, 31, 32, 33, 63, 64, 65, 127, 128, 129, 255, 256, 257, 511, 512, 513, 1023, 1024, 1025, 2047, 2048, 2049, 4096, 8192, 65536, 200000} {
				x := ref.RomanNumeral(uint64(3000+li*37), li%128)
				y := strings.ToLower(ref.RomanNumeral(uint64(88+n%900), 0))
				for _, rule := range rules[:2] {
					judge(Case{Text: vkit.B(x), Rule: rule}, w)
					judge(Case{Text: vkit.B(y), Rule: rule}, w)
				}
				for k := 0; k < n; k++ {
					filler++
					t := ref.RomanNumeral(filler%100000, int(filler%128))
					if filler%2 == 0 {
						_, _ = roman.DefaultParser(t, 0)
					} else {
						_ = roman.Valid([]byte(t), 0)
					}
				}
				for _, rule := range rules[:2] {
					judge(Case{Text: vkit.B(x), Rule: rule}, w)
					judge(Case{Text: vkit.B(y), Rule: rule}, w)
				}
				w.EvalRandom(vkit.Hash64("W3", x), true)
			}
		})
	})

	r.Phase("F: texts judged while a custom package-level Formatter (decimal digits) is installed", func() {
		old := roman.Formatter
		defer func() { roman.Formatter = old }()
		roman.Formatter = func(buf []byte, n roman.Number, f roman.Format) ([]byte, error) {
			return strconv.AppendUint(buf, uint64(n), 10), nil
		}
		r.Serial(func(w *vkit.W) {
			for _, text := range []string{"", "I", "iv", "MCMXCIV", "mdclxvi", "IIII", "IIX", "VX", "1994", "MMXXIV ", "DCCCCLXXXXVIIII", "x"} {
				for _, rule := range rules {
					judge(Case{Text: vkit.B(text), Rule: rule}, w)
					w.EvalRandom(vkit.Hash64("F", text, strconv.Itoa(rule)), true)
				}
			}
		})
	})

	// Phase W: texts that programs conventionally treat specially ("null", "nil", "", "0", "N", ...) through every entry point.
	r.Phase(fmt.Sprintf("W: %d conventional special texts (null, nil, none, 0, nulla, ...) x rules x limits through every entry point", len(ref.ConventionalTexts)), func() {
		for _, lim := range []int{0, -1, 4, math.MaxInt, math.MaxInt - 1, 1 << 31, 1 << 32} {
			restore := setLimit(lim)
			r.Serial(func(w *vkit.W) {
				for _, text := range append(append([]string{}, ref.ConventionalTexts...), ref.Wrapped("IX", "mcmxciv", "")...) {
					for _, rule := range rules {
						judge(Case{Text: vkit.B(text), Rule: rule, Limit: lim}, w)
						w.EvalRandom(vkit.Hash64("W", text, strconv.Itoa(rule), strconv.Itoa(lim)), true)
					}
				}
			})
			restore()
		}
	})

	r.Phase(fmt.Sprintf("X: %d cold-start scenarios (which roman call comes first in a fresh process)", len(coldScenarios)), func() {
		r.Serial(func(w *vkit.W) {
			for _, sc := range coldScenarios {
				r.RunCold(w, sc, false)
				w.EvalRandom(vkit.Hash64("cold", sc), true)
			}
		})
	})

	// Phase C: rapid - numerals of larger numbers with random flags and case, optionally edited (shrinks to a minimal text).
	r.Phase("C: rapid numerals with edits", func() {
		r.Rapid(t, "rapid-numerals", 0, r.Pick(20000, 500000), func(rt *rapid.T, w *vkit.W) vkit.RapidCase {
			n := rapid.Uint64Range(0, 125000).Draw(rt, "n")
			if rapid.Bool().Draw(rt, "small") {
				n %= 4000
			}
			b := []byte(ref.RomanNumeral(n, rapid.IntRange(0, 127).Draw(rt, "flags")))
			mask := rapid.Uint64().Draw(rt, "caseMask")
			for k := range b {
				if mask>>(uint(k)%64)&1 == 1 {
					b[k] ^= 0x20
				}
			}
			edits := rapid.IntRange(0, 2).Draw(rt, "edits")
			for e := 0; e < edits && len(b) > 0; e++ {
				pos := rapid.IntRange(0, len(b)-1).Draw(rt, "pos")
				switch rapid.IntRange(0, 3).Draw(rt, "kind") {
				case 0:
					b[pos] = rapid.SampledFrom(append([]byte("ivxlcdm \t\n0Oo"), letters...)).Draw(rt, "sym")
				case 1:
					b = append(b[:pos], b[pos+1:]...)
				case 2:
					b = append(b[:pos], append([]byte{rapid.SampledFrom(append([]byte("ivxlcdm"), letters...)).Draw(rt, "ins")}, b[pos:]...)...)
				default:
					b[pos] = rapid.Byte().Draw(rt, "byte")
				}
			}
			c := Case{Text: vkit.B(b), Rule: rapid.SampledFrom([]int{0, 1, 2, 3, -1}).Draw(rt, "rule")}
			judge(c, w)
			_, acc := ref.RomanValue(string(b))
			return vkit.RapidCase{Case: c, Hash: vkit.Hash64(string(b), strconv.Itoa(c.Rule)), NT: len(b) > 0 && (acc || edits > 0)}
		})
	})
}
