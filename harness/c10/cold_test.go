package c10

import (
	"strconv"
	"strings"
	"testing"

	"go.lstv.dev/util/roman"

	"verifharness/vkit"
)

// coldScenarios name the call that is made first in a fresh process; afterwards ordinary cases are judged.
var coldScenarios = []string{"valid string", "valid bytes lower under rule", "valid empty", "valid invalid", "parse string", "parse bytes mixed", "parse empty under rule", "parse invalid", "parse foreign byte", "unmarshaltext", "unmarshaltext invalid", "format", "first parse while a custom Formatter is installed", "first parses under MaxInputLength 1", "first parses under MaxInputLength 4", "first parses under MaxInputLength 6", "first parses under MaxInputLength 0"}

func coldFirst(scenario string) {
	if strings.HasPrefix(scenario, "first parses under MaxInputLength ") {
		// the limit is a setting: the process starts parsing under another one, which is then put back
		lim, _ := strconv.Atoi(strings.TrimPrefix(scenario, "first parses under MaxInputLength "))
		old := roman.MaxInputLength
		roman.MaxInputLength = lim
		_, _ = roman.DefaultParser("MCMXCIV", 0)
		_ = roman.Valid([]byte("mdclxvi"), 0)
		var n roman.Number
		_ = n.UnmarshalText([]byte("xlii"))
		roman.MaxInputLength = old
		return
	}
	switch scenario {
	case "valid string":
		_ = roman.Valid("MCMXCIV", 0)
	case "valid bytes lower under rule":
		_ = roman.Valid([]byte("mdclxvi"), roman.RuleDisableEmptyAsZero)
	case "valid empty":
		_ = roman.Valid("", 0)
	case "valid invalid":
		_ = roman.Valid("IIX", 0)
	case "parse string":
		_, _ = roman.DefaultParser("MMXXIV", 0)
	case "parse bytes mixed":
		_, _ = roman.DefaultParser([]byte("mCdXlIv"), 0)
	case "parse empty under rule":
		_, _ = roman.DefaultParser("", roman.RuleDisableEmptyAsZero)
	case "parse invalid":
		_, _ = roman.DefaultParser("VX", 0)
	case "parse foreign byte":
		_, _ = roman.DefaultParser([]byte("X\xffI"), 0)
	case "unmarshaltext":
		var n roman.Number
		_ = n.UnmarshalText([]byte("xlii"))
	case "unmarshaltext invalid":
		var n roman.Number
		_ = n.UnmarshalText([]byte("null"))
	case "format":
		_ = roman.Number(1994).String()
	case "first parse while a custom Formatter is installed":
		old := roman.Formatter
		roman.Formatter = func(buf []byte, n roman.Number, f roman.Format) ([]byte, error) {
			return append(buf, "#"+strconv.FormatUint(uint64(n), 10)...), nil
		}
		_, _ = roman.DefaultParser("XIV", 0)
		_ = roman.Valid("xiv", 0)
		var n roman.Number
		_ = n.UnmarshalText([]byte("MCM"))
		roman.Formatter = old
	default:
		panic("unknown cold scenario " + scenario)
	}
}

func TestColdStart(t *testing.T) {
	scenario := vkit.ColdScenario()
	if scenario == "" {
		t.Skip("not a cold-start child")
	}
	r := vkit.Start("C10")
	w := r.NewW()
	w.Guard(map[string]string{"first_call": scenario}, func() { coldFirst(scenario) })
	for _, text := range []string{"MMXXIV", "mCdXlIv", "X\xffI", "xlii", "XIV", "xiv", "MCM", "", "I", "iv", "IIII", "VIIII", "MCMXCIV", "mdclxvi", "MmMcDxLiV", "IIX", "VX", "IC", "MMMMMMMMMMDCCCCLXXXXVIIII", "X I", "Xi\x00", "null", "ſ", "CMCM", "DD", "#7", "#1994", "7", "14", "#"} {
		for _, rule := range []int{0, int(roman.RuleDisableEmptyAsZero)} {
			judge(Case{Text: vkit.B(text), Rule: rule}, w)
		}
	}
	vkit.ColdReport(t, w)
}
