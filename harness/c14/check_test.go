// C14: version comparison is a coherent order; next/latest respect it; string helpers agree with the value methods.
package c14

import (
	"encoding/json"
	"fmt"
	"strconv"
	"strings"
	"testing"

	"go.lstv.dev/util/sem"
	"pgregory.net/rapid"

	"verifharness/ref"
	"verifharness/vkit"
)

// V is one version given by its fields.
type V struct {
	Major uint64 `json:"major"`
	Minor uint64 `json:"minor"`
	Patch uint64 `json:"patch"`
	Pre   string `json:"pre"`
	Build string `json:"build"`
}

// Case kinds: "pair" (order laws on A,B), "next" (Next* on A), "helper" (string helpers on texts TA, TB).
type Case struct {
	Kind string `json:"kind"`
	A    V      `json:"a"`
	B    V      `json:"b"`
	TA   vkit.B `json:"text_a,omitempty"`
	TB   vkit.B `json:"text_b,omitempty"`
	// Setting names the ComparePreRelease replacement active for the case ("" = library default).
	Setting string `json:"compare_pre_release_setting,omitempty"`
	// Limit, when set, is the sem.MaxInputLength in force for the case (0 = no limit).
	Limit *int `json:"max_input_length,omitempty"`
}

func applySetting(name string) func() {
	old := sem.ComparePreRelease
	switch name {
	case "reversed":
		sem.ComparePreRelease = func(a, b string) int { return -sem.DefaultComparePreRelease(a, b) }
	case "case-insensitive":
		sem.ComparePreRelease = func(a, b string) int { return sem.DefaultComparePreRelease(strings.ToLower(a), strings.ToLower(b)) }
	}
	return func() { sem.ComparePreRelease = old }
}

func (v V) ver() sem.Ver {
	return sem.Ver{Major: v.Major, Minor: v.Minor, Patch: v.Patch, PreRelease: v.Pre, Build: v.Build}
}
func (v V) text() string { return ref.SemText(v.Major, v.Minor, v.Patch, v.Pre, v.Build) }

const max64 = ^uint64(0)

type (
	namedS string
	namedB []byte
)

// parseOracle: is text valid for the form ("version": no v, "tag": v required, "any"), and which value is it.
func parseOracle(text, form string) (sem.Ver, bool) {
	if text == "" || len(text) > sem.MaxInputLength && sem.MaxInputLength != 0 {
		return sem.Ver{}, false
	}
	hasV := text[0] == 'v'
	switch form {
	case "version":
		if hasV {
			return sem.Ver{}, false
		}
	case "tag":
		if !hasV {
			return sem.Ver{}, false
		}
	}
	if hasV {
		text = text[1:]
	}
	p, ok := ref.ParseSemVer(text)
	if !ok {
		return sem.Ver{}, false
	}
	ma, ok1 := ref.FitsU64(p.Major)
	mi, ok2 := ref.FitsU64(p.Minor)
	pa, ok3 := ref.FitsU64(p.Patch)
	if !ok1 || !ok2 || !ok3 {
		return sem.Ver{}, false
	}
	return sem.Ver{Major: ma, Minor: mi, Patch: pa, PreRelease: p.Pre, Build: p.Build}, true
}

func judge(c Case, w *vkit.W) {
	defer func() {
		if p := recover(); p != nil {
			w.Fail(c, "panic", vkit.PanicDetail(p))
		}
	}()
	if c.Limit != nil {
		old := sem.MaxInputLength
		sem.MaxInputLength = *c.Limit
		defer func() { sem.MaxInputLength = old }()
	}
	switch c.Kind {
	case "pair":
		a, b := c.A.ver(), c.B.ver()
		ab, ba := a.Compare(b), b.Compare(a)
		if ab < -1 || ab > 1 {
			w.Fail(c, "range", fmt.Sprintf("(%s).Compare(%s) = %d, not in {-1,0,1}", c.A.text(), c.B.text(), ab))
		}
		if ab != -ba {
			w.Fail(c, "antisymmetry", fmt.Sprintf("(%s).Compare(%s) = %d but reversed = %d", c.A.text(), c.B.text(), ab, ba))
		}
		if s := a.Compare(a); s != 0 {
			w.Fail(c, "reflexivity", fmt.Sprintf("(%s).Compare(itself) = %d", c.A.text(), s))
		}
		sameCorePre := c.A.Major == c.B.Major && c.A.Minor == c.B.Minor && c.A.Patch == c.B.Patch && c.A.Pre == c.B.Pre
		if sameCorePre && ab != 0 {
			w.Fail(c, "equal-core-and-pre-release", fmt.Sprintf("(%s).Compare(%s) = %d, equal core and pre-release must give 0", c.A.text(), c.B.text(), ab))
		}
		// build metadata is irrelevant
		for _, bd := range [][2]string{{"", ""}, {"zz.9", ""}, {"", "0.a"}, {"1", "2"}} {
			a2, b2 := a, b
			a2.Build, b2.Build = bd[0], bd[1]
			if got := a2.Compare(b2); got != ab {
				w.Fail(c, "build-affects-order", fmt.Sprintf("(%s).Compare(%s) = %d but with builds %q/%q = %d", c.A.text(), c.B.text(), ab, bd[0], bd[1], got))
			}
		}
		// latest of two: one of the arguments, never the lower one
		lat := a.Latest(b)
		isA, isB := lat == a, lat == b
		if !isA && !isB {
			w.Fail(c, "latest-not-an-argument", fmt.Sprintf("(%s).Latest(%s) = %+v", c.A.text(), c.B.text(), lat))
		} else if (ab < 0 && !isB) || (ab > 0 && !isA) {
			w.Fail(c, "latest-returns-lower", fmt.Sprintf("(%s).Latest(%s) = %s although Compare = %d", c.A.text(), c.B.text(), lat.String(), ab))
		}
	case "next":
		a := c.A.ver()
		for _, n := range []struct {
			name string
			f    func() sem.Ver
			comp uint64
			want sem.Ver
		}{
			{"NextMajor", a.NextMajor, a.Major, sem.Ver{Major: a.Major + 1}},
			{"NextMinor", a.NextMinor, a.Minor, sem.Ver{Major: a.Major, Minor: a.Minor + 1}},
			{"NextPatch", a.NextPatch, a.Patch, sem.Ver{Major: a.Major, Minor: a.Minor, Patch: a.Patch + 1}},
		} {
			var got sem.Ver
			panicked, pv := vkit.Panics(func() { got = n.f() })
			if n.comp == max64 {
				if !panicked {
					w.Fail(c, "next-no-panic-at-max", fmt.Sprintf("(%s).%s() = %s, documented to panic at 2^64-1", c.A.text(), n.name, got.String()))
				}
				continue
			}
			if panicked {
				w.Fail(c, "next-panics", fmt.Sprintf("(%s).%s() panicked although the component is below 2^64-1: %v", c.A.text(), n.name, pv))
				continue
			}
			if got != n.want {
				w.Fail(c, "next-value", fmt.Sprintf("(%s).%s() = %+v, want %+v", c.A.text(), n.name, got, n.want))
			}
			if got.PreRelease != "" || got.Build != "" {
				w.Fail(c, "next-not-plain-release", fmt.Sprintf("(%s).%s() = %+v", c.A.text(), n.name, got))
			}
			if got.Compare(a) != 1 || a.Compare(got) != -1 {
				w.Fail(c, "next-not-above-receiver", fmt.Sprintf("(%s).%s() = %s; result.Compare(receiver) = %d, receiver.Compare(result) = %d", c.A.text(), n.name, got.String(), got.Compare(a), a.Compare(got)))
			}
		}
	case "helper":
		ta, tb := string(c.TA), string(c.TB)
		type form struct {
			name, form string
			cmp        func() (int, error)
			lat        func() (sem.Ver, error)
		}
		for _, f := range []form{
			{"Compare/Latest", "any", func() (int, error) { return sem.Compare(ta, []byte(tb)) }, func() (sem.Ver, error) { return sem.Latest([]byte(ta), tb) }},
			{"Compare/Latest on derived string and byte-slice types", "any", func() (int, error) { return sem.Compare(namedS(ta), namedB(tb)) }, func() (sem.Ver, error) { return sem.Latest(namedB(ta), namedS(tb)) }},
			{"CompareTag/LatestTag on derived types", "tag", func() (int, error) { return sem.CompareTag(namedB(ta), namedS(tb)) }, func() (sem.Ver, error) { return sem.LatestTag(namedS(ta), namedS(tb)) }},
			{"LatestVersion on derived types", "version", func() (int, error) { return sem.CompareVersion[string, string](ta, tb) }, func() (sem.Ver, error) { return sem.LatestVersion(namedS(ta), namedB(tb)) }},
			{"CompareVersion/LatestVersion", "version", func() (int, error) { return sem.CompareVersion[string, string](ta, tb) }, func() (sem.Ver, error) { return sem.LatestVersion(ta, tb) }},
			{"CompareTag/LatestTag", "tag", func() (int, error) { return sem.CompareTag([]byte(ta), []byte(tb)) }, func() (sem.Ver, error) { return sem.LatestTag(ta, []byte(tb)) }},
		} {
			va, okA := parseOracle(ta, f.form)
			vb, okB := parseOracle(tb, f.form)
			got, err := f.cmp()
			lat, lerr := f.lat()
			if okA && okB {
				if err != nil || lerr != nil {
					w.Fail(c, "helper-rejects-valid", fmt.Sprintf("%s(%q, %q): errors %v / %v on texts valid for this helper", f.name, ta, tb, err, lerr))
					continue
				}
				if want := va.Compare(vb); got != want {
					w.Fail(c, "helper-compare-differs", fmt.Sprintf("%s(%q, %q) = %d, Ver.Compare of the parsed values = %d", f.name, ta, tb, got, want))
				}
				// between two versions of equal precedence either argument is "one of its two arguments and never the lower one"
				if want := va.Latest(vb); lat != want && !(va.Compare(vb) == 0 && (lat == va || lat == vb)) {
					w.Fail(c, "helper-latest-differs", fmt.Sprintf("%s(%q, %q) = %+v, Ver.Latest of the parsed values = %+v", f.name, ta, tb, lat, want))
				}
				continue
			}
			if err == nil || lerr == nil {
				w.Fail(c, "helper-accepts-invalid", fmt.Sprintf("%s(%q, %q): validity for this helper is (%v, %v) but errors are %v / %v (results %d, %+v)", f.name, ta, tb, okA, okB, err, lerr, got, lat))
				continue
			}
			if got != 0 || lat != (sem.Ver{}) {
				w.Fail(c, "helper-nonzero-with-error", fmt.Sprintf("%s(%q, %q): error with results %d, %+v", f.name, ta, tb, got, lat))
			}
		}
	default:
		w.Fail(c, "bad-case", "unknown kind "+c.Kind)
	}
}

var cores = [][3]uint64{{0, 0, 0}, {0, 0, 1}, {0, 1, 0}, {1, 0, 0}, {1, 2, 3}, {max64, 0, 0}, {0, max64, 0}, {0, 0, max64}, {max64 - 1, max64 - 1, max64 - 1}, {max64, max64, max64}, {1 << 63, 0, 0}, {1<<63 - 1, 5, 5}}
var mixed = []string{"a01", "a1", "a02", "a2", "a10", "a0x", "a00", "rc1", "rc10", "rc2", "rc.10", "rc.2", "0a", "-1", "--", "a-1", "a-01", "x.a01", "x.a1", "alpha", "alpha.1", "alpha.beta", "beta.2", "beta.11", "1a", "01a", "a.01a", "99999999999999999999", "100000000000000000000", "a99999999999999999999", "a100000000000000000000",
	"18446744073709551614", "18446744073709551615", "18446744073709551616", "18446744073709551617", "rc18446744073709551615", "rc18446744073709551616", "9223372036854775807", "9223372036854775808", "4294967295", "4294967296", "x.18446744073709551615", "x.18446744073709551616",
	"a0.b00", "a00.b0", "a0.a00", "a00.a0", "x0.y000", "x00.y00", "x000.y0", "a0.b0", "a00.b00", "rc0.1.x00", "rc00.1.x0", "a.b0.c00", "a.b00.c0"}

func ntPair(c Case) bool {
	return c.A.Major == c.B.Major && c.A.Minor == c.B.Minor && c.A.Patch == c.B.Patch && c.A.Pre != "" && c.B.Pre != "" && c.A.Pre != c.B.Pre
}

func TestCheck(t *testing.T) {
	r := vkit.Start("C14")
	defer r.Finish(t)
	if r.Replay != "" {
		var c Case
		if err := r.LoadReplay(&c); err != nil {
			t.Fatalf("replay: %v", err)
		}
		defer applySetting(c.Setting)()
		r.Serial(func(w *vkit.W) { judge(c, w); w.Eval(true) })
		return
	}
	r.Rule("Pair cases: algebraic laws (range, reflexivity, antisymmetry, build-independence, equal core+pre-release => 0, Latest returns an argument and never the lower). " +
		"Next cases: value, plain release, strictly above the receiver, panic iff the component is 2^64-1. Helper cases: each string helper equals the value method on the oracle-parsed texts, and errs (zero result) iff a text is invalid for that helper (independent BNF recogniser + math/big). " +
		"Non-trivial: pairs with equal cores and different non-empty pre-releases; Next with a component within 1 of 2^64-1; helper cases where at least one text is valid for some helper. Distinct by construction or by hash.")
	r.Regress(func(raw json.RawMessage, w *vkit.W) error {
		var c Case
		if err := json.Unmarshal(raw, &c); err != nil {
			return err
		}
		defer applySetting(c.Setting)()
		judge(c, w)
		w.Eval(true)
		return nil
	})

	L := r.Pick(4, 5)
	uni := append(ref.PreUniverse("0129aB-.", L), mixed...)
	n := int64(len(uni))
	r.Extra("universe_size", n)
	r.Phase(fmt.Sprintf("A: order laws on all ordered pairs of %d pre-releases (length <= %d universe + mixed identifiers)", n, L), func() {
		r.Parallel(n*n, n, func(w *vkit.W, lo, hi int64) {
			for k := lo; k < hi; k++ {
				i, j := k/n, k%n
				h := vkit.HashU(uint64(i), uint64(j), uint64(r.Seed)+77)
				ca := cores[h%uint64(len(cores))]
				cb := ca
				if h>>8%5 == 0 {
					cb = cores[(h>>16)%uint64(len(cores))]
				}
				c := Case{Kind: "pair", A: V{Major: ca[0], Minor: ca[1], Patch: ca[2], Pre: uni[i]}, B: V{Major: cb[0], Minor: cb[1], Patch: cb[2], Pre: uni[j]}}
				judge(c, w)
				nt := ntPair(c)
				w.Eval(nt)
				if nt && ref.PinnedDeparture(uni[i], uni[j]) {
					w.Class("pairs_in_C06_excluded_family")
					if w.WantSample() {
						w.Sample(c)
					}
				}
			}
		})
	})
	r.Exhaustive(fmt.Sprintf("order laws on all ordered pairs of the %d-element universe", n))

	// Phase A3: pre-releases whose first identifiers share a stem of 0..40 characters (so that they agree in their first 4, 8, 16,
	// 32 bytes) and differ in a short tail, with a further identifier behind that decides the other way: all ordered pairs per
	// stem, among them pairs of equal byte length in which the shorter first identifier is a prefix of the longer one.
	r.Phase("A3: order laws on all ordered pairs of pre-releases sharing a stem of 0..40 characters (letters / mixed) x 4 tails x 6 following identifiers", func() {
		long := "nightly-2022-01-01-build-0a1b2c3d4e5f6g7h8i9j0k1l2m"
		tails := []string{"", "s", "0", "-"}
		next := []string{"", ".1", ".10", ".2", ".a", ".1.z"}
		r.Parallel(41, 1, func(w *vkit.W, lo, hi int64) {
			for k := lo; k < hi; k++ {
				for _, stem := range []string{strings.Repeat("a", int(k)), long[:k], "x" + strings.Repeat("B", int(k))} {
					var pres []string
					for _, ta := range tails {
						for _, na := range next {
							if p := stem + ta + na; ref.ValidPreRelease(p) {
								pres = append(pres, p)
							}
						}
					}
					for _, pa := range pres {
						for _, pb := range pres {
							c := Case{Kind: "pair", A: V{Major: 1, Minor: 2, Patch: 3, Pre: pa, Build: "b"}, B: V{Major: 1, Minor: 2, Patch: 3, Pre: pb}}
							judge(c, w)
							w.EvalRandom(vkit.Hash64("A3", pa, pb), ntPair(c))
						}
					}
				}
			}
		})
	})

	// Phase A2: ComparePreRelease is a package setting. Under a replacement comparator the same laws must hold, in particular
	// Latest and the string helpers must follow what Compare says (they must not bypass the setting).
	r.Phase("A2: order laws and helper agreement under replaced ComparePreRelease settings (reversed, case-insensitive), then restored", func() {
		old := sem.ComparePreRelease
		defer func() { sem.ComparePreRelease = old }()
		small := append(ref.PreUniverse("01aB-.", 3), mixed...)
		m := int64(len(small))
		for name, cmp := range map[string]func(a, b string) int{
			"reversed":         func(a, b string) int { return -sem.DefaultComparePreRelease(a, b) },
			"case-insensitive": func(a, b string) int { return sem.DefaultComparePreRelease(strings.ToLower(a), strings.ToLower(b)) },
		} {
			_ = name
			sem.ComparePreRelease = cmp
			r.Parallel(m*m, m, func(w *vkit.W, lo, hi int64) {
				for k := lo; k < hi; k++ {
					a, b := small[k/m], small[k%m]
					c := Case{Kind: "pair", A: V{Major: 1, Pre: a}, B: V{Major: 1, Pre: b}, Setting: name}
					judge(c, w)
					w.Eval(ntPair(c))
					if k%7 == 0 {
						h := Case{Kind: "helper", TA: vkit.B("1.0.0-" + a), TB: vkit.B("v1.0.0-" + b), Setting: name}
						if a == "" {
							h.TA = "1.0.0"
						}
						if b == "" {
							h.TB = "v1.0.0"
						}
						judge(h, w)
						w.Eval(true)
					}
				}
			})
		}
		sem.ComparePreRelease = old
		// restored: a sample of the same pairs again under the default setting (stale results must not survive)
		r.Parallel(m*m, m, func(w *vkit.W, lo, hi int64) {
			for k := lo; k < hi; k++ {
				c := Case{Kind: "pair", A: V{Major: 1, Pre: small[k/m]}, B: V{Major: 1, Pre: small[k%m]}, Setting: "default-after-replacement"}
				judge(c, w)
				if want := ref.ComparePre(c.A.Pre, c.B.Pre); !ref.PinnedDeparture(c.A.Pre, c.B.Pre) {
					if got := c.A.ver().Compare(c.B.ver()); got != want {
						w.Fail(c, "stale-order-after-setting-restored", fmt.Sprintf("after ComparePreRelease was replaced and restored, (%s).Compare(%s) = %d, section 11 says %d", c.A.text(), c.B.text(), got, want))
					}
				}
				w.Eval(ntPair(c))
			}
		})
	})

	r.Phase("B: Next* on every universe version x boundary components", func() {
		comps := []uint64{0, 1, max64 - 1, max64}
		r.Parallel(n, 16, func(w *vkit.W, lo, hi int64) {
			for i := lo; i < hi; i++ {
				for _, ma := range comps {
					for _, mi := range comps {
						for _, pa := range comps {
							c := Case{Kind: "next", A: V{Major: ma, Minor: mi, Patch: pa, Pre: uni[i], Build: []string{"", "b.1"}[i%2]}}
							judge(c, w)
							w.Eval(ma >= max64-1 || mi >= max64-1 || pa >= max64-1)
						}
					}
				}
			}
		})
	})

	r.Phase("B2: Next* and the order laws with one component at 2^k-1, 2^k, 2^k+1 (k = 0..63) in each position, the others small", func() {
		r.Parallel(64, 1, func(w *vkit.W, lo, hi int64) {
			for k := lo; k < hi; k++ {
				for _, delta := range []uint64{0, 1, 2} {
					x := uint64(1)<<uint(k) - 1 + delta
					for pos := 0; pos < 3; pos++ {
						for _, rest := range [][2]uint64{{0, 0}, {5, 7}, {1, x}, {x, x}} {
							v := V{Pre: []string{"", "rc.1"}[int(k)%2]}
							switch pos {
							case 0:
								v.Major, v.Minor, v.Patch = x, rest[0], rest[1]
							case 1:
								v.Major, v.Minor, v.Patch = rest[0], x, rest[1]
							default:
								v.Major, v.Minor, v.Patch = rest[0], rest[1], x
							}
							judge(Case{Kind: "next", A: v}, w)
							w.Eval(true)
							for _, o := range []V{{Major: 1, Minor: 5}, {Major: v.Major, Minor: v.Minor, Patch: v.Patch}, {Major: v.Major, Minor: 5}, {Major: v.Major, Minor: v.Minor, Patch: 5}, {Major: v.Major + 1}} {
								c := Case{Kind: "pair", A: v, B: o}
								judge(c, w)
								w.Eval(ntPair(c))
							}
						}
					}
				}
			}
		})
	})

	// helper texts whose numeric components lie around 2^64 and far beyond: invalid for every helper from 2^64 on
	r.Phase("C2: string helpers on texts with numeric components around 2^64, d x 10^19, 20-25 digit numbers, in each position", func() {
		nums := []string{"18446744073709551614", "18446744073709551615", "18446744073709551616", "18446744073709551617", "18446744073709551618", "18446744073709551619", "18446744073709551620", "18446744073709551625",
			"36893488147419103232", "36893488147419103231", "184467440737095516150", "184467440737095516160", "1844674407370955161", "9999999999999999999", "10000000000000000000",
			"20000000000000000000", "25000000000000000000", "30000000000000000000", "40000000000000000000", "50000000000000000000", "60000000000000000000", "70000000000000000000", "80000000000000000000", "90000000000000000000",
			"99999999999999999999", "100000000000000000000", "340282366920938463463374607431768211455", "340282366920938463463374607431768211456", "1" + strings.Repeat("0", 24), "9223372036854775807", "9223372036854775808", "4294967295", "4294967296"}
		g := r.Rng("bignums", 0)
		for i := 0; i < 40; i++ {
			d := 20 + g.Intn(3)
			b := []byte{byte('1' + g.Intn(9))}
			for len(b) < d {
				b = append(b, byte('0'+g.Intn(10)))
			}
			nums = append(nums, string(b))
		}
		var texts []string
		for _, n := range nums {
			texts = append(texts, n+".0.0", "0."+n+".0", "v0.0."+n, "1.2.3-"+n, "v"+n+"."+n+"."+n+"-rc+"+n)
		}
		partners := []string{"1.2.3", "v1.2.3", "0.0.0", "18446744073709551615.18446744073709551615.18446744073709551615", "x"}
		r.Parallel(int64(len(texts)), 4, func(w *vkit.W, lo, hi int64) {
			for i := lo; i < hi; i++ {
				for _, p := range partners {
					for _, c := range []Case{{Kind: "helper", TA: vkit.B(texts[i]), TB: vkit.B(p)}, {Kind: "helper", TA: vkit.B(p), TB: vkit.B(texts[i])}, {Kind: "helper", TA: vkit.B(texts[i]), TB: vkit.B(texts[i])}} {
						judge(c, w)
						w.EvalRandom(vkit.Hash64("C2", string(c.TA), string(c.TB)), true)
					}
				}
			}
		})
	})

	// Phase C3: a pair of texts comes back after N other distinct texts went through the helpers.
	r.Phase("C3: a helper pair, then N distinct other texts through the helpers (N = 1..200000 on a ladder around powers of two), then the same pair again", func() {
		r.Serial(func(w *vkit.W) {
			filler := 0
			for li, n := range []int{1, 2, 3, 31, 32, 33, 63, 64, 65, 127, 128, 129, 255, 256, 257, 511, 512, 513, 1023, 1024, 1025, 2047, 2048, 2049, 4096, 8192, 65536, 200000} {
				a, b := "9."+strconv.Itoa(li)+".0", "5."+strconv.Itoa(n)+".0-rc.1"
				judge(Case{Kind: "helper", TA: vkit.B(a), TB: vkit.B(b)}, w)
				judge(Case{Kind: "helper", TA: vkit.B("v" + b), TB: vkit.B("v" + a)}, w)
				for k := 0; k < n; k++ {
					filler++
					t := "1." + strconv.Itoa(filler%89) + "." + strconv.Itoa(filler)
					switch filler % 3 {
					case 0:
						_, _ = sem.CompareVersion[string, string](t, "1.0.0")
					case 1:
						_, _ = sem.LatestTag("v"+t, []byte("v0.0.1"))
					default:
						_, _ = sem.Compare([]byte(t), "v2.0.0")
					}
				}
				judge(Case{Kind: "helper", TA: vkit.B(a), TB: vkit.B(b)}, w)
				judge(Case{Kind: "helper", TA: vkit.B("v" + b), TB: vkit.B("v" + a)}, w)
				w.EvalRandom(vkit.Hash64("C3", a, b), true)
			}
		})
	})

	// helper texts: valid versions, tag forms, one-edit mutations, overflow, over-long
	r.Phase("C: string helpers on a pool of valid/invalid texts (all ordered pairs)", func() {
		pool := []string{"1.0.0-alpha+001", "1.0.0+00", "v1.0.0+exp.01", "1.0.0+20130313.007", "1.0.0-0+0", "1.0.0-00+0", "1.0.0+exp-sha.5114f85", "1.0.0+21AF26D3----117B344092BD", "v1.0.0+a-b", "1.0.0-rc+a-b", "1.0.0+-", "1.0.0-x-y+-z-", "v1.0.0--+--",
			"", "v", "1.2.3", "v1.2.3", "1.2.3-a01", "1.2.3-a1", "v1.2.3-rc.1+b", "1.2.3+b", "1.2", "1.2.3.4", "01.2.3", "1.2.3-01", "1.2.3-", "1.2.3+", "vv1.2.3", "V1.2.3", "1.2.3 ", "1.2.3-é",
			"18446744073709551615.0.0", "18446744073709551616.0.0", "0.18446744073709551616.0", "v0.0.18446744073709551616", "0.0.0", "v0.0.0", "0.0.0-0", "0.0.0--", "2.0.0-beta.2", "2.0.0-beta.11", "v2.0.0-beta.11+x",
			"1.0.0-" + strings.Repeat("a", 1017), "1.0.0-" + strings.Repeat("a", 1018), "1.0.0-" + strings.Repeat("a", 1019), "v1.0.0-" + strings.Repeat("1", 1016), "v1.0.0-" + strings.Repeat("1", 1017), "v1.0.0-" + strings.Repeat("1", 1018), "v1.0.0-" + strings.Repeat("a", 1017), "v1.0.0-" + strings.Repeat("a", 1018), "v1.0.0-" + strings.Repeat("a", 1019)}
		for _, u := range uni[:minInt(len(uni), 60)] {
			pool = append(pool, "1.0.0-"+u, "v1.0.0-"+u+"+b")
		}
		m := int64(len(pool))
		r.Parallel(m*m, m, func(w *vkit.W, lo, hi int64) {
			for k := lo; k < hi; k++ {
				c := Case{Kind: "helper", TA: vkit.B(pool[k/m]), TB: vkit.B(pool[k%m])}
				judge(c, w)
				_, a1 := parseOracle(pool[k/m], "any")
				_, b1 := parseOracle(pool[k%m], "any")
				w.Eval(a1 || b1)
				if a1 != b1 && w.WantSample() {
					w.Sample(c)
				}
			}
		})
	})

	r.Phase("E: string helpers on texts of 500 to 70000 bytes that differ only near their end, under a raised and a disabled MaxInputLength", func() {
		r.Serial(func(w *vkit.W) {
			for _, limit := range []int{0, 1 << 20} {
				limit := limit
				for _, n := range []int{500, 1010, 1016, 1017, 1018, 1019, 1024, 1030, 2047, 2048, 2049, 4096, 65536, 70000} {
					stem := strings.Repeat("abcdefgh.", n/9+1)[:n]
					stem = strings.TrimSuffix(stem, ".") + "z"
					digits := strings.Repeat("1234567890", n/10+1)[:n]
					for _, p := range [][2]string{{"1.0.0-" + stem + ".5", "1.0.0-" + stem + ".51"}, {"1.0.0-" + stem + ".a", "1.0.0-" + stem + ".b"}, {"1.0.0-" + stem + ".1", "1.0.0-" + stem + ".a"}, {"1.0.0-" + stem + ".x", "1.0.0-" + stem + ".x_"},
						{"1.0.0-" + stem + "+b", "1.0.0-" + stem + ".0+c"}, {"1.0.0-" + stem, "1.0.0-" + stem}, {"1.0.0-rc+" + stem, "1.0.0-rc+" + stem + "!"}, {"1.0.0-" + digits + "1", "1.0.0-" + digits + "2"}, {"1.0.0-x." + digits + ".a", "1.0.0-x." + digits + ".b"},
						{"1.0.0-" + stem + ".rc.1", "1.0.0-" + stem + ".rc.1.0"}, {"1.0.0-" + stem + ".01", "1.0.0-" + stem + ".1"}} {
						for _, tag := range []string{"", "v"} {
							c := Case{Kind: "helper", TA: vkit.B(tag + p[0]), TB: vkit.B(tag + p[1]), Limit: &limit}
							judge(c, w)
							judge(Case{Kind: "helper", TA: c.TB, TB: c.TA, Limit: &limit}, w)
							w.EvalRandom(vkit.Hash64("E", strconv.Itoa(limit), strconv.Itoa(n), tag, p[0][len(p[0])-6:], p[1][len(p[1])-6:]), true)
						}
					}
				}
			}
		})
	})

	r.Phase("F: string helpers on texts in which one character is a rune outside ASCII that folds or truncates to a grammar character", func() {
		runes := ref.ConfusableRunes("0123456789abcdefghijklmnopqrstuvwxyzABCDEFGHIJKLMNOPQRSTUVWXYZ-.+v")
		r.Extra("confusable_runes", len(runes))
		r.Parallel(int64(len(runes)), 16, func(w *vkit.W, lo, hi int64) {
			for k := lo; k < hi; k++ {
				x := string(runes[k])
				for _, tx := range []string{"1.0.0-" + x, "1.0.0-rc" + x + ".1", "1.0.0-1." + x + "a", "1.0.0+" + x, "1.0.0-rc+b" + x, x + ".0.0", "1." + x + ".0", "1.0." + x, "1.0.0" + x + "rc", "v1.0.0-x" + x, x + "1.0.0"} {
					for _, other := range []string{"1.0.0-rc.1", "v1.0.0-rc.1", tx} {
						judge(Case{Kind: "helper", TA: vkit.B(tx), TB: vkit.B(other)}, w)
						judge(Case{Kind: "helper", TA: vkit.B(other), TB: vkit.B(tx)}, w)
					}
					w.EvalRandom(vkit.Hash64("F", tx), true)
				}
			}
		})
	})

	r.Phase("D: rapid versions with full-range components and generated texts", func() {
		identG := rapid.OneOf(rapid.StringMatching(`[0-9a-zA-Z-]{1,6}`), rapid.SampledFrom(mixed), rapid.StringMatching(`[1-9][0-9]{0,22}`))
		preG := rapid.Custom(func(rt *rapid.T) string {
			ids := rapid.SliceOfN(identG, 0, 4).Draw(rt, "ids")
			s := strings.Join(ids, ".")
			if s != "" && !ref.ValidPreRelease(s) {
				// repair leading zeros of numeric identifiers
				for i, id := range ids {
					if len(id) > 1 && id[0] == '0' && strings.Trim(id, "0123456789") == "" {
						ids[i] = "1" + id
					}
				}
				s = strings.Join(ids, ".")
			}
			return s
		})
		compG := rapid.OneOf(rapid.Uint64(), rapid.SampledFrom([]uint64{0, 1, 2, 9, 10, max64, max64 - 1, 1 << 63, 1<<63 - 1}))
		verG := rapid.Custom(func(rt *rapid.T) V {
			return V{Major: compG.Draw(rt, "major"), Minor: compG.Draw(rt, "minor"), Patch: compG.Draw(rt, "patch"), Pre: preG.Draw(rt, "pre"), Build: rapid.SampledFrom([]string{"", "b", "001.x"}).Draw(rt, "build")}
		})
		r.Rapid(t, "rapid-versions", 0, r.Pick(30000, 1500000), func(rt *rapid.T, w *vkit.W) vkit.RapidCase {
			a := verG.Draw(rt, "a")
			b := verG.Draw(rt, "b")
			if rapid.Bool().Draw(rt, "sameCore") {
				b.Major, b.Minor, b.Patch = a.Major, a.Minor, a.Patch
			}
			var c Case
			switch rapid.IntRange(0, 3).Draw(rt, "kind") {
			case 0, 1:
				c = Case{Kind: "pair", A: a, B: b}
			case 2:
				c = Case{Kind: "next", A: a}
			default:
				ta, tb := a.text(), b.text()
				if rapid.Bool().Draw(rt, "tagA") {
					ta = "v" + ta
				}
				if rapid.Bool().Draw(rt, "tagB") {
					tb = "v" + tb
				}
				if rapid.IntRange(0, 3).Draw(rt, "edit") == 0 && len(tb) > 0 {
					pos := rapid.IntRange(0, len(tb)-1).Draw(rt, "pos")
					tb = tb[:pos] + string(rapid.SampledFrom([]byte("0v.-+ 9a")).Draw(rt, "sym")) + tb[pos+1:]
				}
				c = Case{Kind: "helper", TA: vkit.B(ta), TB: vkit.B(tb)}
			}
			judge(c, w)
			return vkit.RapidCase{Case: c, Hash: vkit.Hash64(c.Kind, a.text(), b.text(), string(c.TA), string(c.TB)), NT: c.Kind != "pair" || ntPair(c)}
		})
	})
}

func minInt(a, b int) int {
	if a < b {
		return a
	}
	return b
}
