package c13

import (
	"testing"

	"go.lstv.dev/util/size"

	"verifharness/vkit"
)

var coldFirst = map[string]func(){
	"string":           func() { _ = size.Size(2048).String() },
	"pretty":           func() { _ = size.Size(1234567).PrettyString() },
	"pretty html":      func() { _ = size.Size(1234567).PrettyHTML() },
	"shorten":          func() { _, _ = size.Size(1 << 40).Shorten() },
	"shorten zero":     func() { _, _ = size.Size(0).Shorten() },
	"formatter prefix": func() { _, _ = size.DefaultFormatter([]byte("quota: "), 1<<20, size.FormatPretty) },
	"formatter html":   func() { _, _ = size.DefaultFormatter(nil, 1<<63, size.FormatPretty|size.FormatHTML) },
	"marshaltext":      func() { _, _ = size.Size(1000).MarshalText() },
	"marshaljson":      func() { _, _ = size.Size(1024).MarshalJSON() },
	"parse":            func() { _, _ = size.DefaultParser("1 KiB", 0) },
	"string of 2^64-1": func() { _ = size.Size(1<<64 - 1).String() },
	"pretty of 2^64-1": func() { _ = size.Size(1<<64 - 1).PrettyString() },
	"string of zero":   func() { _ = size.Size(0).String() },
	"pretty of 2^63":   func() { _ = size.Size(1 << 63).PrettyString() },
}

func TestColdStart(t *testing.T) {
	vkit.ColdMain(t, "C13", coldFirst, func(w *vkit.W) {
		// the values of the first calls come first: what the first call of the process left behind is met by the same value again
		for _, v := range []uint64{1<<64 - 1, 1 << 63, 0, 2048, 1234567, 1 << 40, 1000, 1 << 20} {
			judge(Case{S: v}, w)
		}
		for k := uint(0); k < 64; k++ {
			judge(Case{S: 1 << k}, w)
			judge(Case{S: 1<<k + 1<<(k/2)}, w)
			judge(Case{S: (1 << k) - 1}, w)
		}
		for _, v := range []uint64{0, 1, 999, 1000, 1023, 1024, 1025, 1234567, 1<<64 - 1, 3 << 50, 1000000000000} {
			judge(Case{S: v}, w)
		}
	})
}
