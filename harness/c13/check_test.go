// C13: shortened and pretty size renderings are exact and maximal.
package c13

import (
	"encoding/json"
	"errors"
	"fmt"
	"math/big"
	"strconv"
	"strings"
	"testing"

	"go.lstv.dev/util/size"
	"pgregory.net/rapid"

	"verifharness/ref"
	"verifharness/vkit"
)

// Case is one size value; all four formats and the three rendering methods are judged for it.
type Case struct {
	S uint64 `json:"size"`
	// Switches: bit 0 DisableMarshalTextUnit, bit 1 DisableMarshalJSONStringForm, bit 2 DisableMarshalJSONObjectForm (must be irrelevant here).
	Switches int `json:"switches,omitempty"`
	// Parser: the parser's settings (must be irrelevant as well): DefaultRule = Parser & 0xffff; bit 16: MaxInputLength 1; bit 17: MaxObjectKeys 1.
	Parser int `json:"parser_settings,omitempty"`
}

func configureParser(p int) func() {
	a, b, c := size.DefaultRule, size.MaxInputLength, size.MaxObjectKeys
	if p != 0 {
		size.DefaultRule = size.Rule(p & 0xffff)
		if p>>16&1 == 1 {
			size.MaxInputLength = 1
		}
		if p>>17&1 == 1 {
			size.MaxObjectKeys = 1
		}
	}
	return func() { size.DefaultRule, size.MaxInputLength, size.MaxObjectKeys = a, b, c }
}

func configure(sw int) func() {
	a, b, c := size.DisableMarshalTextUnit, size.DisableMarshalJSONStringForm, size.DisableMarshalJSONObjectForm
	size.DisableMarshalTextUnit, size.DisableMarshalJSONStringForm, size.DisableMarshalJSONObjectForm = sw&1 != 0, sw&2 != 0, sw&4 != 0
	return func() {
		size.DisableMarshalTextUnit, size.DisableMarshalJSONStringForm, size.DisableMarshalJSONObjectForm = a, b, c
	}
}

var binaryUnits = map[string]int{"B": 0, "KiB": 1, "MiB": 2, "GiB": 3, "TiB": 4, "PiB": 5, "EiB": 6}

func judge(c Case, w *vkit.W) {
	defer func() {
		if p := recover(); p != nil {
			w.Fail(c, "panic", vkit.PanicDetail(p))
		}
	}()
	s := size.Size(c.S)
	if w.Flip() {
		// the first rendering of this size in the process may just as well go into a caller buffer that already holds text,
		// and other marshalling calls may come before the renderings
		_, _ = size.DefaultFormatter([]byte("quota: "), s, size.FormatPretty)
		_, _ = size.DefaultFormatter(append(make([]byte, 0, 64), "used "...), s, 0)
		_, _ = size.DefaultFormatter([]byte("<b>"), s, size.FormatPretty|size.FormatHTML)
		_, _ = s.MarshalJSON()
		_, _ = s.MarshalText()
		// other corners of the package are in use meanwhile: parsing, also of texts whose unit is nearly right
		_, _ = size.New(5, "kib")
		_, _ = size.New(7.0, "MB")
		_, _ = size.DefaultParser("3 mb", 0)
		_, _ = size.DefaultParser([]byte("1 KIB"), size.RuleDisableUnit)
		_, _ = size.DefaultParser(`{"value":2,"unit":"Gib"}`, size.RuleEnableJSONObjectForm)
		var tmp size.Size
		_ = tmp.UnmarshalText([]byte("9 b"))
	}
	val, unit := s.Shorten()
	k, known := binaryUnits[unit]
	if !known {
		w.Fail(c, "shorten-unit-not-binary", fmt.Sprintf("Size(%d).Shorten() = (%d, %q): unit is not one of B..EiB", c.S, val, unit))
		return
	}
	mult := new(big.Int).Lsh(big.NewInt(1), uint(10*k))
	if prod := new(big.Int).Mul(new(big.Int).SetUint64(val), mult); prod.Cmp(new(big.Int).SetUint64(c.S)) != 0 {
		w.Fail(c, "shorten-not-exact", fmt.Sprintf("Size(%d).Shorten() = (%d, %q): product is %s", c.S, val, unit, prod))
	}
	if c.S == 0 {
		if val != 0 || unit != "B" {
			w.Fail(c, "shorten-zero", fmt.Sprintf("Size(0).Shorten() = (%d, %q), want (0, \"B\")", val, unit))
		}
	} else if k < 6 && val%1024 == 0 {
		w.Fail(c, "shorten-not-maximal", fmt.Sprintf("Size(%d).Shorten() = (%d, %q): a larger unit divides the size exactly", c.S, val, unit))
	}
	rv, ru := ref.Shorten(c.S)
	if rv != val || ru != unit {
		w.Fail(c, "shorten-differs-from-reference", fmt.Sprintf("Size(%d).Shorten() = (%d, %q), reference (%d, %q)", c.S, val, unit, rv, ru))
	}
	dec := strconv.FormatUint(rv, 10)
	plain := dec + ru
	pretty := ref.Group(dec, " ") + " " + ru
	html := ref.Group(dec, "&nbsp;") + "&nbsp;" + ru
	for _, f := range []struct {
		name string
		flag size.Format
		want string
	}{{"0", 0, plain}, {"FormatPretty", size.FormatPretty, pretty}, {"FormatPretty|FormatHTML", size.FormatPretty | size.FormatHTML, html}, {"FormatHTML", size.FormatHTML, plain}} {
		out, err := size.DefaultFormatter(nil, s, f.flag)
		if err != nil || string(out) != f.want {
			w.Fail(c, "rendering", fmt.Sprintf("DefaultFormatter(nil, %d, %s) = %q, %v; want %q", c.S, f.name, out, err, f.want))
		}
	}
	// the same renderings into a reused buffer with spare capacity and into a prefix
	scratch := make([]byte, 0, 96)
	for _, f := range []struct {
		flag size.Format
		want string
	}{{0, plain}, {size.FormatPretty, pretty}, {size.FormatPretty | size.FormatHTML, html}} {
		if out, err := size.DefaultFormatter(scratch[:0], s, f.flag); err != nil || string(out) != f.want {
			w.Fail(c, "rendering", fmt.Sprintf("DefaultFormatter(buffer with spare capacity, %d, %d) = %q, %v; want %q", c.S, f.flag, out, err, f.want))
		}
		for _, prefix := range []string{"n=7", "5 MiB / ", "a&nbsp;b 1 000 "} {
			if out, err := size.DefaultFormatter(append(scratch[:0], prefix...), s, f.flag); err != nil || string(out) != prefix+f.want {
				w.Fail(c, "rendering", fmt.Sprintf("DefaultFormatter(%q, %d, %d) = %q, %v; want %q", prefix, c.S, f.flag, out, err, prefix+f.want))
			}
		}
	}
	if c.S%8 == 6 || c.S < 2048 || c.S&(c.S-1) == 0 {
		// caller buffers of every tight size: the prefix fills them entirely, or leaves less than, exactly, or a little more than
		// the room the rendering needs
		for _, f := range []struct {
			flag size.Format
			want string
		}{{0, plain}, {size.FormatPretty, pretty}, {size.FormatPretty | size.FormatHTML, html}} {
			for _, prefix := range []string{"x", "free space: ", "0123456789abcdef", strings.Repeat("#", 96)} {
				for _, room := range []int{0, 1, len(f.want) - 1, len(f.want), len(f.want) + 1, len(f.want) + 7} {
					if room < 0 {
						continue
					}
					buf := append(make([]byte, 0, len(prefix)+room), prefix...)
					if out, err := size.DefaultFormatter(buf, s, f.flag); err != nil || string(out) != prefix+f.want {
						w.Fail(c, "rendering", fmt.Sprintf("DefaultFormatter(%q in a buffer with room for %d more bytes, %d, %d) = %q, %v; want %q", prefix, room, c.S, f.flag, out, err, prefix+f.want))
					}
				}
			}
		}
	}
	if c.S%16 == 9 || c.S < 2048 {
		// the default rendering is also what the print functions show
		for _, pr := range []struct{ name, got string }{{"Sprint", fmt.Sprint(s)}, {"Sprintf(%v)", fmt.Sprintf("%v", s)}, {"Sprintf(%s)", fmt.Sprintf("%s", s)}, {"Sprintf(%v) of a slice", fmt.Sprintf("%v", []size.Size{s})}} {
			want := plain
			if pr.name == "Sprintf(%v) of a slice" {
				want = "[" + plain + "]"
			}
			if pr.got != want {
				w.Fail(c, "rendering", fmt.Sprintf("%s of Size(%d) = %q want %q", pr.name, c.S, pr.got, want))
			}
		}
	}
	gotS, gotP, gotH := s.String(), s.PrettyString(), string(s.PrettyHTML())
	if gotS != plain {
		w.Fail(c, "rendering", fmt.Sprintf("Size(%d).String() = %q want %q", c.S, gotS, plain))
	}
	if gotP != pretty {
		w.Fail(c, "rendering", fmt.Sprintf("Size(%d).PrettyString() = %q want %q", c.S, gotP, pretty))
	}
	if gotH != html {
		w.Fail(c, "rendering", fmt.Sprintf("Size(%d).PrettyHTML() = %q want %q", c.S, gotH, html))
	}
	// results are kept (as returned) until the next size has been rendered: they must not change under the caller
	w.Retain(c, "String", gotS, plain)
	w.Retain(c, "PrettyString", gotP, pretty)
	w.Retain(c, "PrettyHTML", gotH, html)
	if fb, err := size.DefaultFormatter(nil, s, size.FormatPretty); err == nil {
		w.RetainBytes(c, "DefaultFormatter(nil)", fb, pretty)
	}
	if c.S%4 == 2 || c.S < 64 || c.S&(c.S-1) == 0 { // the returned bytes belong to the caller
		for _, fw := range []struct {
			f    size.Format
			want string
		}{{0, plain}, {size.FormatPretty, pretty}, {size.FormatPretty | size.FormatHTML, html}} {
			fw := fw
			if b2, err := size.DefaultFormatter(nil, s, fw.f); err == nil {
				w.Owned(c, "DefaultFormatter(nil)", b2, fw.want, func() ([]byte, error) { return size.DefaultFormatter(nil, s, fw.f) })
			}
		}
	}
}

func nontrivial(s uint64) bool {
	if s == 0 {
		return false
	}
	v, u := ref.Shorten(s)
	return v >= 10 || (u != "B" && u != "KiB")
}

func TestCheck(t *testing.T) {
	r := vkit.Start("C13")
	defer r.Finish(t)
	if r.ReplayCold() {
		return
	}
	if r.Replay != "" {
		var c Case
		if err := r.LoadReplay(&c); err != nil {
			t.Fatalf("replay: %v", err)
		}
		defer configure(c.Switches)()
		defer configureParser(c.Parser)()
		r.Serial(func(w *vkit.W) { judge(c, w); w.Eval(true) })
		return
	}
	r.Rule("Each case is a 64-bit size judged through Shorten, DefaultFormatter with {0, Pretty, Pretty|HTML, HTML}, String, PrettyString, PrettyHTML against math/big (product, maximality) and an independent grouping routine. " +
		"Non-trivial: size != 0 with a multi-digit factor or a unit above KiB. Strata values are distinct by construction (sorted set); random values are de-duplicated by hash.")
	r.Regress(func(raw json.RawMessage, w *vkit.W) error {
		var c Case
		if err := json.Unmarshal(raw, &c); err != nil {
			return err
		}
		defer configure(c.Switches)()
		defer configureParser(c.Parser)()
		judge(c, w)
		w.Eval(true)
		return nil
	})
	strata := ref.SizeStrata(1 << 20)
	r.Phase("A0: the marshalling switches (DisableMarshalTextUnit / JSONStringForm / JSONObjectForm) do not influence Shorten, String, PrettyString, PrettyHTML, DefaultFormatter", func() {
		a, b, cc := size.DisableMarshalTextUnit, size.DisableMarshalJSONStringForm, size.DisableMarshalJSONObjectForm
		defer func() {
			size.DisableMarshalTextUnit, size.DisableMarshalJSONStringForm, size.DisableMarshalJSONObjectForm = a, b, cc
		}()
		for sw := 1; sw < 8; sw++ {
			size.DisableMarshalTextUnit, size.DisableMarshalJSONStringForm, size.DisableMarshalJSONObjectForm = sw&1 != 0, sw&2 != 0, sw&4 != 0
			r.Serial(func(w *vkit.W) { // the smallest values and the unit boundaries under every switch setting, twice in a row
				for round := 0; round < 2; round++ {
					for _, v := range []uint64{0, 1, 2, 999, 1000, 1023, 1024, 1025, 1 << 20, 1 << 30, 1 << 40, 1 << 50, 1 << 60, 1 << 63, ^uint64(0)} {
						c := Case{S: v, Switches: sw}
						judge(c, w)
						w.Eval(nontrivial(v))
					}
				}
			})
			r.Parallel(int64(len(strata))/8, 1024, func(w *vkit.W, lo, hi int64) {
				for i := lo; i < hi; i++ {
					c := Case{S: strata[i*8+int64(sw)], Switches: sw}
					judge(c, w)
					w.Eval(nontrivial(c.S))
				}
			})
		}
	})
	r.Phase("A00: the parser's settings (every DefaultRule subset and undefined bits, MaxInputLength 1, MaxObjectKeys 1) do not influence the renderings", func() {
		settings := []int{}
		for rule := 1; rule < 16; rule++ {
			settings = append(settings, rule)
		}
		settings = append(settings, 0xffff, 1<<16, 1<<17, 1|1<<16|1<<17, 0xfff0)
		for si, ps := range settings {
			restore := configureParser(ps)
			r.Serial(func(w *vkit.W) {
				for _, v := range []uint64{0, 1, 2, 999, 1000, 1023, 1024, 1025, 2048, 1234567, 1 << 20, 1 << 30, 1 << 40, 1 << 50, 1 << 60, 1 << 63, ^uint64(0)} {
					judge(Case{S: v, Parser: ps}, w)
					w.Eval(nontrivial(v))
				}
			})
			r.Parallel(int64(len(strata))/32, 1024, func(w *vkit.W, lo, hi int64) {
				for i := lo; i < hi; i++ {
					c := Case{S: strata[i*32+int64(si)], Parser: ps}
					judge(c, w)
					w.Eval(nontrivial(c.S))
				}
			})
			restore()
		}
	})
	// Phase A01: a value and, right after it, the values that differ from it in one high bit or by 2^k: whatever is remembered
	// about the previous rendering must not be taken for this one.
	r.Phase("A01: each of 6000 strata values followed immediately by its aliases (one bit of 63, 62, 53, 32, 31, 16, 8 flipped; +-2^32; x1024; /1024)", func() {
		r.Parallel(6000, 64, func(w *vkit.W, lo, hi int64) {
			for i := lo; i < hi; i++ {
				v := strata[(i*int64(len(strata)))/6000]
				for _, a := range []uint64{v ^ 1<<63, v ^ 1<<62, v ^ 1<<53, v ^ 1<<32, v ^ 1<<31, v ^ 1<<16, v ^ 1<<8, v + 1<<32, v - 1<<32, v << 10, v >> 10, ^v} {
					judge(Case{S: v}, w)
					judge(Case{S: a}, w)
					w.EvalRandom(vkit.HashU(v, a, 13), nontrivial(a))
				}
			}
		})
	})
	// Phase A02: the package-level Formatter is replaced by one that succeeds with other text, then by one that fails, each is used
	// once, and the default comes back: afterwards every rendering is again what the statement says.
	r.Phase("A02: renderings right after custom package-level Formatter functions (one succeeding with other text, one failing) were installed, used and removed", func() {
		r.Serial(func(w *vkit.W) {
			for i := 0; i < len(strata); i += 29 {
				v := size.Size(strata[i])
				old := size.Formatter
				size.Formatter = func(buf []byte, s size.Size, f size.Format) ([]byte, error) {
					return append(buf, "custom"...), nil
				}
				_, _ = v.String(), v.PrettyString()
				size.Formatter = func(buf []byte, s size.Size, f size.Format) ([]byte, error) {
					return append(buf, "part"...), errors.New("formatter refused")
				}
				_ = v.String() // documented: falls back to the plain byte count
				_, _ = v.MarshalText()
				vkit.Panics(func() { _ = v.PrettyString() }) // documented: panics
				size.Formatter = old
				judge(Case{S: strata[i]}, w)
				w.Eval(nontrivial(strata[i]))
			}
		})
	})
	r.Phase(fmt.Sprintf("A: %d stratified values (all < 2^20, odd x 2^k, decimal lengths, neighbours of 1000^k/1024^k, m x 1024^k, top 2049)", len(strata)), func() {
		r.Parallel(int64(len(strata)), 4096, func(w *vkit.W, lo, hi int64) {
			for i := lo; i < hi; i++ {
				c := Case{S: strata[i]}
				judge(c, w)
				w.Eval(nontrivial(c.S))
				if c.S > 1<<40 && c.S%1024 == 0 && w.WantSample() {
					w.Sample(c)
				}
			}
		})
	})
	r.Exhaustive("every value below 2^20 and the stratified boundary set, x 4 formats")
	nRand := int64(r.Pick(2000000, 60000000))
	r.Phase(fmt.Sprintf("B: %d seeded random values (uniform over bit lengths and trailing-zero counts)", nRand), func() {
		r.Parallel(nRand, 8192, func(w *vkit.W, lo, hi int64) {
			for i := lo; i < hi; i++ {
				g := r.Rng("rand", i)
				v := g.U64() >> uint(g.Intn(64))
				if i%2 == 0 {
					v <<= uint(g.Intn(64))
				}
				judge(Case{S: v}, w)
				w.EvalRandom(v, nontrivial(v))
			}
		})
	})
	r.Sampled()
	r.ColdPhase(coldFirst)

	r.Phase("C: rapid", func() {
		r.Rapid(t, "rapid-size", 0, r.Pick(20000, 400000), func(rt *rapid.T, w *vkit.W) vkit.RapidCase {
			v := rapid.Uint64().Draw(rt, "v") >> uint(rapid.IntRange(0, 63).Draw(rt, "shr")) << uint(rapid.IntRange(0, 63).Draw(rt, "shl"))
			c := Case{S: v}
			judge(c, w)
			return vkit.RapidCase{Case: c, Hash: v, NT: nontrivial(v)}
		})
	})
}
