#!/usr/bin/env python3
"""Prints the seeded-change x check matrix (markdown) from /verif/seeded/*/meta.json."""
import json, glob, os, sys
HERE = os.path.dirname(os.path.dirname(os.path.abspath(__file__)))
rows = []
for d in sorted(glob.glob(os.path.join(HERE, "seeded", "*"))):
    try:
        m = json.load(open(os.path.join(d, "meta.json")))
    except Exception:
        continue
    rows.append(m)
print("| id | property | what was changed (what it needs to manifest) | own check | other checks that catch it |")
print("|---|---|---|---|---|")
for m in rows:
    own = [c for c in m["checks_run_quick_tier"] if c["check"] == m["property"]]
    ownres = "not run"
    if own:
        c = own[0]
        ownres = {0: "**missed**", 1: "caught", 2: "inconclusive"}.get(c["exit"], str(c["exit"]))
        if c["exit"] == 1:
            ownres += " (%s; %.0f s)" % (", ".join(c["violation_classes"][:2]), c["seconds"])
    others = [c["check"] for c in m["checks_run_quick_tier"] if c["exit"] == 1 and c["check"] != m["property"]]
    summ = (m.get("summary") or "").replace("|", "/").replace("\n", " ")
    needs = (m.get("needs_to_manifest") or "").replace("|", "/").replace("\n", " ")
    if len(summ) > 170: summ = summ[:167] + "..."
    if len(needs) > 170: needs = needs[:167] + "..."
    print("| %s | %s | %s (%s) | %s | %s |" % (m["id"], m["property"], summ, needs, ownres, ", ".join(others) or "-"))
caught = sum(1 for m in rows if m["property"] in m["caught_by"])
anyc = sum(1 for m in rows if m["caught_by"])
print()
print("%d seeded changes; %d caught by the check of the property they were written against, %d caught by at least one check." % (len(rows), caught, anyc))
