#!/usr/bin/env python3
"""tools/held_out.py <round> <lowest n> <highest n> <harness commit note>
Freezes the result of a held-out round of seeded changes (seeded/<ID>-<n>/meta.json for lowest <= n <= highest, as written by
tools/confirm_seed.sh before the checks were touched again) into seeded/HELD_OUT_ROUND<round>.json."""
import json, glob, os, sys

HERE = os.path.dirname(os.path.dirname(os.path.abspath(__file__)))
rnd, lo, hi, note = sys.argv[1], int(sys.argv[2]), int(sys.argv[3]), sys.argv[4]
rows = []
for d in sorted(glob.glob(os.path.join(HERE, "seeded", "C*-*"))):
    n = int(d.rsplit("-", 1)[1])
    if not lo <= n <= hi:
        continue
    m = json.load(open(os.path.join(d, "meta.json")))
    rows.append({"id": m["id"], "property": m["property"], "summary": (m.get("summary") or "")[:200],
                 "caught_by_own_check": m["property"] in m["caught_by"], "caught_by": m["caught_by"],
                 "inconclusive": [c["check"] for c in m["checks_run_quick_tier"] if c["exit"] == 2]})
out = {"harness_commit": note, "seeds": len(rows),
       "caught_by_own_check": sum(r["caught_by_own_check"] for r in rows),
       "caught_by_some_check": sum(bool(r["caught_by"]) for r in rows), "rows": rows}
json.dump(out, open(os.path.join(HERE, "seeded", "HELD_OUT_ROUND%s.json" % rnd), "w"), indent=1)
print(out["seeds"], out["caught_by_own_check"], out["caught_by_some_check"])
for r in rows:
    if r["inconclusive"]:
        print("inconclusive:", r["id"], r["inconclusive"])
