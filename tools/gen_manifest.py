#!/usr/bin/env python3
"""Regenerates /verif/MANIFEST.json from the table below (one entry per property whose check package exists)."""
import json, os, sys

HERE = os.path.dirname(os.path.dirname(os.path.abspath(__file__)))

# id -> (technique, level text, level note, design ref)
CHECKS = {
 "C01": ("exhaustive enumeration of all 3,652,425 dates x 2 formats through every text path + rapid long-year cases; oracle = independent calendar and zero-padder, inverse",
         "Every date of years 0000-9999 is formatted through every output path and parsed back through every input path and compared with an independent calendar/zero-padder; long years and MaxInputLength settings are sampled with rapid. Complete for the 4-digit-year scope, sampled beyond.",
         "Trusts the harness calendar (self-tested against package time) and encoding/json, encoding/xml for the container paths.", "4/C01"),
 "C02": ("exhaustive enumeration n<=130000 x 128 flag sets against a rule-based numeral builder; round-trip through parser/Valid",
         "Complete product of numbers and flag sets in the thorough tier, all flag sets for n<4000 plus verb flag sets for all n in quick; output compared with an independent numeral builder and parsed back.",
         "Trusts the rule-based numeral builder (cross-checked against an independent evaluator in its self-test).", "4/C02"),
 "C03": ("exhaustive enumeration of all strings over 9 symbols up to length 7-8 against a hand-written SemVer BNF recogniser; rapid grammar+edit generator; rapid Ver values",
         "Accept/reject, field values, byte-for-byte round-trip and error typing for every entry point on every short string over the grammar's alphabet, plus generated long versions around the numeric and length limits.",
         "Trusts the hand-written recogniser (self-tested on the specification's examples) and math/big.", "4/C03"),
 "C04": ("stratified + seeded random uint64 x 8 switch settings x marshal forms and encoding/json containers; oracle = inverse",
         "Round-trip of every stratum value under all switch settings through text, JSON and container paths.", "Trusts encoding/json.", "4/C04"),
 "C05": ("bit/nibble sweeps, random IDs, all one-byte edits of valid texts x 4 rule sets x 2 input types; oracle = independent formatter/recogniser",
         "Exact layout, strictness and round-trip on exhaustive single-position sweeps and all single-byte mutations of sampled valid texts.", "Trusts the harness formatter/recogniser.", "4/C05"),
 "C06": ("exhaustive ordered pairs over all valid pre-releases up to length 4-5 x cores x build metadata against an independent SemVer section-11 comparator; rapid long identifier lists",
         "All entry points agree with an independent precedence comparator on every ordered pair of a complete small universe and on generated long identifier lists; the pinned a01/a1 family is excluded exactly as the statement says.",
         "Trusts the independent comparator (self-tested on the specification chain).", "4/C06"),
 "C07": ("adjacent pairs of all 3.65M dates, all pairs of a boundary set, Add/AddDuration/FromTime grids; oracle = independent day ordinals",
         "Ordering, differences and arithmetic compared with day-ordinal arithmetic on complete adjacent-pair and boundary-pair sets and on dense grids.", "Trusts the harness calendar (self-tested against package time).", "4/C07"),
 "C08": ("boundary sweeps for 12 numeric kinds x 18 units, rapid text grammar, Bytes[N] boundaries; oracle = math/big",
         "Exact-or-refused arithmetic judged with arbitrary precision at every overflow boundary and over generated texts.", "Trusts math/big; float conversions as on linux/amd64.", "4/C08"),
 "C09": ("exhaustive enumeration (years x MM x DD x layouts; all strings over 6 symbols to length 9-10; all one-byte mutations) + rapid; oracle = hand-written recogniser + Gregorian calendar",
         "Accept/reject, parsed components, zero result and error typing on complete small scopes and sampled mutations, under both rules and several length limits.",
         "Trusts the hand-written recogniser and calendar (self-tested against package time).", "4/C09"),
 "C10": ("exhaustive enumeration of all strings over {I,V,X,L,C,D,M} up to length 7-9 in upper/lower/mixed case + foreign-byte mutations; oracle = regexp-free group evaluator",
         "Language and value equality with an independent evaluator on every short string, all case masks, and every single foreign byte.", "Trusts the evaluator (self-tested against the numeral builder).", "4/C10"),
 "C11": ("exhaustive dates -400..9999, 65,536 month/day byte sweeps per year, version and length sweeps, random bodies; oracle = independent encoder + calendar validity",
         "Layout, round-trip and strictness of the binary form on complete sweeps.", "Trusts the harness calendar.", "4/C11"),
 "C12": ("rapid JSON document generator x permutations x truncations x suffixes x 16 rule subsets x MaxObjectKeys; oracle = json.Valid + document model + math/big text oracle",
         "Generated documents with known structure judged against a model of the three JSON forms; metamorphic member-order invariance.", "Trusts encoding/json's json.Valid and the document model.", "4/C12"),
 "C13": ("stratified + random uint64 x 4 formats; oracle = math/big + independent grouping routine",
         "Shorten exactness/maximality and the exact rendering in four formats on every stratum value.", "Trusts math/big.", "4/C13"),
 "C14": ("exhaustive ordered pairs over the C06 universe incl. mixed identifiers; algebraic laws; Next* boundaries",
         "Order laws, helper agreement and Next*/Latest contracts on every ordered pair of a complete small universe plus generated versions.", "Trusts the C03 recogniser for helper validity.", "4/C14"),
 "C15": ("exhaustive (from,to,probe) triples over a boundary window x nil shapes + rapid; oracle = day ordinals",
         "Filter semantics compared with ordinal intervals on all triples of a window and on random triples, with caller-variable mutation.", "Trusts the harness calendar.", "4/C15"),
 "C16": ("generated prefixes x spare capacity x flags x values for five formatters; metamorphic oracle prefix||format(nil)",
         "Append semantics and non-interference with the caller's bytes for every formatter and flag subset.", "None beyond the Go runtime.", "4/C16"),
 "C17": ("rapid state machines (one receiver per type, model = last good value) + stateless string/bytes agreement",
         "Histories of failing and succeeding unmarshal/scan calls with input snapshots and scribbling; four input type instantiations.", "Trusts the model (last successfully decoded value).", "4/C17"),
 "C18": ("rapid hostile byte strings into every entry point, limit matrix; native coverage-guided fuzzing in the thorough tier",
         "No panic on generated hostile inputs; the length-limit contract as a metamorphic relation.", "Fuzz campaigns are time-bounded and not reproducible from a seed; saved inputs are.", "4/C18"),
 "C19": ("rapid-generated concurrency configurations under the race detector; bit-field invariants, duplicates, per-bit coverage",
         "Sampled schedules (goroutines, GOMAXPROCS, yields) with the race detector's happens-before analysis.", "Schedules are sampled, not enumerated.", "4/C19"),
 "C20": ("rapid-generated scripted marshalers x case lists x six helpers; oracle = independent pass/fail model with a recording TestingT",
         "Per-list and per-case verdicts of all six helpers compared with an independent model.", "Trusts the model of case satisfaction derived from the statement.", "4/C20"),
}

def main():
    checks, na = [], []
    for i in range(1, 21):
        pid = "C%02d" % i
        pkg = os.path.join(HERE, "harness", pid.lower(), "check_test.go")
        if os.path.exists(pkg) and pid in CHECKS:
            tech, text, note, ref = CHECKS[pid]
            checks.append({
                "property_id": pid,
                "quick_cmd": "./run %s quick" % pid,
                "thorough_cmd": "./run %s thorough" % pid,
                "evidence_file": "evidence/%s.json" % pid,
                "replay_cmd_template": "./run %s --replay {path}" % pid,
                "engine": "go-pbt-harness",
                "level_claimed": {"category": "exploration", "text": text, "design_ref": "DESIGN.md section " + ref},
                "level_note": note,
                "technique": "property-based testing: " + tech,
            })
        else:
            na.append({"property_id": pid, "reason": "check not built yet in this revision (planned: property-based check, see DESIGN.md section 4)"})
    m = {
        "version": 1,
        "setup_cmd": "cd harness && GOFLAGS=-mod=mod GOPROXY=off GOSUMDB=off GOTOOLCHAIN=local go test -tags verif -vet=off -count=1 -run '^$' ./...",
        "hooks": {
            "guard": "verif",
            "enable": "go test -tags verif (passed by ./run on every build; no hook exists, the tag guards nothing today)",
            "baseline_off_cmd": "cd /repo && GOFLAGS=-mod=mod GOPROXY=off GOSUMDB=off go test -json -vet=off -count=1 -timeout 25m ./...",
            "source_commits": [],
            "add_only": True,
        },
        "engines": [{"name": "go-pbt-harness", "path": "harness", "serves_properties": [c["property_id"] for c in checks],
                     "kind_free_text": "Go test packages (one process per property): exhaustive small-scope enumeration, pgregory.net/rapid generators/state machines with shrinking, native go fuzzing in thorough tiers; explicit reference oracles in harness/ref"}],
        "checks": checks,
        "notes": "All checks rebuild the library from /repo's working tree (go.mod replace => /repo). Exit 0 held / 1 VIOLATION / 2 inconclusive (build failure, timeout). VERIF_SEED selects rapid seeds and random strata. Every check combines exhaustive small-scope enumeration, seeded random strata and pgregory.net/rapid properties (shrinking) against an explicit independent oracle; across checks the generators also cover reused guarded caller buffers, derived input types, settings changed between calls (incl. replaced package-level Formatter/Parser functions), cold-start child processes, retained and caller-overwritten results, conventional special texts, confusable runes, length/nesting/numeric ladders, recurrence of a text after up to 200000 others, values of different provenance, several separators replaced at once, renderings right after a parse of non-canonical text, first calls of a process under other settings, buffer capacities / padding lengths / member counts chosen relative to the output length and the configured limits, the neighbouring entry point called on the same argument just before, and per-configuration (GOMAXPROCS, goroutines) bit statistics of generated IDs (DESIGN.md section 9 table, sections 10 and 12). A run that meets more than 3 million failing cases stops starting new work, and violations recorded before go test's time limit are reported by a watchdog; running out of time is never reported as a violation. The thorough tier adds native go fuzzing for C03, C05, C08, C09, C10, C12 and C18. Fixed defects are listed in KNOWN_FINDINGS.txt (fixed: lines suppress nothing).",
    }
    if na:
        m["not_applicable"] = na
    with open(os.path.join(HERE, "MANIFEST.json"), "w") as f:
        json.dump(m, f, indent=1)
        f.write("\n")

if __name__ == "__main__":
    main()
