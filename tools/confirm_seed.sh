#!/bin/bash
# tools/confirm_seed.sh <property ID> <k> <source dir with patch<k>.diff demo<k>_test.go meta<k>.json> [origin] [number to store it under]
# Confirms a seeded change independently (scratch copy of /repo HEAD outside /repo and /verif):
#   1. the patch applies and builds, 2. the repository's whole test suite still passes with it,
#   3. the demonstration test fails with the patch and 4. passes without it.
# Then runs the quick tier of the property's own check and of every check of the touched package family against the
# patched copy and stores everything under /verif/seeded/<ID>-<k>/ (patch.diff, demo_test.go, meta.json).
set -u
ID="$1"; K="$2"; SRC="$3"; ORIGIN="${4:-sub-agent given only the property text}"; OUTK="${5:-$K}"
HERE="$(cd "$(dirname "$0")/.." && pwd)"
export GOFLAGS=-mod=mod GOPROXY=off GOSUMDB=off GOTOOLCHAIN=local
PATCH="$SRC/patch$K.diff"; DEMO="$SRC/demo${K}_test.go"; META="$SRC/meta$K.json"
[[ -f "$PATCH" && -f "$DEMO" ]] || { echo "$ID-$K: missing files"; exit 3; }
SCR="$(mktemp -d /tmp/seedconfirm.XXXXXX)"
trap 'rm -rf "$SCR"' EXIT
git -C /repo archive HEAD | tar -x -C "$SCR"
cd "$SCR" && git init -q . >/dev/null
DIR="$(head -1 "$DEMO" | sed -n 's#^// place in: *\([a-z]*\)/*.*#\1#p')"
[[ -n "$DIR" && -d "$SCR/$DIR" ]] || DIR="$(jq -r '.demo_dir // empty' "$META" 2>/dev/null | tr -d '/')"
[[ -n "$DIR" && -d "$SCR/$DIR" ]] || { echo "$ID-$K: cannot determine demo dir"; exit 3; }
TESTNAME="$(grep -o '^func Test[A-Za-z0-9_]*' "$DEMO" | head -1 | sed 's/func //')"
RACE=""; grep -q -- '-race' "$META" 2>/dev/null && RACE="-race"
# 4. demo passes without the patch
cp "$DEMO" "$SCR/$DIR/zz_seed_demo_test.go"
go test $RACE -vet=off -count=1 -run "^${TESTNAME}\$" "./$DIR" > "$SCR/demo_clean.log" 2>&1; demo_clean=$?
rm "$SCR/$DIR/zz_seed_demo_test.go"
# 1. apply
git apply "$PATCH" || { echo "$ID-$K: patch does not apply to /repo HEAD"; exit 4; }
go build ./... > "$SCR/build.log" 2>&1 || { echo "$ID-$K: does not build"; cat "$SCR/build.log"; exit 4; }
# 2. suite
go test -vet=off -count=1 ./... > "$SCR/suite.log" 2>&1; suite=$?
# 3. demo fails with the patch
cp "$DEMO" "$SCR/$DIR/zz_seed_demo_test.go"
go test $RACE -vet=off -count=1 -run "^${TESTNAME}\$" "./$DIR" > "$SCR/demo_patched.log" 2>&1; demo_patched=$?
rm "$SCR/$DIR/zz_seed_demo_test.go"
echo "$ID-$K: suite_rc=$suite demo_clean_rc=$demo_clean demo_patched_rc=$demo_patched (dir $DIR, test $TESTNAME)"
if [[ $suite -ne 0 || $demo_clean -ne 0 || $demo_patched -eq 0 ]]; then echo "$ID-$K: NOT CONFIRMED"; tail -5 "$SCR/suite.log"; exit 5; fi
# family of checks by touched packages
FAM="$ID"
for pkg in $(grep '^+++ b/' "$PATCH" | sed 's#+++ b/\([a-z]*\)/.*#\1#' | sort -u); do
  case "$pkg" in
    date) FAM="$FAM C01 C07 C09 C11 C15 C16 C17 C18";;
    roman) FAM="$FAM C02 C10 C16 C17 C18";;
    sem) FAM="$FAM C03 C06 C14 C16 C17 C18";;
    size) FAM="$FAM C04 C08 C12 C13 C16 C17 C18";;
    uu) FAM="$FAM C05 C16 C17 C18 C19";;
    test) FAM="$FAM C20";;
    internal|constraint) FAM="$FAM C01 C05 C08 C16";;
  esac
done
# SEED_FAMILY=own: first pass with the property's own check only (the family is run afterwards for what it misses)
[[ "${SEED_FAMILY:-all}" == own ]] && FAM="$ID"
FAM="$(echo $FAM | tr ' ' '\n' | awk '!s[$0]++' | tr '\n' ' ')"
OUTDIR="$HERE/seeded/$ID-$OUTK"; mkdir -p "$OUTDIR"
cp "$PATCH" "$OUTDIR/patch.diff"; cp "$DEMO" "$OUTDIR/demo_test.go"
RES="[]"
for id in $FAM; do
  t0=$(date +%s.%N)
  out="$(VERIF_REPO="$SCR" VERIF_REPLAY_DIR="$SCR/replays" VERIF_EVIDENCE="$SCR/evidence-$id.json" "$HERE/run" "$id" quick 2>&1)"; rc=$?
  t1=$(date +%s.%N)
  classes="$(echo "$out" | grep -A1 '^VIOLATION' | grep -o 'class=[^ ]*' | sed 's/class=//' | sort -u | tr '\n' ',' | sed 's/,$//')"
  secs="$(echo "$t1 - $t0" | bc)"
  echo "  $ID-$K check $id exit=$rc secs=$secs classes=$classes"
  RES="$(echo "$RES" | jq --arg id "$id" --argjson rc $rc --arg secs "$secs" --arg classes "$classes" '. + [{check:$id, exit:$rc, seconds:($secs|tonumber), violation_classes:($classes|split(",")|map(select(.!="")))}]')"
done
AGENT="{}"; [[ -f "$META" ]] && AGENT="$(jq -c . "$META" 2>/dev/null || echo '{}')"
jq -n --arg id "$ID-$OUTK" --arg prop "$ID" --arg origin "$ORIGIN" --arg dir "$DIR" --arg tn "$TESTNAME" --arg race "$RACE" --arg head "$(git -C /repo rev-parse --short HEAD)" \
  --argjson agent "$AGENT" --argjson res "$RES" '{
  id:$id, property:$prop, origin:$origin,
  summary:($agent.summary // ""), needs_to_manifest:($agent.needs // ""),
  demonstration:{file:"demo_test.go", copy_into:$dir, run:("go test " + $race + " -vet=off -count=1 -run ^" + $tn + "$ ./" + $dir)},
  confirmed:{against_repo_commit:$head, how:"tools/confirm_seed.sh in a scratch copy of /repo HEAD: git apply patch.diff; go build ./...; go test -vet=off -count=1 ./... (whole suite passes); demo test fails with the patch and passes without it", suite_passes_with_patch:true, demo_fails_with_patch:true, demo_passes_without_patch:true},
  checks_run_quick_tier:$res,
  caught_by:[$res[]|select(.exit==1)|.check]
}' > "$OUTDIR/meta.json"
echo "$ID-$OUTK (source $K): confirmed; caught by: $(jq -c .caught_by "$OUTDIR/meta.json")"
