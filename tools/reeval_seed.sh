#!/bin/bash
# tools/reeval_seed.sh <seed id, e.g. C20-7> ...   - re-runs tools/confirm_seed.sh for stored seeded changes from what is stored
# under seeded/<id>/ (patch.diff, demo_test.go, meta.json), keeping the stored origin, summary and needs; the checks' results
# in meta.json are replaced by those of the checks as they are now.
set -u
HERE="$(cd "$(dirname "$0")/.." && pwd)"
for sid in "$@"; do
  d="$HERE/seeded/$sid"; [[ -f "$d/patch.diff" && -f "$d/meta.json" ]] || { echo "$sid: not stored"; continue; }
  prop="${sid%-*}"; n="${sid#*-}"
  src="$(mktemp -d /tmp/reeval.XXXXXX)"
  cp "$d/patch.diff" "$src/patch1.diff"; cp "$d/demo_test.go" "$src/demo1_test.go"
  jq '{property:.property, summary:.summary, needs:.needs_to_manifest, demo_dir:.demonstration.copy_into, demo_run:.demonstration.run}' "$d/meta.json" > "$src/meta1.json"
  origin="$(jq -r .origin "$d/meta.json")"
  "$HERE/tools/confirm_seed.sh" "$prop" 1 "$src" "$origin" "$n"
  rm -rf "$src"
done
