#!/bin/bash
# tools/soak.sh [tier] [seed...]   - runs every check at several VERIF_SEED values on /repo as it is and reports every
# run that does not exit 0 (on an unchanged tree every such run is a defect of the machinery or of the library).
# Evidence and replay files of these runs go to a scratch directory, not to /verif/evidence.
set -u
HERE="$(cd "$(dirname "$0")/.." && pwd)"
TIER="${1:-quick}"; shift || true
SEEDS=("$@"); [[ ${#SEEDS[@]} -eq 0 ]] && SEEDS=(0 2 3 7 12345)
SCR="$(mktemp -d /tmp/soak.XXXXXX)"; trap 'rm -rf "$SCR"' EXIT
bad=0
for seed in "${SEEDS[@]}"; do
  for i in $(seq -w 1 20); do
    id="C$i"
    out="$(VERIF_SEED=$seed VERIF_EVIDENCE="$SCR/$id.json" VERIF_REPLAY_DIR="$SCR/replays" "$HERE/run" "$id" "$TIER" 2>&1)"; rc=$?
    line="$(echo "$out" | grep '^SUMMARY' | cut -c1-130)"
    if [[ $rc -ne 0 ]]; then bad=$((bad+1)); echo "SOAK-FAIL seed=$seed $id exit=$rc"; echo "$out" | grep -v 'rapid\] draw' | tail -12 | sed 's/^/   /'; else echo "ok seed=$seed $line"; fi
  done
done
echo "soak finished: $bad failing runs"
exit $((bad>0))
