#!/bin/bash
# tools/mutant.sh <patch.diff> <ID> [<ID>...]   - sensitivity self-test helper (not a registered check)
# Copies /repo's HEAD to a scratch directory outside /repo and /verif, applies the patch, runs the repository's own
# test suite (must still pass) and then the quick tier of the given checks with VERIF_REPO pointing at the copy.
# Prints one line per check: "<patch> <ID> exit=<rc> secs=<n>". The scratch copy is removed afterwards.
set -u
PATCH="$(readlink -f "$1")"; shift
HERE="$(cd "$(dirname "$0")/.." && pwd)"
SCR="$(mktemp -d /tmp/mutant.XXXXXX)"
trap 'rm -rf "$SCR"' EXIT
git -C /repo archive HEAD | tar -x -C "$SCR"
( cd "$SCR" && git init -q . && git apply "$PATCH" ) || { echo "$PATCH: does not apply"; exit 3; }
export GOFLAGS=-mod=mod GOPROXY=off GOSUMDB=off GOTOOLCHAIN=local
if [[ "${SKIP_SUITE:-}" != 1 ]]; then
  if ! ( cd "$SCR" && go test -vet=off -count=1 ./... >/tmp/mutant_suite.$$ 2>&1 ); then echo "$PATCH: SUITE FAILS"; tail -5 /tmp/mutant_suite.$$; rm -f /tmp/mutant_suite.$$; exit 4; fi
  rm -f /tmp/mutant_suite.$$
fi
TIER="${TIER:-quick}"
for id in "$@"; do
  t0=$(date +%s)
  out="$(VERIF_REPO="$SCR" VERIF_REPLAY_DIR="$SCR/replays" VERIF_EVIDENCE="$SCR/evidence-$id.json" "$HERE/run" "$id" "$TIER" 2>&1)"; rc=$?
  t1=$(date +%s)
  echo "$(basename "$(dirname "$(dirname "$PATCH")")")/$(basename "$PATCH") $id exit=$rc secs=$((t1-t0)) $(echo "$out" | grep -A1 '^VIOLATION' | grep 'class=' | head -3 | tr -s ' ' | tr '\n' ';')"
  if [[ "${VERBOSE:-}" == 1 ]]; then echo "$out" | grep -v 'rapid\] draw' | tail -15; fi
done
